"""L5 - algebraic normal form for sibling formulas.

Terms are rational functions num/den of multivariate polynomials with Fraction
coefficients over *atoms*.  Atoms are hashable nested tuples:

  ('sym', name)                      scalar symbol (hyper-parameter, extent size N@n ...)
  ('el', array, (i1, i2, ...))       element of a named array at symbolic indices
  ('fn', f, argkey)                  uninterpreted / special function of a canonical argument
  ('sum', extent, bodykey)           sum over a bound index (placeholder ('$', depth))
  ('ind', condkey)                   indicator of a canonical condition (idempotent)

Deterministic: no heuristic simplifier.  Equality is decided by cross-multiplication of
normal forms; anything outside the fragment raises Unsupported (-> UNDECIDED upstream).

Identities built in (enumerated from what the repository uses):
  exp(a+b) = exp(a) exp(b), exp(k a) = exp(a)^k (integer k), exp(-a) = 1/exp(a)
  sqrt(x)^2 = x, abs(x)^2 = x^2, sign(x)*abs(x) = x, sign(x)^2 = 1 (x != 0 assumed in
  smooth regions), ind(c)^2 = ind(c), ind(not c) = 1 - ind(c), `<=` is identified with `<`
  (agreement is decided almost everywhere w.r.t. strict / non-strict inequalities; equality
  tests `== 0` are kept exact),  sum is linear and index-free factors are pulled out,
  Sum_i 1 = size of the extent, X[i,j]*NZ[i,j] = X[i,j] (stored-entry mask of a CSC column).
"""
from fractions import Fraction

ONE = ()


class Unsupported(Exception):
    pass


# ------------------------------------------------------------------ atoms
_key_cache = {}


def akey(a):
    k = _key_cache.get(a)
    if k is None:
        k = repr(a)
        _key_cache[a] = k
    return k


def mono_sorted(d):
    return tuple(sorted(((a, e) for a, e in d.items() if e), key=lambda t: akey(t[0])))


KEY2RF = {}      # canonical key -> RF (to rebuild arguments of fn/sum atoms)


# ------------------------------------------------------------- polynomials
def p_const(c):
    c = Fraction(c)
    return {ONE: c} if c else {}


def p_add(a, b):
    r = dict(a)
    for m, c in b.items():
        v = r.get(m, 0) + c
        if v:
            r[m] = v
        else:
            r.pop(m, None)
    return r


def p_neg(a):
    return {m: -c for m, c in a.items()}


def _atom_pow_rules(d):
    """apply per-atom exponent identities in a monomial dict; returns (dict, extra RF factor
    or None)"""
    extra = None
    for a in list(d):
        e = d[a]
        if a[0] == "ind" and e > 1:
            d[a] = 1
        elif a[0] == "fn" and a[1] == "sqrt" and (e >= 2 or e <= -2):
            q, r = divmod(abs(e), 2)
            sgn = 1 if e > 0 else -1
            d[a] = sgn * r
            base = KEY2RF[a[2]]
            f = base.powi(sgn * q)
            extra = f if extra is None else extra * f
        elif a[0] == "fn" and a[1] == "abs" and (e >= 2 or e <= -2):
            q, r = divmod(abs(e), 2)
            sgn = 1 if e > 0 else -1
            d[a] = sgn * r
            base = KEY2RF[a[2]]
            f = base.powi(sgn * 2 * q)
            extra = f if extra is None else extra * f
        elif a[0] == "fn" and a[1] == "sign" and (e >= 2 or e <= -2):
            d[a] = (abs(e) % 2) * (1 if e > 0 else -1)
        elif a[0] == "fn" and a[1].startswith("pow1/"):
            q = int(a[1][5:])
            if abs(e) >= q:
                k, r = divmod(abs(e), q)
                sgn = 1 if e > 0 else -1
                d[a] = sgn * r
                f = KEY2RF[a[2]].powi(sgn * k)
                extra = f if extra is None else extra * f
    # sign(x) * abs(x) -> x
    for a in list(d):
        if a[0] == "fn" and a[1] == "sign" and d.get(a, 0) >= 1:
            ab = ("fn", "abs", a[2])
            if d.get(ab, 0) >= 1:
                k = min(d[a], d[ab])
                d[a] -= k
                d[ab] -= k
                f = KEY2RF[a[2]].powi(k)
                extra = f if extra is None else extra * f
    # X * NZ -> X  (stored-entry mask)
    for a in list(d):
        if a[0] == "el" and a[1] == "NZ" and d.get(a, 0) >= 1:
            if d.get(("el", "X", a[2]), 0) >= 1:
                d[a] = 0
            elif d[a] > 1:
                d[a] = 1
    return d, extra


def m_mul(m1, m2):
    d = dict(m1)
    for a, e in m2:
        d[a] = d.get(a, 0) + e
    return d


def p_mul_raw(a, b):
    """polynomial product; returns (poly, list of (mono-dict-with-extra)) - extras handled
    by RF layer"""
    r = {}
    extras = []
    for m1, c1 in a.items():
        for m2, c2 in b.items():
            d = m_mul(m1, m2)
            d, extra = _atom_pow_rules(d)
            m = mono_sorted(d)
            if extra is not None:
                extras.append((m, c1 * c2, extra))
                continue
            v = r.get(m, 0) + c1 * c2
            if v:
                r[m] = v
            else:
                r.pop(m, None)
    return r, extras


class RF:
    __slots__ = ("num", "den", "_key")

    def __init__(self, num, den=None, normalise=True):
        self.num = num
        self.den = den if den is not None else {ONE: Fraction(1)}
        self._key = None
        if normalise:
            self._norm()

    # ---------------------------------------------------------- normal form
    def _norm(self):
        if not self.num:
            self.den = {ONE: Fraction(1)}
            return
        if not self.den:
            raise Unsupported("division by the zero term")

        def minexp(p):
            mins = {}
            atoms = set(a for m in p for a, _ in m)
            for a in atoms:
                mins[a] = min(dict(m).get(a, 0) for m in p)
            return mins
        for side in ("num", "den"):
            p = getattr(self, side)
            mins = minexp(p)
            shift = {a: -e for a, e in mins.items() if e < 0}
            if shift:
                sm = {mono_sorted(shift): Fraction(1)}
                self.num = _pm(self.num, sm)
                self.den = _pm(self.den, sm)
        mn, md = minexp(self.num), minexp(self.den)
        common = {a: -min(mn.get(a, 0), md.get(a, 0)) for a in set(mn) & set(md)
                  if min(mn.get(a, 0), md.get(a, 0)) > 0}
        if common:
            cm = {mono_sorted(common): Fraction(1)}
            self.num = _pm(self.num, cm)
            self.den = _pm(self.den, cm)
        lead = self.den[min(self.den, key=lambda m: tuple(akey(a) + str(e) for a, e in m))]
        if lead != 1:
            self.num = {m: c / lead for m, c in self.num.items()}
            self.den = {m: c / lead for m, c in self.den.items()}
        # single-term denominator equal to 1?  den == num  -> 1
        if self.num == self.den:
            self.num = {ONE: Fraction(1)}
            self.den = {ONE: Fraction(1)}

    # ------------------------------------------------------------ arithmetic
    def __add__(s, o):
        o = lift(o)
        if s.den == o.den:
            return RF(p_add(s.num, o.num), dict(s.den))
        return RF(p_add(_pm(s.num, o.den), _pm(o.num, s.den)), _pm(s.den, o.den))

    __radd__ = __add__

    def __neg__(s):
        return RF(p_neg(s.num), dict(s.den), normalise=False)

    def __sub__(s, o):
        return s + (-lift(o))

    def __rsub__(s, o):
        return lift(o) + (-s)

    def __mul__(s, o):
        o = lift(o)
        n, en = p_mul_raw(s.num, o.num)
        d, ed = p_mul_raw(s.den, o.den)
        out = RF(n, d) if not ed else None
        if ed:
            # extras in the denominator: rebuild as explicit quotient
            dd = RF(d)
            for m, c, x in ed:
                dd = dd + RF({m: c}) * x
            out = RF(n) * dd.inv() if n else RF({})
            if not n and not en:
                return RF({})
            if not n:
                out = RF({})
        for m, c, x in en:
            term = RF({m: c}) * x
            if ed:
                term = term * dd.inv()
            else:
                term = RF(term.num, _pm(term.den, d)) if term.den == {ONE: Fraction(1)} and False else term * RF({ONE: Fraction(1)}, d)
            out = out + term
        return out

    __rmul__ = __mul__

    def inv(s):
        if not s.num:
            raise Unsupported("division by the zero term")
        return RF(dict(s.den), dict(s.num))

    def __truediv__(s, o):
        return s * lift(o).inv()

    def __rtruediv__(s, o):
        return lift(o) * s.inv()

    def powi(s, n):
        n = int(n)
        if n < 0:
            return s.inv().powi(-n)
        r = const(1)
        b = s
        while n:
            if n & 1:
                r = r * b
            n >>= 1
            if n:
                b = b * b
        return r

    # -------------------------------------------------------------- queries
    def equals(s, o):
        o = lift(o)
        if s.num == o.num and s.den == o.den:
            return True                   # identical normal forms: no cross-multiplication
        a, ea = p_mul_raw(s.num, o.den)
        b, eb = p_mul_raw(o.num, s.den)
        if ea or eb:
            return (s - o).is_zero()
        return a == b

    def is_zero(s):
        return not s.num

    def key(s):
        if s._key is None:
            s._key = ("rf",
                      tuple(sorted(((m, str(c)) for m, c in s.num.items()), key=repr)),
                      tuple(sorted(((m, str(c)) for m, c in s.den.items()), key=repr)))
            KEY2RF.setdefault(s._key, s)
        return s._key

    def atoms(s):
        return set(a for p in (s.num, s.den) for m in p for a, _ in m)

    def all_atoms(s, _seen=None):
        """atoms including those nested inside fn/sum/ind arguments"""
        out = set()
        stack = list(s.atoms())
        while stack:
            a = stack.pop()
            if a in out:
                continue
            out.add(a)
            for k in _nested_keys(a):
                stack.extend(KEY2RF[k].atoms())
        return out

    def is_const(s):
        return set(s.num) <= {ONE} and set(s.den) <= {ONE}

    def const_value(s):
        if not s.is_const():
            return None
        return s.num.get(ONE, Fraction(0)) / s.den.get(ONE, Fraction(1))

    def free_indices(s):
        out = set()
        for a in s.atoms():
            out |= atom_indices(a)
        return out

    def __repr__(s):
        return show_rf(s)


def _pm(a, b):
    r, ex = p_mul_raw(a, b)
    if ex:
        # fold extras (rare on this path): expand through RF arithmetic
        acc = RF(r)
        for m, c, x in ex:
            acc = acc + RF({m: c}) * x
        if acc.den != {ONE: Fraction(1)}:
            raise Unsupported("non-polynomial product in normalisation")
        return acc.num
    return r


def lift(x):
    if isinstance(x, RF):
        return x
    if isinstance(x, (int, Fraction)):
        return const(x)
    if isinstance(x, float):
        return const(Fraction(str(x)))
    raise Unsupported(f"cannot lift {type(x).__name__} to a term")


def const(c):
    return RF(p_const(c), normalise=False)


def sym(n):
    return RF({((("sym", n), 1),): Fraction(1)}, normalise=False)


def el(name, *ix):
    return RF({((("el", name, tuple(ix)), 1),): Fraction(1)}, normalise=False)


def atom_rf(a):
    return RF({((a, 1),): Fraction(1)}, normalise=False)


# ------------------------------------------------------------------ indices
def _nested_keys(a):
    if a[0] in ("fn",):
        return [a[2]]
    if a[0] == "sum":
        return [a[2]]
    if a[0] == "ind":
        return [a[1][1]]
    return []


def atom_indices(a):
    """free symbolic indices of an atom (bound placeholders excluded)"""
    if a[0] == "el":
        out = set()
        for i in a[2]:
            out |= index_names(i)
        return out
    if a[0] == "sym":
        return set()
    out = set()
    for k in _nested_keys(a):
        out |= KEY2RF[k].free_indices()
    if a[0] == "sum":
        out = {i for i in out if not (isinstance(i, tuple) and i[0] == "$" and i[1] == a[3])}
    return out


def index_names(i):
    """an index is a name (str / ('$', depth)) or a structured tuple like ('gi', g, k)"""
    if isinstance(i, tuple) and i and i[0] == "$":
        return {i}
    if isinstance(i, tuple):
        out = set()
        for x in i[1:]:
            out |= index_names(x)
        return out
    if isinstance(i, str):
        return {i}
    return set()


def subst_index_in(i, old, new):
    if i == old:
        return new
    if isinstance(i, tuple) and i and i[0] != "$":
        return (i[0],) + tuple(subst_index_in(x, old, new) for x in i[1:])
    return i


def subst_index(rf, old, new):
    """replace symbolic index `old` by `new` everywhere (capture-free: bound
    placeholders are ('$', depth) and never equal to user indices)"""
    cache = {}

    def sa(a):
        if a in cache:
            return cache[a]
        if a[0] == "el":
            r = atom_rf(("el", a[1], tuple(subst_index_in(i, old, new) for i in a[2])))
        elif a[0] == "sym":
            r = atom_rf(a)
        elif a[0] == "fn":
            r = fn(a[1], sub(KEY2RF[a[2]])) if not a[1].startswith("pow") else _pow_atom(a[1], sub(KEY2RF[a[2]]))
        elif a[0] == "sum":
            r = resum(a[1], sub(KEY2RF[a[2]]), a[3])
        elif a[0] == "ind":
            r = ind_of(sub(KEY2RF[a[1][1]]), a[1][0], 0)
        else:
            raise Unsupported(f"atom {a[0]}")
        cache[a] = r
        return r

    def sp(p):
        acc = const(0)
        for m, c in p.items():
            t = const(c)
            for a, e in m:
                t = t * sa(a).powi(e)
            acc = acc + t
        return acc

    def sub(x):
        if old not in x.free_indices() and not _mentions(x, old):
            return x
        return sp(x.num) / sp(x.den)
    return sub(rf)


def _mentions(rf, idx):
    return idx in rf.free_indices()


# ------------------------------------------------------- special functions
def fn(name, arg):
    arg = lift(arg)
    if name == "exp":
        return _exp(arg)
    if name == "sigmoid":
        return (const(1) + _exp(-arg)).inv()
    if name == "sqrt":
        c = arg.const_value()
        if c is not None:
            r = _rational_sqrt(c)
            if r is not None:
                return const(r)
        # rational content out of the radicand: sqrt(c * P) = sqrt(c) * sqrt(P), so that
        # proportional radicands share one atom
        cont = _content(arg.num)
        if cont is not None and cont != 1:
            inner = arg / const(cont)
            r = _rational_sqrt(cont)
            if r is not None:
                return const(r) * _fn_atom("sqrt", inner)
            return _fn_atom("sqrt", const(cont)) * _fn_atom("sqrt", inner)
        return _fn_atom("sqrt", arg)
    if name == "abs":
        c = arg.const_value()
        if c is not None:
            return const(abs(c))
        # abs(-x) = abs(x): canonical sign
        arg2, flipped = _canon_sign(arg)
        # abs(c * x) = |c| abs(x) for a single monomial numerator and constant denominator
        return _fn_atom("abs", arg2)
    if name == "sign":
        c = arg.const_value()
        if c is not None:
            return const(0 if c == 0 else (1 if c > 0 else -1))
        arg2, flipped = _canon_sign(arg)
        r = _fn_atom("sign", arg2)
        return -r if flipped else r
    if name == "log":
        c = arg.const_value()
        if c == 1:
            return const(0)
        return _fn_atom("log", arg)
    if name in ("pos",):      # max(0, x)
        c = arg.const_value()
        if c is not None:
            return const(max(c, 0))
        if _obviously_nonneg(arg):
            return arg
        return _fn_atom("pos", arg)
    return _fn_atom(name, arg)


def _content(poly):
    """positive rational content of a polynomial with several terms (None for constants
    and single monomials, which are handled by their own rules)"""
    from math import gcd
    if len(poly) < 2:
        return None
    num, den = 0, 1
    for c in poly.values():
        num = gcd(num, abs(c.numerator))
        den = den * c.denominator // gcd(den, c.denominator)
    if num == 0:
        return None
    return Fraction(num, den)


def _obviously_nonneg(arg):
    """sum of monomials with positive coefficients made of abs / sqrt / pos atoms and
    even powers, over a denominator of the same kind"""
    def poly_ok(p):
        for m, c in p.items():
            if c < 0:
                return False
            for a, e in m:
                if a[0] == "fn" and a[1] in ("abs", "sqrt", "pos", "exp", "specnorm"):
                    continue
                if a[0] == "ind":
                    continue
                if e % 2 == 0:
                    continue
                return False
        return True
    return poly_ok(arg.num) and poly_ok(arg.den)


def _rational_sqrt(c):
    from math import isqrt
    if c < 0:
        return None
    n, d = c.numerator, c.denominator
    rn, rd = isqrt(n), isqrt(d)
    if rn * rn == n and rd * rd == d:
        return Fraction(rn, rd)
    return None


def _canon_sign(arg):
    """make the leading numerator coefficient positive; returns (arg', flipped)"""
    if not arg.num:
        return arg, False
    lead_m = min(arg.num, key=lambda m: tuple(akey(a) + str(e) for a, e in m))
    if arg.num[lead_m] < 0:
        return -arg, True
    return arg, False


_ARG_REG = {}


def canon_key(kind, arg):
    """key of a term equal (as a rational function) to `arg`, shared by every equal
    argument seen so far for this kind of atom - so that f((a^2-b^2)/(a-b)) and f(a+b)
    are the same atom although no GCD is computed"""
    k = arg.key()
    reg = _ARG_REG.setdefault(kind, {})
    if k in reg:
        return reg[k]
    for k2, rf2 in list(reg.items()):
        if k2 != reg[k2]:
            continue            # alias entry
        try:
            if KEY2RF[k2].equals(arg):
                reg[k] = k2
                return k2
        except Unsupported:
            pass
    reg[k] = k
    return k


def _fn_atom(name, arg):
    return atom_rf(("fn", name, canon_key(name, arg)))


def _exp(arg):
    if arg.den != {ONE: Fraction(1)}:
        dc = None
        if set(arg.den) <= {ONE}:
            dc = arg.den[ONE]
        if dc is None:
            return _fn_atom("exp", arg)
    else:
        dc = Fraction(1)
    out = const(1)
    for m, c in arg.num.items():
        c = c / dc
        if m == ONE:
            out = out * _fn_atom("exp", const(c))
            continue
        mono = RF({m: Fraction(1)})
        if c.denominator == 1:
            out = out * _fn_atom("exp", mono).powi(int(c))
        else:
            sgn = 1 if c > 0 else -1
            out = out * _fn_atom("exp", RF({m: abs(c)})).powi(sgn)
    return out


def power(base, expo):
    """base ** expo for a constant rational exponent"""
    base = lift(base)
    e = lift(expo).const_value()
    if e is None:
        raise Unsupported("symbolic exponent")
    if e.denominator == 1:
        return base.powi(int(e))
    if e.denominator == 2:
        return fn("sqrt", base).powi(int(e.numerator))
    # canonical root atom pow1/q ; x^(p/q) = (x^(1/q))^p (p may be negative)
    c = base.const_value()
    if c is not None and c in (0, 1):
        if c == 0 and e < 0:
            raise Unsupported("division by the zero term")
        return const(c)
    root = atom_rf(("fn", f"pow1/{e.denominator}", base.key()))
    return root.powi(int(e.numerator))


# ------------------------------------------------------------- conditions
def condition(lhs, op, rhs):
    """canonical condition (op, key) with op in {'<','=='}; returns (cond, negated)"""
    d = lift(lhs) - lift(rhs)
    # clear a positive constant denominator / leading coefficient normalisation
    flipped = False
    d = RF(d.num)  if (set(d.den) <= {ONE} and d.den.get(ONE, 1) > 0) else d
    d2, fl = _canon_sign(d)
    # scale so that the leading coefficient is 1 (positive scaling keeps the relation)
    if d2.num:
        lead_m = min(d2.num, key=lambda m: tuple(akey(a) + str(e) for a, e in m))
        lc = d2.num[lead_m]
        if lc != 1 and set(d2.den) <= {ONE}:
            d2 = RF({m: c / lc for m, c in d2.num.items()})
    if fl:
        op = {"<": ">", "<=": ">=", ">": "<", ">=": "<=", "==": "==", "!=": "!="}[op]
    neg = False
    if op in ("<", "<="):
        cop = "<"
    elif op in (">", ">="):
        cop, neg = "<", True      # x > 0  ==  not (x <= 0)  ~  not (x < 0) a.e.
    elif op == "==":
        cop = "=="
    elif op == "!=":
        cop, neg = "==", True
    else:
        raise Unsupported(f"comparison {op}")
    cv = d2.const_value()
    if cv is not None:
        val = (cv < 0) if cop == "<" else (cv == 0)
        return ("const", val != neg), False
    return (cop, d2.key()), neg


def indicator(cond):
    if cond[0] == "const":
        return const(1 if cond[1] else 0)
    return atom_rf(("ind", cond))


def ind_of(lhs, op, rhs):
    c, neg = condition(lhs, op, rhs)
    i = indicator(c)
    return const(1) - i if neg else i


# ------------------------------------------------------------------- sums
def size_of(extent):
    return sym("#" + str(extent))


def make_sum_raw(extent, body, depth):
    k = body.key()
    return atom_rf(("sum", extent, k, depth))


def resum(extent, body, depth):
    """rebuild a sum after its body was rewritten (linearity, constant bodies)"""
    return summation(extent, ("$", depth), body)


def _depth(rf):
    d = 0
    for a in rf.all_atoms():
        if a[0] == "sum":
            d = max(d, a[3] + 1)
    return d


def summation(extent, index, body):
    """Sum_{index in extent} body  (linear; index-free factors pulled out)."""
    body = lift(body)
    total = const(0)
    den_dep = index in RF(dict(body.den)).free_indices()
    if den_dep:
        free_fac, dep_den = _split_den(body.den, index)
    for m, c in body.num.items():
        dep = tuple((a, e) for a, e in m if index in atom_indices(a))
        ind = tuple((a, e) for a, e in m if index not in atom_indices(a))
        if den_dep:
            inner = RF({dep: Fraction(1)}, dict(dep_den))
            outer = RF({ind: c}, dict(free_fac))
        else:
            inner = RF({dep: Fraction(1)})
            outer = RF({ind: c}, dict(body.den))
        if not dep and not den_dep:
            term = outer * size_of(extent)
        else:
            depth = _depth(inner)
            canon = subst_index(inner, index, ("$", depth))
            term = outer * make_sum_raw(extent, canon, depth)
        total = total + term
    return total


def _split_den(den, index):
    monos = list(den)
    atoms = set(a for m in monos for a, _ in m if index not in atom_indices(a))
    common = {}
    for a in atoms:
        e = min(dict(m).get(a, 0) for m in monos)
        if e > 0:
            common[a] = e
    # constant content
    fac = mono_sorted(common)
    inv = mono_sorted({a: -e for a, e in common.items()})
    return {fac: Fraction(1)}, _pm(den, {inv: Fraction(1)}) if common else dict(den)


# ------------------------------------------------------------ derivatives
def derivative(rf, wrt):
    """d rf / d atom `wrt` (an 'el' or 'sym' atom).  Sums over an index whose body
    depends on wrt's array at the bound index collapse (Kronecker delta)."""
    rf = lift(rf)
    dn = _dpoly(rf.num, wrt)
    dd = _dpoly(rf.den, wrt)
    if dd.is_zero():
        return dn / RF(dict(rf.den))
    num = dn * RF(dict(rf.den)) - RF(dict(rf.num)) * dd
    return num / (RF(dict(rf.den)) * RF(dict(rf.den)))


def _dpoly(p, wrt):
    acc = const(0)
    for m, c in p.items():
        for k, (a, e) in enumerate(m):
            da = _datom(a, wrt)
            if da.is_zero():
                continue
            rest = {x: y for x, y in m}
            rest[a] = e - 1
            t = RF({mono_sorted(rest): c * e}) * da
            acc = acc + t
    return acc


def _datom(a, wrt):
    if a == wrt:
        return const(1)
    if a[0] == "el" and str(a[1]).startswith("OP:"):
        raise Unsupported("derivative through an opaque helper")
    if a[0] in ("sym", "el", "ind"):
        return const(0)
    if a[0] == "fn":
        arg = KEY2RF[a[2]]
        darg = derivative(arg, wrt)
        if darg.is_zero():
            return const(0)
        f = a[1]
        if f == "exp":
            return atom_rf(a) * darg
        if f == "log":
            return darg / arg
        if f == "sqrt":
            return darg / (const(2) * atom_rf(a))
        if f == "abs":
            return fn("sign", arg) * darg
        if f == "sign":
            return const(0)
        if f == "pos":
            return (const(1) - ind_of(arg, "<", 0)) * darg
        if f.startswith("pow"):
            num, den = f[3:].split("/")
            e = Fraction(int(num), int(den))
            # d x^e = e * x^e / x
            return const(e) * atom_rf(a) / arg * darg
        raise Unsupported(f"derivative of {f}")
    if a[0] == "sum":
        body = KEY2RF[a[2]]
        ph = ("$", a[3])
        if wrt[0] == "el":
            # which index positions of wrt's array are the bound placeholder in body?
            hits = [x for x in body.all_atoms() if x[0] == "el" and x[1] == wrt[1] and ph in
                    set().union(*[index_names(i) for i in x[2]])]
            if not hits:
                d = derivative(body, wrt)
                if d.is_zero():
                    return const(0)
                return summation(a[1], "__d", subst_index(d, ph, "__d"))
            # collapse: d/d A[i0] Sum_b F(A[b]) = F'(A[i0]); bound index position -> wrt index
            pos = [k for k, i in enumerate(hits[0][2]) if i == ph]
            if len(pos) != 1 or any(x[2] != hits[0][2] for x in hits) \
                    or len(hits[0][2]) != len(wrt[2]):
                raise Unsupported("derivative of a sum with mixed index patterns")
            target = wrt[2][pos[0]]
            gidx = tuple(ph if k == pos[0] else i for k, i in enumerate(wrt[2]))
            # positions other than the bound one must be the requested index or a
            # placeholder bound by a nested sum (collapsed recursively)
            for k, (hi, wi) in enumerate(zip(hits[0][2], wrt[2])):
                if k != pos[0] and hi != wi and not (isinstance(hi, tuple) and hi and hi[0] == "$"):
                    return const(0) if True else None
            generic = ("el", wrt[1], gidx)
            d = derivative(body, generic)
            res = subst_index(d, ph, target)
            return res
        d = derivative(body, wrt)
        if d.is_zero():
            return const(0)
        return summation(a[1], "__d", subst_index(d, ph, "__d"))
    raise Unsupported(f"derivative of atom {a[0]}")


# --------------------------------------------------------- specialisation
def specialise(rf, ind_values=None, signs=None):
    """Substitute indicator atoms by 0/1 (ind_values: {cond: bool}) and rewrite
    abs/sign of arguments with a known sign (signs: {argkey: +1|-1|0})."""
    ind_values = ind_values or {}
    signs = signs or {}
    cache = {}

    def sa(a):
        if a in cache:
            return cache[a]
        if a[0] == "ind":
            if a[1] in ind_values:
                r = const(1 if ind_values[a[1]] else 0)
            else:
                inner = sub(KEY2RF[a[1][1]])
                c = inner.const_value()
                if c is not None:
                    r = const(1 if ((c < 0) if a[1][0] == "<" else (c == 0)) else 0)
                else:
                    # re-canonicalise (sign flips may occur after substitution)
                    r = ind_of(inner, a[1][0], 0)
        elif a[0] == "fn":
            try:
                arg = sub(KEY2RF[a[2]])
            except Unsupported:
                # singular on this region (e.g. 1/sqrt(|w|) at w = 0): a placeholder that
                # must cancel against the indicator-weighted copy of the same atom
                r = sym("SING:" + str(abs(hash(a)) % 10**9))
                cache[a] = r
                return r
            s = signs.get(KEY2RF[a[2]].key())
            if a[1] == "abs" and s is not None:
                r = arg * s if s else const(0)
            elif a[1] == "sign" and s is not None:
                r = const(s)
            elif a[1] == "pos" and s is not None:
                r = arg if s > 0 else const(0)
            else:
                r = fn(a[1], arg) if not a[1].startswith("pow") else _pow_atom(a[1], arg)
        elif a[0] == "sum":
            r = resum(a[1], sub(KEY2RF[a[2]]), a[3])
        else:
            r = atom_rf(a)
        cache[a] = r
        return r

    def sp(p):
        acc = const(0)
        for m, c in p.items():
            t = const(c)
            # indicators first: a vanishing indicator kills the monomial before the other
            # factors (possibly singular on that region) are touched
            dead = False
            for a, e in m:
                if a[0] == "ind":
                    v = sa(a)
                    if v.is_zero():
                        dead = True
                        break
            if dead:
                continue
            for a, e in m:
                t = t * sa(a).powi(e)
            acc = acc + t
        return acc

    def sub(x):
        return sp(x.num) / sp(x.den)
    out = sub(lift(rf))
    if any(a[0] == "sym" and a[1].startswith("SING:") for a in out.atoms()):
        raise Unsupported("term is singular on this region")
    return out


def substitute(rf, mapping):
    """replace atoms by terms: {atom: RF}"""
    cache = {}

    def sa(a):
        if a in mapping:
            return mapping[a]
        if a in cache:
            return cache[a]
        if a[0] == "fn":
            arg = sub(KEY2RF[a[2]])
            r = fn(a[1], arg) if not a[1].startswith("pow") else _pow_atom(a[1], arg)
        elif a[0] == "sum":
            r = resum(a[1], sub(KEY2RF[a[2]]), a[3])
        elif a[0] == "ind":
            r = ind_of(sub(KEY2RF[a[1][1]]), a[1][0], 0)
        else:
            r = atom_rf(a)
        cache[a] = r
        return r

    def sp(p):
        acc = const(0)
        for m, c in p.items():
            t = const(c)
            for a, e in m:
                t = t * sa(a).powi(e)
            acc = acc + t
        return acc

    def sub(x):
        return sp(x.num) / sp(x.den)
    return sub(lift(rf))


def _pow_atom(name, arg):
    n, d = name[3:].split("/")
    return power(arg, Fraction(int(n), int(d)))


def substitute_arrays(rf, arrmap):
    """replace every element atom of array `name` by arrmap[name](*indices)"""
    atoms = {a for a in lift(rf).all_atoms() if a[0] == "el" and a[1] in arrmap}
    return substitute(rf, {a: arrmap[a[1]](*a[2]) for a in atoms})


# ------------------------------------------------------------------ display
def show_atom(a):
    k = a[0]
    if k == "sym":
        return a[1]
    if k == "el":
        return f"{a[1]}[{','.join(show_index(i) for i in a[2])}]"
    if k == "fn":
        return f"{a[1]}({show_rf(KEY2RF[a[2]])})"
    if k == "sum":
        return f"Σ_{{${a[3]}∈{a[1]}}}({show_rf(KEY2RF[a[2]])})"
    if k == "ind":
        return f"[{show_rf(KEY2RF[a[1][1]])} {a[1][0]} 0]"
    return repr(a)


def show_index(i):
    if isinstance(i, tuple) and i and i[0] == "$":
        return f"${i[1]}"
    if isinstance(i, tuple):
        return f"{i[0]}({','.join(show_index(x) for x in i[1:])})"
    return str(i)


def show_poly(p):
    if not p:
        return "0"
    out = []
    for m, c in sorted(p.items(), key=lambda t: repr(t[0])):
        fac = "*".join(show_atom(a) + (f"^{e}" if e != 1 else "") for a, e in m)
        cs = str(c)
        if fac and c == 1:
            out.append(fac)
        elif fac and c == -1:
            out.append("-" + fac)
        elif fac:
            out.append(cs + "*" + fac)
        else:
            out.append(cs)
    return " + ".join(out)


def show_rf(rf):
    d = show_poly(rf.den)
    n = show_poly(rf.num)
    return n if d == "1" else f"({n}) / ({d})"


def reduce_pm1(rf, arrname):
    """domain assumption: every element of array `arrname` is +1 or -1  (a^2 = 1)"""
    def rp(p):
        out = {}
        for m, c in p.items():
            d = {}
            for a, e in m:
                if a[0] == "el" and a[1] == arrname:
                    e = e % 2
                if e:
                    d[a] = e
            mm = mono_sorted(d)
            v = out.get(mm, 0) + c
            if v:
                out[mm] = v
            else:
                out.pop(mm, None)
        return out
    return RF(rp(rf.num), rp(rf.den))
