"""Knob-domain propagation: what a callee may assume about a parameter because every
call site passes a stable expression whose value set was narrowed by the caller's
validation (e.g. `ws_strategy` in {'subdiff','fixpoint'} after the ValueError guard)."""
import ast

from .cfg import cfg_of


def _stmt_node_containing(cfg, target):
    for nd in cfg.stmts():
        root = nd.ast.iter if nd.kind == "for" else nd.ast
        for n in ast.walk(root):
            if n is target:
                return nd.id
    return None


def state_at(cfg, nid):
    se = cfg.stable_edges()
    st = {}
    for i in sorted(cfg.dominators().get(nid, ())):
        if i in se:
            nxt = cfg._apply(st, se[i])
            if nxt is not None:
                st = nxt
    # facts implied by early exits: a `raise`/`return` under a stable test that does
    # not dominate nid but whose opposite branch does is covered by dominators already
    return st


def param_constraints(A, f, _depth=0):
    """[constraint] usable as `init=` of CFG.consistent_path for function f."""
    flow = A.flow
    callers = [(c, call, k) for c, call, k in flow.callers.get(f, ()) if k in ("direct", "self")]
    if not callers or _depth > 3:
        return []
    per_param = {}
    for caller, call, kind in callers:
        ccfg = cfg_of(caller)
        nid = _stmt_node_containing(ccfg, call)
        if nid is None:
            return []
        st = state_at(ccfg, nid)
        # add the caller's own inherited constraints
        for c in param_constraints(A, caller, _depth + 1):
            nxt = ccfg._apply(st, c)
            if nxt is not None:
                st = nxt
        bnd, _ = flow.bind(caller, call, f)
        seen = set()
        for p, e in bnd.items():
            seen.add(p)
            dom = st.get(ast.dump(e))
            if isinstance(dom, tuple) and dom[0] == "in":
                per_param.setdefault(p, []).append(dom[1])
            else:
                per_param.setdefault(p, []).append(None)
        for p in f.call_params():
            if p not in seen:
                per_param.setdefault(p, []).append(None)
    out = []
    for p, doms in per_param.items():
        if doms and all(d is not None for d in doms):
            vals = frozenset().union(*doms)
            key = ast.dump(ast.Name(id=p, ctx=ast.Load()))
            out.append(("set", key, True, vals))
    return out


def module_int_consts(f):
    out = {}
    for k, v in f.module.consts.items():
        if isinstance(v, ast.Constant) and isinstance(v.value, int):
            out[k] = v.value
    return out
