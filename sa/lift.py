"""L5 - lifting of a restricted Python/NumPy subset (the idioms this repository uses in
datafits, penalties and prox helpers) to algebraic terms (sa.algebra.RF).

It is a *symbolic* evaluator over the syntax tree: inputs are symbolic arrays, loop
indices are symbolic, `if` on data-dependent conditions splits into indicator-weighted
cases.  Nothing of skglm is imported or executed.  Any construct outside the fragment
raises Unsupported, which callers report as UNDECIDED (never as equal/different).
"""
import ast
from fractions import Fraction
from itertools import count

from .algebra import (RF, Unsupported, const, sym, el, fn, power, summation, size_of,
                      ind_of, indicator, condition, lift as tolift, subst_index, atom_rf)

_fresh = count()


def fresh(prefix):
    return f"{prefix}~{next(_fresh)}"


# ------------------------------------------------------------------ values
class Arr:
    """lazily indexed symbolic array"""

    def __init__(self, dims, elem, mask=None):
        self.dims, self.elem = tuple(dims), elem
        self.mask = mask      # boolean Arr this array was selected with (a[mask]), if any

    def at(self, *ix):
        return self.elem(*ix)

    @property
    def ndim(self):
        return len(self.dims)


class IdxV:
    """symbolic integer index ranging over an extent (or a derived index)"""

    def __init__(self, index, off=0, extent=None):
        self.index, self.off, self.extent = index, off, extent


class BoolV:
    """0/1-valued term"""

    def __init__(self, rf):
        self.rf = rf


class PyConst:
    def __init__(self, v):
        self.v = v


class Csc:
    """one part of the CSC triple of a matrix M (elem(i, j) -> RF)"""

    def __init__(self, part, mat, ncols="P", nrows="N", colmap=None):
        self.part, self.mat, self.ncols, self.nrows = part, mat, ncols, nrows


class CscPos:
    def __init__(self, row, col):
        self.row, self.col = row, col


class RowGather:
    """v[X_indices]: vector gathered at the row index of each stored entry"""

    def __init__(self, vec):
        self.vec = vec


class Ptr:
    def __init__(self, kind, idx):
        self.kind, self.idx = kind, idx      # kind: 'csc' / 'grp' ; idx: IdxV


class RangeV:
    def __init__(self, kind, **kw):
        self.kind = kind
        self.__dict__.update(kw)


class Fill:
    """array under construction (np.zeros / np.zeros_like / np.full_like ...)"""

    def __init__(self, dims, default):
        self.dims = tuple(dims)
        self.default = default
        self.stores = []     # (index tuple of symbolic indices, value, cond RF or None)
        self.arr = None      # finalised Arr

    def copy(self):
        f = Fill(self.dims, self.default)
        f.stores = list(self.stores)
        f.arr = self.arr
        return f


class SliceV:
    def __init__(self, lo, hi):
        self.lo, self.hi = lo, hi


class TupleV(tuple):
    pass


class NoneV:
    pass


NONE = NoneV()


class SelfObj:
    def __init__(self, cls, attrs, lifter):
        self.cls, self.attrs, self.lifter = cls, attrs, lifter


class Ret(Exception):
    def __init__(self, value):
        self.value = value


# ---------------------------------------------------------- value helpers
def ew(f, *vals):
    """elementwise combination with trailing-dimension broadcasting"""
    vals = [finalize(v) if isinstance(v, Fill) else v for v in vals]
    arrs = [v for v in vals if isinstance(v, Arr)]
    if not arrs:
        return f(*[as_rf(v) for v in vals])
    dims = max((a.dims for a in arrs), key=len)
    for a in arrs:
        if not (a.dims == dims or a.dims == dims[len(dims) - len(a.dims):]
                or _compatible(a.dims, dims)):
            raise Unsupported(f"extent mismatch {a.dims} vs {dims}")

    def elem(*ix):
        args = []
        for v in vals:
            if isinstance(v, Arr):
                args.append(as_rf(v.at(*ix[len(dims) - len(v.dims):])))
            else:
                args.append(as_rf(v))
        return f(*args)
    masks = [a.mask for a in arrs if a.mask is not None]
    if len({id(m) for m in masks}) > 1:
        raise Unsupported("arrays selected with different boolean masks are combined")
    return Arr(dims, elem, masks[0] if masks else None)


def _compatible(d1, d2):
    return len(d1) <= len(d2) and all(a == b or a is None or b is None
                                      for a, b in zip(d1, d2[len(d2) - len(d1):]))


def as_rf(v):
    if isinstance(v, RF):
        return v
    if isinstance(v, BoolV):
        return v.rf
    if isinstance(v, (int, float, Fraction)):
        return tolift(v)
    if isinstance(v, PyConst) and isinstance(v.v, (int, float, bool)):
        return tolift(int(v.v) if isinstance(v.v, bool) else v.v)
    if isinstance(v, IdxV):
        raise Unsupported("index used as a number")
    raise Unsupported(f"not a scalar term: {type(v).__name__}")


def total(v, axis=None):
    v = finalize(v) if isinstance(v, Fill) else v
    if isinstance(v, Arr) and v.mask is not None:
        # a[mask] reduced: the mask weights the summand
        m = v.mask
        v = Arr(v.dims, lambda *ix, v=v, m=m: as_rf(m.at(*ix)) * as_rf(v.at(*ix)))
    if isinstance(v, Arr):
        if v.ndim == 1:
            i = fresh("s")
            return summation(v.dims[0], i, as_rf(v.at(i)))
        if v.ndim == 2 and axis is None:
            i, j = fresh("s"), fresh("s")
            return summation(v.dims[0], i, summation(v.dims[1], j, as_rf(v.at(i, j))))
        if v.ndim == 2 and axis == 0:
            return Arr((v.dims[1],), lambda j, v=v: summation(v.dims[0], (i := fresh("s")), as_rf(v.at(i, j))))
        if v.ndim == 2 and axis == 1:
            return Arr((v.dims[0],), lambda i, v=v: summation(v.dims[1], (j := fresh("s")), as_rf(v.at(i, j))))
    if isinstance(v, RF):
        return v
    raise Unsupported("sum of non-array")


def finalize(f):
    """Fill -> Arr using its recorded stores (generic-index stores only)"""
    if f.arr is not None and not f._dirty():
        return f.arr
    stores = list(f.stores)
    default = f.default
    dims = f.dims

    def elem(*ix):
        val = default.at(*ix) if isinstance(default, Arr) else default
        for pattern, value, kind in stores:
            # pattern: tuple of symbolic index names (generic loop indices)
            v = value
            ok = True
            free = []
            for p, actual in zip(pattern, ix):
                if isinstance(p, tuple) and p and p[0] == "__slice__":
                    free.append(actual)
                    continue
                v = _subst_value(v, p, actual)
            free.extend(ix[len(pattern):])
            if isinstance(v, Arr):
                v = v.at(*free[:v.ndim])
            if kind == "set":
                val = v
            else:
                val = ew(lambda a, b: a + b, val, v)
        return val
    arr = Arr(dims, elem)
    f.arr = arr
    f._n = len(f.stores)
    return arr


def _fill_dirty(self):
    return getattr(self, "_n", -1) != len(self.stores)


Fill._dirty = _fill_dirty


def _subst_value(v, old, new):
    if isinstance(v, RF):
        return subst_index(v, old, new) if old != new else v
    if isinstance(v, Arr):
        return Arr(v.dims, lambda *ix, v=v: _subst_value(v.at(*ix), old, new))
    return v


def merge_fill(c, a, b):
    """store-level merge of two versions of one array under construction"""
    k = 0
    while k < len(a.stores) and k < len(b.stores) and a.stores[k] is b.stores[k]:
        k += 1
    out = Fill(a.dims, a.default)
    out.stores = list(a.stores[:k])
    if a.default is not b.default:
        raise Unsupported("branches rebuilt the array")
    pats = []
    for st in a.stores[k:] + b.stores[k:]:
        if st[0] not in pats:
            pats.append(st[0])
    fa, fb = finalize(a), finalize(b)
    for p in pats:
        if any(isinstance(x, tuple) and x and x[0] == "__slice__" for x in p):
            raise Unsupported("slice store under a data-dependent condition")
        va, vb = fa.at(*p), fb.at(*p)
        out.stores.append((p, merge(c, va, vb), "set"))
    return out


def merge(c, a, b):
    """c*a + (1-c)*b for values of matching kinds (c: RF indicator)"""
    if a is b:
        return a
    if isinstance(a, Fill) and isinstance(b, Fill) and a.dims == b.dims:
        return merge_fill(c, a, b)
    if isinstance(a, Fill) or isinstance(b, Fill):
        fa = finalize(a) if isinstance(a, Fill) else a
        fb = finalize(b) if isinstance(b, Fill) else b
        return merge(c, fa, fb)
    if isinstance(a, (RF, BoolV, int, float, Fraction)) and isinstance(b, (RF, BoolV, int, float, Fraction)):
        return c * as_rf(a) + (const(1) - c) * as_rf(b)
    if isinstance(a, Arr) and isinstance(b, Arr):
        return ew(lambda x, y: c * x + (const(1) - c) * y, a, b)
    if isinstance(a, Arr) or isinstance(b, Arr):
        return ew(lambda x, y: c * x + (const(1) - c) * y, a, b)
    if isinstance(a, TupleV) and isinstance(b, TupleV) and len(a) == len(b):
        return TupleV(merge(c, x, y) for x, y in zip(a, b))
    if type(a) is type(b) and isinstance(a, (IdxV, NoneV, PyConst, Csc, SelfObj, SliceV)):
        return a
    raise Unsupported(f"cannot merge {type(a).__name__} / {type(b).__name__} under a "
                      "data-dependent condition")


# ------------------------------------------------------------------ lifter
class Lifter:
    def __init__(self, prog, module, depth_limit=6):
        self.prog = prog
        self.module = module
        self.depth = 0
        self.depth_limit = depth_limit

    # ---- function / method invocation
    def call_function(self, finfo, args, kwargs=None, self_obj=None):
        self.depth += 1
        if self.depth > self.depth_limit:
            self.depth -= 1
            raise Unsupported("inlining depth exceeded")
        try:
            node = finfo.node
            params = [a.arg for a in node.args.args]
            env = {}
            if self_obj is not None:
                env[params[0]] = self_obj
                params = params[1:]
            defaults = node.args.defaults
            dmap = {}
            for p, d in zip(params[len(params) - len(defaults):], defaults):
                dmap[p] = d
            for i, p in enumerate(params):
                if i < len(args):
                    env[p] = args[i]
                elif kwargs and p in kwargs:
                    env[p] = kwargs[p]
                elif p in dmap:
                    env[p] = self.ev(dmap[p], {}, finfo)
                else:
                    raise Unsupported(f"missing argument {p} of {finfo.name}")
            try:
                self.block(node.body, env, finfo)
            except Ret as r:
                return r.value
            return NONE
        finally:
            self.depth -= 1

    # ---- statements
    def block(self, stmts, env, F):
        for k, st in enumerate(stmts):
            if isinstance(st, ast.Expr) and isinstance(st.value, ast.Constant):
                continue
            if isinstance(st, ast.Pass):
                continue
            if isinstance(st, ast.Return):
                raise Ret(self.ev(st.value, env, F) if st.value is not None else NONE)
            if isinstance(st, ast.Raise):
                raise Ret(RaiseV())
            if isinstance(st, ast.If):
                c = self.ev(st.test, env, F)
                cv = _static_bool(c)
                rest = stmts[k + 1:]
                if cv is not None:
                    self.block((st.body if cv else st.orelse) + rest, env, F)
                    return
                crf = as_rf(c)
                # split: run both continuations, merge results / environments
                r1 = self._branch(st.body + rest, env, F)
                r2 = self._branch(st.orelse + rest, env, F)
                self._join(crf, r1, r2, env)
                return
            if isinstance(st, ast.Assign):
                v = self.ev(st.value, env, F)
                for t in st.targets:
                    self.assign(t, v, env, F)
                continue
            if isinstance(st, ast.AugAssign):
                self.augassign(st, env, F)
                continue
            if isinstance(st, ast.For):
                self.loop(st, env, F)
                continue
            if isinstance(st, ast.Expr):
                self.ev(st.value, env, F)
                continue
            raise Unsupported(f"statement {type(st).__name__}")

    def _branch(self, stmts, env, F):
        e2 = {k: (v.copy() if isinstance(v, Fill) else v) for k, v in env.items()}
        for k, v in e2.items():
            if isinstance(v, SelfObj):
                e2[k] = SelfObj(v.cls, dict(v.attrs), v.lifter)
        try:
            self.block(stmts, e2, F)
        except Ret as r:
            return ("ret", r.value, e2)
        return ("env", None, e2)

    def _join(self, c, r1, r2, env):
        k1, v1, e1 = r1
        k2, v2, e2 = r2
        if isinstance(v1, RaiseV) and k1 == "ret":
            # a raising branch contributes nothing: continue with the other one
            if k2 == "ret":
                raise Ret(v2)
            env.clear()
            env.update(e2)
            return
        if isinstance(v2, RaiseV) and k2 == "ret":
            if k1 == "ret":
                raise Ret(v1)
            env.clear()
            env.update(e1)
            return
        if k1 == "ret" and k2 == "ret":
            raise Ret(merge(c, v1, v2))
        if k1 != k2:
            raise Unsupported("one branch returns, the other falls through")
        for name in set(e1) | set(e2):
            if name in e1 and name in e2:
                a, b = e1[name], e2[name]
                if isinstance(a, SelfObj) and isinstance(b, SelfObj):
                    for an in set(a.attrs) | set(b.attrs):
                        if an in a.attrs and an in b.attrs:
                            a.attrs[an] = merge(c, a.attrs[an], b.attrs[an])
                    env[name] = a
                    continue
                env[name] = merge(c, a, b)
            # names defined in only one branch are dropped (possibly-unbound is C13's rule)

    def assign(self, t, v, env, F):
        if isinstance(t, ast.Name):
            env[t.id] = v
            return
        if isinstance(t, ast.Tuple):
            if isinstance(v, TupleV) and len(v) == len(t.elts):
                for tt, vv in zip(t.elts, v):
                    self.assign(tt, vv, env, F)
                return
            if isinstance(v, ShapeV) and len(t.elts) == len(v.dims):
                for tt, d in zip(t.elts, v.dims):
                    self.assign(tt, size_of(d), env, F)
                return
            raise Unsupported("tuple unpacking")
        if isinstance(t, ast.Attribute) and isinstance(t.value, ast.Name):
            obj = env.get(t.value.id)
            if isinstance(obj, SelfObj):
                obj.attrs[t.attr] = v
                return
        if isinstance(t, ast.Subscript):
            self.store(t, v, env, F, "set")
            return
        raise Unsupported(f"assignment target {ast.dump(t)[:40]}")

    def store(self, t, v, env, F, kind):
        base = self.ev(t.value, env, F)
        if not isinstance(base, Fill):
            raise Unsupported("store into a non-local array")
        sl = t.slice
        parts = sl.elts if isinstance(sl, ast.Tuple) else [sl]
        pattern = []
        for p in parts:
            if isinstance(p, ast.Slice) and p.lower is None and p.upper is None:
                pattern.append(("__slice__",))
                continue
            iv = self.ev(p, env, F)
            if isinstance(iv, Arr) and isinstance(iv.at("__probe"), BoolV):
                # boolean mask store: value[mask] = expr(w[mask])
                mask = iv
                vv = finalize(v) if isinstance(v, Fill) else v
                if isinstance(vv, Arr) and vv.mask is not None and vv.mask is not mask:
                    # same mask expression evaluated twice gives distinct objects: compare a probe
                    if as_rf(vv.mask.at("__m")).key() != as_rf(mask.at("__m")).key():
                        raise Unsupported("masked store of a value selected with another mask")
                old = finalize(base)

                def elem(*ix, mask=mask, vv=vv, old=old):
                    c = as_rf(mask.at(*ix))
                    newv = vv.at(*ix) if isinstance(vv, Arr) else as_rf(vv)
                    return c * as_rf(newv) + (const(1) - c) * as_rf(old.at(*ix))
                base.default = Arr(base.dims, elem)
                base.stores = []
                base.arr = None
                return
            if not isinstance(iv, IdxV):
                raise Unsupported("store index")
            if iv.off:
                raise Unsupported("store at an offset index")
            pattern.append(iv.index)
        if isinstance(v, Fill):
            v = finalize(v)
        base.stores.append((tuple(pattern), v, kind))

    def augassign(self, st, env, F):
        t = st.target
        v = self.ev(st.value, env, F)
        op = type(st.op)
        if isinstance(t, ast.Name):
            cur = env[t.id]
            if isinstance(cur, Fill):
                cur = finalize(cur)
            env[t.id] = self.binop(op, cur, v)
            return
        if isinstance(t, ast.Subscript):
            base = self.ev(t.value, env, F)
            if isinstance(base, Fill) and op in (ast.Add, ast.Sub):
                vv = v if op is ast.Add else ew(lambda a: -a, v)
                self.store(t, vv, env, F, "add")
                return
            raise Unsupported("augmented store")
        raise Unsupported("augmented target")

    # ---- loops
    def loop(self, st, env, F):
        it = self.ev(st.iter, env, F)
        aug = set()
        assigned = set()
        for n in ast.walk(ast.Module(body=st.body, type_ignores=[])):
            if isinstance(n, ast.AugAssign) and isinstance(n.target, ast.Name):
                aug.add(n.target.id)
            if isinstance(n, ast.Assign):
                for t in n.targets:
                    if isinstance(t, ast.Name):
                        assigned.add(t.id)
        carried = {k for k in aug if k in env and k not in assigned and
                   isinstance(env[k], (RF, int, float, Fraction, Arr))}
        if isinstance(it, RangeV) and it.kind == "csc":
            r = fresh("r")
            e2 = dict(env)
            self.assign(st.target, CscPos(r, it.col), e2, F)
            for k in carried:
                e2[k] = const(0) if not isinstance(env[k], Arr) else ZeroLike(env[k])
            before = {k: len(v.stores) for k, v in e2.items() if isinstance(v, Fill)}
            self.block(st.body, e2, F)
            nz = el("NZ", r, it.col.index)
            for k in carried:
                inc = e2[k]
                if isinstance(inc, Arr):
                    env[k] = ew(lambda a, b: a + summation(it.nrows, r, b * nz), env[k], inc)
                else:
                    env[k] = as_rf(env[k]) + summation(it.nrows, r, as_rf(inc) * nz)
            # element accumulations inside the CSC loop: out[j] += f(r)
            for k, v in e2.items():
                if isinstance(v, Fill) and k in before and len(v.stores) > before[k]:
                    new = v.stores[before[k]:]
                    del v.stores[before[k]:]
                    for pattern, value, kind in new:
                        if kind != "add":
                            raise Unsupported("plain store inside a CSC column loop")
                        val = ew(lambda b: summation(it.nrows, r, b * nz), value)
                        v.stores.append((pattern, val, "add"))
            return
        # generic symbolic iteration
        if isinstance(it, RangeV) and it.kind == "range":
            idx = IdxV(fresh(str(it.extent).lower()[:1] or "i"), extent=it.extent)
            targets = [(st.target, idx)]
            extent = it.extent
        elif isinstance(it, RangeV) and it.kind == "enumerate":
            pos = IdxV(fresh("k"), extent=it.extent)
            elemv = it.arr.at(pos.index) if isinstance(it.arr, Arr) else None
            if not (isinstance(st.target, ast.Tuple) and len(st.target.elts) == 2):
                raise Unsupported("enumerate target")
            targets = [(st.target.elts[0], pos), (st.target.elts[1], elemv)]
            extent = it.extent
            idx = pos
        elif isinstance(it, Arr) and it.ndim == 1:
            pos = IdxV(fresh("k"), extent=it.dims[0])
            targets = [(st.target, it.at(pos.index))]
            extent = it.dims[0]
            idx = pos
        else:
            raise Unsupported(f"loop over {type(it).__name__}")
        e2 = dict(env)
        for t, v in targets:
            self.assign(t, v, e2, F)
        for k in carried:
            e2[k] = const(0) if not isinstance(env[k], Arr) else ZeroLike(env[k])
        before = {k: len(v.stores) for k, v in e2.items() if isinstance(v, Fill)}
        self.block(st.body, e2, F)
        for k in carried:
            inc = e2[k]
            if isinstance(inc, Arr):
                env[k] = ew(lambda a, b: a + summation(extent, idx.index, b), env[k], inc)
            else:
                env[k] = as_rf(env[k]) + summation(extent, idx.index, as_rf(inc))
        # stores whose pattern does not mention the loop index but whose value does are
        # accumulations over the loop (out[j] += f(i) inside for i)
        for k, v in e2.items():
            if isinstance(v, Fill) and k in before:
                new = v.stores[before[k]:]
                fixed = []
                for pattern, value, kind in new:
                    pat_idx = set()
                    for p in pattern:
                        pat_idx |= _names_of(p)
                    if idx.index not in pat_idx and kind == "add":
                        value = ew(lambda b: summation(extent, idx.index, b), value)
                    fixed.append((pattern, value, kind))
                v.stores[before[k]:] = fixed
        # loop-local Fill objects created in the body stay local; names assigned in the
        # body that existed before keep their last symbolic value only if index-free
        for k in assigned:
            if k in env and k in e2 and isinstance(e2[k], (RF,)) and idx.index not in e2[k].free_indices():
                env[k] = e2[k]
        for k, v in e2.items():
            if isinstance(v, SelfObj):
                env[k] = v
            elif isinstance(v, Fill) and k in env and isinstance(env[k], Fill) and env[k] is not v:
                env[k] = v          # replaced by a store-level merge inside the body

    # ---- expressions
    def ev(self, node, env, F):
        if isinstance(node, ast.Constant):
            if isinstance(node.value, bool) or node.value is None or isinstance(node.value, str):
                return NONE if node.value is None else PyConst(node.value)
            if isinstance(node.value, (int, float)):
                return const(Fraction(str(node.value)))
        if isinstance(node, ast.Name):
            if node.id in env:
                return env[node.id]
            r = self.prog.resolve(F.module, node.id) if F is not None else None
            if isinstance(r, tuple) and r[0] == "const":
                return self.ev(r[1], {}, F)
            raise Unsupported(f"name {node.id}")
        if isinstance(node, ast.UnaryOp):
            v = self.ev(node.operand, env, F)
            if isinstance(node.op, ast.USub):
                if isinstance(v, IdxV):
                    raise Unsupported("negative index")
                return ew(lambda a: -a, v)
            if isinstance(node.op, ast.Not):
                sb = _static_bool(v)
                if sb is not None:
                    return PyConst(not sb)
                return ew_bool(lambda a: const(1) - a, v)
            if isinstance(node.op, ast.Invert):
                return ew_bool(lambda a: const(1) - a, v)
            raise Unsupported("unary op")
        if isinstance(node, ast.BinOp):
            a = self.ev(node.left, env, F)
            b = self.ev(node.right, env, F)
            return self.binop(type(node.op), a, b)
        if isinstance(node, ast.BoolOp):
            vals = [self.ev(v, env, F) for v in node.values]
            stat = [_static_bool(v) for v in vals]
            if isinstance(node.op, ast.And):
                if any(s is False for s in stat):
                    return PyConst(False)
                vals = [v for v, s in zip(vals, stat) if s is None]
                if not vals:
                    return PyConst(True)
                out = vals[0]
                for v in vals[1:]:
                    out = ew_bool(lambda x, y: x * y, out, v)
                return out
            if any(s is True for s in stat):
                return PyConst(True)
            vals = [v for v, s in zip(vals, stat) if s is None]
            if not vals:
                return PyConst(False)
            out = vals[0]
            for v in vals[1:]:
                out = ew_bool(lambda x, y: x + y - x * y, out, v)
            return out
        if isinstance(node, ast.Compare):
            if len(node.ops) != 1:
                # a < b < c
                parts = []
                left = node.left
                for op, right in zip(node.ops, node.comparators):
                    parts.append(ast.Compare(left, [op], [right]))
                    left = right
                return self.ev(ast.BoolOp(ast.And(), parts), env, F)
            a = self.ev(node.left, env, F)
            b = self.ev(node.comparators[0], env, F)
            op = {ast.Lt: "<", ast.LtE: "<=", ast.Gt: ">", ast.GtE: ">=", ast.Eq: "==",
                  ast.NotEq: "!="}.get(type(node.ops[0]))
            if op is None:
                raise Unsupported("comparison operator")
            if isinstance(a, PyConst) and isinstance(b, PyConst):
                return PyConst({"==": a.v == b.v, "!=": a.v != b.v}.get(op))
            return ew_bool(lambda x, y: ind_of(x, op, y), a, b, raw=True)
        if isinstance(node, ast.IfExp):
            c = self.ev(node.test, env, F)
            cv = _static_bool(c)
            if cv is not None:
                return self.ev(node.body if cv else node.orelse, env, F)
            return merge(as_rf(c), self.ev(node.body, env, F), self.ev(node.orelse, env, F))
        if isinstance(node, ast.Tuple):
            return TupleV(self.ev(e, env, F) for e in node.elts)
        if isinstance(node, ast.List):
            return TupleV(self.ev(e, env, F) for e in node.elts)
        if isinstance(node, ast.Attribute):
            return self.attribute(node, env, F)
        if isinstance(node, ast.Subscript):
            return self.subscript(node, env, F)
        if isinstance(node, ast.Call):
            return self.call(node, env, F)
        if isinstance(node, ast.Slice):
            lo = self.ev(node.lower, env, F) if node.lower is not None else None
            hi = self.ev(node.upper, env, F) if node.upper is not None else None
            return SliceV(lo, hi)
        if isinstance(node, ast.ListComp):
            raise Unsupported("list comprehension")
        raise Unsupported(f"expression {type(node).__name__}")

    def binop(self, op, a, b):
        if isinstance(a, Fill):
            a = finalize(a)
        if isinstance(b, Fill):
            b = finalize(b)
        if isinstance(a, IdxV) and isinstance(b, RF) and b.is_const() and op in (ast.Add, ast.Sub):
            k = int(b.const_value())
            return IdxV(a.index, a.off + (k if op is ast.Add else -k), a.extent)
        if isinstance(a, Ptr) and isinstance(b, Ptr) and op is ast.Sub and a.kind == b.kind == "grp" \
                and a.idx.index == b.idx.index and a.idx.off == 1 and b.idx.off == 0:
            return size_of(("grp", a.idx.index))
        if isinstance(a, (Csc, RowGather)) or isinstance(b, (Csc, RowGather)):
            return self.csc_binop(op, a, b)
        if op is ast.MatMult:
            return self.matmul(a, b)
        if op is ast.Add:
            return ew(lambda x, y: x + y, a, b)
        if op is ast.Sub:
            return ew(lambda x, y: x - y, a, b)
        if op is ast.Mult:
            return ew(lambda x, y: x * y, a, b)
        if op is ast.Div:
            return ew(lambda x, y: x / y, a, b)
        if op is ast.Pow:
            if not isinstance(b, RF) or not b.is_const():
                raise Unsupported("symbolic exponent")
            return ew(lambda x: power(x, b), a)
        raise Unsupported(f"operator {op.__name__}")

    def csc_binop(self, op, a, b):
        if op is not ast.Mult:
            raise Unsupported("CSC data arithmetic other than *")
        if isinstance(a, Csc) and a.part == "data" and isinstance(b, RowGather):
            return Csc("data", lambda i, j, a=a, b=b: a.mat(i, j) * as_rf(b.vec.at(i)), a.ncols, a.nrows)
        if isinstance(b, Csc) and b.part == "data" and isinstance(a, RowGather):
            return self.csc_binop(op, b, a)
        if isinstance(a, RowGather) and not isinstance(b, (Csc, RowGather)):
            return RowGather(ew(lambda x, y: x * y, a.vec, b))
        raise Unsupported("CSC data arithmetic")

    def matmul(self, a, b):
        if isinstance(a, Arr) and isinstance(b, Arr):
            if a.ndim == 1 and b.ndim == 1:
                i = fresh("m")
                return summation(a.dims[0], i, as_rf(a.at(i)) * as_rf(b.at(i)))
            if a.ndim == 2 and b.ndim == 1:
                return Arr((a.dims[0],), lambda r, a=a, b=b: summation(
                    a.dims[1], (i := fresh("m")), as_rf(a.at(r, i)) * as_rf(b.at(i))))
            if a.ndim == 1 and b.ndim == 2:
                return Arr((b.dims[1],), lambda c, a=a, b=b: summation(
                    a.dims[0], (i := fresh("m")), as_rf(a.at(i)) * as_rf(b.at(i, c))))
            if a.ndim == 2 and b.ndim == 2:
                return Arr((a.dims[0], b.dims[1]), lambda r, c, a=a, b=b: summation(
                    a.dims[1], (i := fresh("m")), as_rf(a.at(r, i)) * as_rf(b.at(i, c))))
        raise Unsupported("matmul operands")

    def attribute(self, node, env, F):
        base = self.ev(node.value, env, F) if not (isinstance(node.value, ast.Name) and node.value.id in ("np", "numpy")) else None
        if base is None:
            if node.attr == "inf":
                return sym("INF")
            if node.attr in ("float64", "float32", "int64", "int32", "bool_"):
                return PyConst(node.attr)
            raise Unsupported(f"np.{node.attr}")
        if isinstance(base, SelfObj):
            if node.attr in base.attrs:
                return base.attrs[node.attr]
            raise Unsupported(f"self.{node.attr} has no symbolic value")
        if isinstance(base, Fill):
            base = finalize(base)
        if isinstance(base, Arr):
            if node.attr == "T" and base.ndim == 2:
                return Arr(base.dims[::-1], lambda a, b, base=base: base.at(b, a))
            if node.attr == "T" and base.ndim == 1:
                return base
            if node.attr == "shape":
                return ShapeV(base.dims)
            if node.attr == "dtype":
                return PyConst("dtype")
        if isinstance(base, Csc):
            if node.attr == "shape":
                return ShapeV(("Z",) if base.part != "indptr" else (("+1", base.ncols),))
            if node.attr == "dtype":
                return PyConst("dtype")
        raise Unsupported(f"attribute .{node.attr} of {type(base).__name__}")

    def subscript(self, node, env, F):
        base = self.ev(node.value, env, F)
        sl = node.slice
        if isinstance(base, Fill):
            base = finalize(base)
        if isinstance(base, ShapeV):
            k = self.ev(sl, env, F)
            k = int(as_rf(k).const_value())
            d = base.dims[k]
            if isinstance(d, tuple) and d[0] == "+1":
                return size_of(d[1]) + const(1)
            return size_of(d)
        if isinstance(base, TupleV):
            k = int(as_rf(self.ev(sl, env, F)).const_value())
            return base[k]
        if isinstance(base, Csc):
            if isinstance(sl, ast.Slice):
                lo = self.ev(sl.lower, env, F) if sl.lower is not None else None
                hi = self.ev(sl.upper, env, F) if sl.upper is not None else None
                if base.part == "data" and isinstance(lo, Ptr) and isinstance(hi, Ptr) \
                        and lo.idx.index == hi.idx.index and lo.idx.off == 0 and hi.idx.off == 1:
                    # X_data[indptr[j]:indptr[j+1]]  -> stored entries of column j as a
                    # dense-over-rows vector masked by NZ
                    col = lo.idx.index
                    return Arr((base.nrows,), lambda i, base=base, col=col: base.mat(i, col) * el("NZ", i, col))
                raise Unsupported("CSC slice")
            iv = self.ev(sl, env, F)
            if base.part == "data" and isinstance(iv, CscPos):
                return base.mat(iv.row, iv.col.index) * el("NZ", iv.row, iv.col.index)
            if base.part == "indices" and isinstance(iv, CscPos):
                return IdxV(iv.row, extent=base.nrows)
            if base.part == "indptr" and isinstance(iv, IdxV):
                return Ptr("csc", iv)
            raise Unsupported("CSC subscript")
        if isinstance(base, GrpPtr):
            iv = self.ev(sl, env, F)
            if isinstance(iv, IdxV):
                return Ptr("grp", iv)
            raise Unsupported("grp_ptr subscript")
        if isinstance(base, GrpIdx):
            if isinstance(sl, ast.Slice):
                lo = self.ev(sl.lower, env, F)
                hi = self.ev(sl.upper, env, F)
                if isinstance(lo, Ptr) and isinstance(hi, Ptr) and lo.kind == "grp" and hi.kind == "grp" \
                        and lo.idx.index == hi.idx.index and lo.idx.off == 0 and hi.idx.off == 1:
                    g = lo.idx.index
                    ext = ("grp", g)
                    return Arr((ext,), lambda k, g=g: IdxV(("gi", g, k), extent="P"))
            raise Unsupported("grp_indices subscript")
        if isinstance(base, Arr):
            parts = sl.elts if isinstance(sl, ast.Tuple) else [sl]
            fixed = {}
            gather = {}
            newdims = []
            read_mask = None
            for k, p in enumerate(parts):
                if isinstance(p, ast.Slice):
                    if p.lower is None and p.upper is None:
                        newdims.append(base.dims[k])
                        continue
                    lo = self.ev(p.lower, env, F) if p.lower is not None else None
                    hi = self.ev(p.upper, env, F) if p.upper is not None else None
                    if isinstance(lo, Ptr) and isinstance(hi, Ptr) and lo.kind == "grp" and hi.kind == "grp" \
                            and lo.idx.index == hi.idx.index and lo.idx.off == 0 and hi.idx.off == 1:
                        g = lo.idx.index
                        gather[k] = Arr((("grpc", g),), lambda q, g=g: IdxV(("gc", g, q), extent="P"))
                        newdims.append(("grpc", g))
                        continue
                    raise Unsupported("partial slice of an array")
                v = self.ev(p, env, F)
                if isinstance(v, IdxV):
                    if v.off:
                        raise Unsupported("offset element access")
                    fixed[k] = v.index
                elif isinstance(v, CscPos):
                    raise Unsupported("array indexed by a CSC position")
                elif isinstance(v, Arr) and v.ndim == 1:
                    probe = v.at("__probe")
                    if isinstance(probe, IdxV):
                        gather[k] = v
                        newdims.append(v.dims[0])
                    elif isinstance(probe, BoolV):
                        # boolean mask read a[mask]: full extent, remembered mask (applied by
                        # reductions and checked at masked stores)
                        newdims.append(base.dims[k])
                        read_mask = v
                    else:
                        raise Unsupported("array index")
                elif isinstance(v, Csc) and v.part == "indices":
                    if base.ndim != 1:
                        raise Unsupported("row gather of a matrix")
                    return RowGather(base)
                elif isinstance(v, RF) and v.is_const():
                    fixed[k] = ("c", int(v.const_value()))
                else:
                    raise Unsupported(f"index of type {type(v).__name__}")
            for k in range(len(parts), base.ndim):
                newdims.append(base.dims[k])

            def elem(*ix, base=base, fixed=fixed, gather=gather):
                it = iter(ix)
                full = []
                for k in range(base.ndim):
                    if k in fixed:
                        full.append(fixed[k])
                    elif k in gather:
                        full.append(gather[k].at(next(it)).index)
                    else:
                        full.append(next(it))
                return base.at(*full)
            if not newdims:
                return elem()
            return Arr(newdims, elem, read_mask if read_mask is not None else base.mask)
        raise Unsupported(f"subscript of {type(base).__name__}")

    # ---- calls
    def call(self, node, env, F):
        f = node.func
        name = ast.unparse(f)
        kw = {k.arg: self.ev(k.value, env, F) for k in node.keywords if k.arg}
        # method call on self / on array
        if isinstance(f, ast.Attribute) and not _is_module_attr(f):
            recv_node = f.value
            if isinstance(recv_node, ast.Name) and isinstance(env.get(recv_node.id), SelfObj):
                so = env[recv_node.id]
                m = so.cls.find_method(f.attr)
                if m is None:
                    raise Unsupported(f"self.{f.attr} not found")
                args = [self.ev(a, env, F) for a in node.args]
                if f.attr.startswith("_") and f.attr in getattr(self, "opaque_ok", ()):
                    return self.opaque_call(so, f.attr, args)
                try:
                    return self.call_function(m, args, kw, self_obj=so)
                except Unsupported:
                    if f.attr.startswith("_") and not f.attr.startswith("__"):
                        return self.opaque_call(so, f.attr, args)
                    raise
            recv = self.ev(recv_node, env, F)
            if isinstance(recv, Fill):
                recv = finalize(recv)
            args = [self.ev(a, env, F) for a in node.args]
            if f.attr == "sum":
                return total(recv, _axis(kw, args))
            if f.attr == "copy":
                return recv
            if f.attr == "astype":
                return recv
            if f.attr == "any" and isinstance(recv, Arr):
                return self.np_any(recv)
            if f.attr == "mean":
                return self.np_mean(recv)
            raise Unsupported(f"method .{f.attr}")
        args = [self.ev(a, env, F) for a in node.args]
        args = [finalize(a) if isinstance(a, Fill) else a for a in args]
        short = name.split(".")[-1]
        if name in ("np.exp", "np.log", "np.sqrt", "np.abs", "np.sign", "abs", "np.log1p"):
            fname = {"np.log1p": "log1p"}.get(name, short)
            if fname == "log1p":
                return ew(lambda x: fn("log", const(1) + x), args[0])
            if isinstance(args[0], RowGather):
                return RowGather(ew(lambda x: fn(fname, x), args[0].vec))
            return ew(lambda x: fn(fname, x), args[0])
        if name in ("np.sum", "sum"):
            return total(args[0], _axis(kw, args[1:]))
        if name == "np.mean":
            return self.np_mean(args[0])
        if name in ("len",):
            a = args[0]
            if isinstance(a, Arr):
                return size_of(a.dims[0])
            if isinstance(a, Csc) and a.part == "indptr":
                return size_of(a.ncols) + const(1)
            if isinstance(a, GrpPtr):
                return size_of("G") + const(1)
            raise Unsupported("len of non-array")
        if name == "range":
            return self.make_range(args)
        if name == "enumerate":
            a = args[0]
            if isinstance(a, Arr) and a.ndim == 1:
                return RangeV("enumerate", arr=a, extent=a.dims[0])
            raise Unsupported("enumerate of non-array")
        if name in ("np.zeros", "np.empty"):
            return Fill(self.dims_from_shape(args[0]), const(0))
        if name == "np.ones":
            d = self.dims_from_shape(args[0])
            return Arr(d, lambda *ix: const(1))
        if name in ("np.zeros_like", "np.empty_like"):
            a = args[0]
            if isinstance(a, Arr):
                return Fill(a.dims, const(0))
            if isinstance(a, RF):
                return const(0)
            raise Unsupported("zeros_like")
        if name in ("np.full_like", "np.full"):
            a = args[0]
            d = a.dims if isinstance(a, Arr) else self.dims_from_shape(a)
            v = as_rf(args[1])
            return Fill(d, v)
        if name == "max" and len(args) == 1 and isinstance(args[0], Csc) and args[0].part == "indices":
            return size_of(args[0].nrows) - const(1)
        if name in ("np.maximum", "max", "np.minimum", "min") and len(args) == 2:
            return ew(lambda x, y: _maxmin(short.startswith("max"), x, y), args[0], args[1])
        if name in ("np.max", "np.min") and len(args) == 1:
            a = args[0]
            if isinstance(a, Arr) and a.ndim == 1:
                k = as_rf(a.at(("$", 95))).key()
                return atom_rf(("fn", "amax" if name == "np.max" else "amin", k))
            raise Unsupported("array max/min")
        if name in ("norm", "np.linalg.norm", "linalg.norm"):
            return self.norm(args, kw)
        if name == "spectral_norm":
            a = args[0]
            if isinstance(a, Csc) and a.part == "data":
                return spec_norm(lambda i, j, a=a: a.mat(i, j))
            raise Unsupported("spectral_norm argument")
        if name == "sparse_columns_slice":
            cols, data, indptr, indices = args
            if isinstance(cols, Arr) and isinstance(data, Csc):
                ext = cols.dims[0]
                mat = lambda i, k, data=data, cols=cols: data.mat(i, cols.at(k).index)   # noqa: E731
                return TupleV([Csc("data", mat, ext, data.nrows), Csc("indptr", mat, ext, data.nrows),
                               Csc("indices", mat, ext, data.nrows)])
            raise Unsupported("sparse_columns_slice arguments")
        if name == "np.where" and len(args) == 3:
            c, a, b = args

            def f3(cc, x, y):
                return cc * x + (const(1) - cc) * y
            return ew(f3, c, a, b)
        if name == "np.any":
            return self.np_any(args[0])
        if name == "np.all":
            raise Unsupported("np.all")
        if name in ("np.arange",):
            raise Unsupported("np.arange")
        if name in ("np.argsort", "np.sort"):
            raise Unsupported(name)
        if name == "float" and len(args) == 1 and isinstance(args[0], PyConst) \
                and str(args[0].v).lower() in ("inf", "infinity", "+inf"):
            return sym("INF")
        if name in ("float", "np.float64", "int"):
            return args[0]
        # repo helper function
        r = self.prog.resolve(F.module, name) if F is not None else None
        from .model import FuncInfo
        if isinstance(r, FuncInfo):
            return self.call_function(r, args, kw)
        raise Unsupported(f"call {name}")

    def opaque_call(self, so, name, args):
        """private helper that is outside the fragment: an opaque operator keyed by its
        name, the class and the canonical form of its (single vector) argument"""
        if len(args) == 1 and isinstance(args[0], (Arr, Fill)):
            a = finalize(args[0]) if isinstance(args[0], Fill) else args[0]
            if a.ndim == 1:
                k = as_rf(a.at(("$", 95))).key()
                flags = tuple(sorted((n, v.v) for n, v in so.attrs.items() if isinstance(v, PyConst)))
                tag = f"OP:{so.cls.name}.{name}{flags}"
                self.used_opaque = getattr(self, "used_opaque", set()) | {f"{so.cls.name}.{name}"}
                return Arr(a.dims, lambda i, tag=tag, k=k: atom_rf(("el", tag, (i, ("k", repr(k))))))
        raise Unsupported(f"opaque helper {name} with unsupported arguments")

    def np_mean(self, v):
        if isinstance(v, Arr) and v.ndim == 1:
            return total(v) / size_of(v.dims[0])
        if isinstance(v, Arr) and v.ndim == 2:
            # mean over all entries of a matrix
            return total(v) / (size_of(v.dims[0]) * size_of(v.dims[1]))
        raise Unsupported("mean")

    def np_any(self, v):
        """np.any(v) for a real vector: NOT all entries zero.  Canonical form: indicator of
        (sum of squares == 0) negated."""
        if isinstance(v, Arr) and v.ndim == 1:
            probe = v.at("__probe")
            if isinstance(probe, BoolV):
                i = fresh("a")
                s = summation(v.dims[0], i, as_rf(v.at(i)))
                return BoolV(const(1) - ind_of(s, "==", 0))
            i = fresh("a")
            s = summation(v.dims[0], i, as_rf(v.at(i)).powi(2))
            return BoolV(const(1) - ind_of(s, "==", 0))
        raise Unsupported("np.any argument")

    def norm(self, args, kw):
        a = args[0]
        o = kw.get("ord", args[1] if len(args) > 1 else None)
        if isinstance(a, Arr) and a.ndim == 1:
            if o is not None and not (isinstance(o, RF) and o.const_value() == 2):
                raise Unsupported("vector norm order")
            sq = ew(lambda x: x.powi(2), a)
            return fn("sqrt", total(sq))
        if isinstance(a, Arr) and a.ndim == 2:
            if o is not None and isinstance(o, RF) and o.const_value() == 2 and "axis" not in kw:
                return spec_norm(lambda i, j, a=a: as_rf(a.at(i, j)))
            raise Unsupported("matrix norm")
        if isinstance(a, RF):
            return fn("abs", a)
        raise Unsupported("norm argument")

    def make_range(self, args):
        if len(args) == 1:
            a = args[0]
            ext = _extent_of_size(a)
            if ext is None:
                raise Unsupported("range bound")
            return RangeV("range", extent=ext)
        if len(args) == 2:
            lo, hi = args
            if isinstance(lo, Ptr) and isinstance(hi, Ptr) and lo.kind == "csc" and hi.kind == "csc" \
                    and lo.idx.index == hi.idx.index and lo.idx.off == 0 and hi.idx.off == 1:
                return RangeV("csc", col=lo.idx, nrows="N")
            if isinstance(lo, Ptr) and isinstance(hi, Ptr) and lo.kind == "grp" and hi.kind == "grp" \
                    and lo.idx.index == hi.idx.index and lo.idx.off == 0 and hi.idx.off == 1:
                g = lo.idx.index
                return Arr((("grpc", g),), lambda q, g=g: IdxV(("gc", g, q), extent="P"))
        raise Unsupported("range form")

    def dims_from_shape(self, a):
        if isinstance(a, TupleV):
            return tuple(_extent_req(x) for x in a)
        return (_extent_req(a),)


def _is_module_attr(f):
    """np.x / np.linalg.x / numpy.x (a module function, not a method call)"""
    v = f.value
    while isinstance(v, ast.Attribute):
        v = v.value
    if isinstance(v, ast.Name) and v.id in ("np", "numpy", "scipy", "sparse", "math"):
        # np.<something>(...) directly on the module chain
        chain_ok = True
        x = f.value
        while isinstance(x, ast.Attribute):
            x = x.value
        return isinstance(x, ast.Name) and not isinstance(f.value, ast.Call)
    return False


class ShapeV:
    def __init__(self, dims):
        self.dims = dims


class GrpPtr:
    pass


class GrpIdx:
    pass


class RaiseV:
    pass


class _ArrDefault:
    pass


def ZeroLike(a):
    return Arr(a.dims, lambda *ix: const(0))


def _names_of(p):
    from .algebra import index_names
    return index_names(p)


def _axis(kw, rest):
    a = kw.get("axis", rest[0] if rest else None)
    if a is None or isinstance(a, NoneV):
        return None
    return int(as_rf(a).const_value())


def _static_bool(v):
    if isinstance(v, PyConst) and isinstance(v.v, bool):
        return v.v
    if isinstance(v, (RF, BoolV)):
        c = as_rf(v).const_value()
        if c is not None:
            return bool(c)
    return None


def ew_bool(f, *vals, raw=False):
    vals = [finalize(v) if isinstance(v, Fill) else v for v in vals]
    arrs = [v for v in vals if isinstance(v, Arr)]
    if not arrs:
        return BoolV(f(*[as_rf(v) for v in vals]))
    dims = max((a.dims for a in arrs), key=len)

    def elem(*ix):
        args = []
        for v in vals:
            if isinstance(v, Arr):
                args.append(as_rf(v.at(*ix[len(dims) - len(v.dims):])))
            else:
                args.append(as_rf(v))
        return BoolV(f(*args))
    return Arr(dims, elem)


def _maxmin(is_max, x, y):
    x, y = tolift(x), tolift(y)
    if not is_max:
        return -_maxmin(True, -x, -y)
    cx, cy = x.const_value(), y.const_value()
    if cx is not None and cy is not None:
        return const(max(cx, cy))
    if cx == 0:
        return fn("pos", y)
    if cy == 0:
        return fn("pos", x)
    # max(x, y) = y + pos(x - y)
    return y + fn("pos", x - y)


def spec_norm(mat):
    """opaque spectral norm keyed by the canonical element term of the matrix"""
    e = mat(("$", 90), ("$", 91))
    return atom_rf(("fn", "specnorm", tolift(e).key()))


def _extent_of_size(a):
    """size term #E (+0) -> extent E"""
    if isinstance(a, RF):
        ats = a.atoms()
        if len(ats) == 1 and a.den == {(): Fraction(1)}:
            at = next(iter(ats))
            if at[0] == "sym" and at[1].startswith("#") and a.equals(atom_rf(at)):
                ext = at[1][1:]
                if ext.startswith("("):
                    import ast as _a
                    return _a.literal_eval(ext)
                return ext
    return None


def _extent_req(a):
    e = _extent_of_size(a)
    if e is None:
        raise Unsupported("array shape is not a plain extent")
    return e
