"""Facts about each solver's `_solve`, extracted positionally (never by variable
name): parameters by position, returned triple by position, the budget loop as the
first top-level `for ... in range(self.<attr>)`, tolerance exits as `break`s of that
loop guarded by a comparison with `self.tol`."""
import ast

from .model import AnalysisError, norm_src, names_in, attr_chain
from .cfg import cfg_of


class SolverFacts:
    def __init__(self, prog, flow, cls):
        self.prog, self.flow, self.cls = prog, flow, cls
        self.name = cls.name
        f = cls.find_method("_solve")
        if f is None or f.cls is prog.BaseSolver:
            raise AnalysisError(f"solver {cls.name} has no _solve")
        self.f = f
        self.cfg = cfg_of(f)
        ps = f.call_params()
        if len(ps) < 6:
            raise AnalysisError(f"{f.fq}: expected 6 parameters, got {ps}")
        (self.pX, self.pY, self.pD, self.pP, self.pW0, self.pXW0) = ps[:6]
        self._returns()
        self._vars()
        self._budget_loop()
        self._tol_exits()

    # -------------------------------------------------------------- returns
    def _returns(self):
        rets = [self.cfg.nodes[r] for r in self.cfg.returns]
        rets = [r for r in rets if r.ast.value is not None]
        if not rets:
            raise AnalysisError(f"{self.f.fq}: no return")
        self.ret_nodes = rets
        r = rets[-1].ast.value
        if not (isinstance(r, ast.Tuple) and len(r.elts) == 3):
            raise AnalysisError(f"{self.f.fq}: return is not a triple: {norm_src(r)}")
        self.ret_w, self.ret_hist, self.ret_stop = r.elts
        self.ret_node = rets[-1]

    def _vars(self):
        f = self.f
        self.W = self.ret_w.id if isinstance(self.ret_w, ast.Name) else None
        self.STOP = self.ret_stop.id if isinstance(self.ret_stop, ast.Name) else None
        # XW: local assigned from an expression mentioning the 6th parameter
        self.XW = None
        self.w_init_assign = self.xw_init_assign = None
        for st in f.node.body:
            for a in ast.walk(st):
                if isinstance(a, ast.Assign) and len(a.targets) == 1 \
                        and isinstance(a.targets[0], ast.Name):
                    nm = names_in(a.value)
                    if self.pXW0 in nm and self.XW is None:
                        self.XW = a.targets[0].id
                        self.xw_init_assign = a
                    if self.pW0 in nm and a.targets[0].id == self.W \
                            and self.w_init_assign is None:
                        self.w_init_assign = a
        # history variable (name at root of second return element)
        h = self.ret_hist
        self.HIST = None
        for n in ast.walk(h):
            if isinstance(n, ast.Name) and n.id not in ("np", "numpy"):
                self.HIST = n.id
                break
        # does the solver size W with the intercept flag?
        self.sizes_with_fi = False
        for n in ast.walk(f.node):
            if isinstance(n, ast.BinOp) and isinstance(n.op, ast.Add):
                r = self.flow.roles(f, n)
                if "PLUS_FI" in r and "NF" in r:
                    self.sizes_with_fi = True
        # local alias of the intercept flag (fit_intercept = self.fit_intercept)
        self.fi_names = set()
        for n in ast.walk(f.node):
            if isinstance(n, ast.Assign) and len(n.targets) == 1 \
                    and isinstance(n.targets[0], ast.Name) \
                    and "FI" in self.flow.roles(f, n.value) \
                    and isinstance(n.value, ast.Attribute):
                self.fi_names.add(n.targets[0].id)

    def is_fi_test(self, test):
        """Is `test` the intercept flag (self.fit_intercept or its local alias)?"""
        if isinstance(test, ast.Attribute):
            return "FI" in self.flow.roles(self.f, test)
        if isinstance(test, ast.Name):
            return test.id in self.fi_names or "FI" in self.flow.env[self.f].get(test.id, ())
        return False

    # ---------------------------------------------------------- budget loop
    def _budget_loop(self):
        self.loop = None
        for st in self.f.node.body:
            if isinstance(st, ast.For) and isinstance(st.iter, ast.Call) \
                    and ast.unparse(st.iter.func) == "range" and len(st.iter.args) == 1:
                ch = attr_chain(st.iter.args[0])
                if ch and ch[0] == "self" and len(ch) == 2:
                    self.loop = st
                    self.budget_attr = ch[1]
                    break
        if self.loop is not None:
            self.loop_header = self.cfg.node_of(self.loop)
            self.loop_iter_edge, self.loop_exhaust_edge = self.cfg.loop_edges(self.loop_header)

    def in_budget_loop_directly(self, nid):
        """node's innermost enclosing loop is the budget loop"""
        lp = self.cfg.nodes[nid].loops
        return bool(lp) and lp[-1] == self.loop_header

    # ------------------------------------------------------- tolerance exits
    def _tol_exits(self):
        self.tol_exits = []   # (test node id, break node id, compare ast)
        if self.loop is None:
            return
        cfg = self.cfg
        for n in cfg.nodes:
            if n.kind == "stmt" and isinstance(n.ast, ast.Break) \
                    and self.in_budget_loop_directly(n.id):
                # innermost dominating branch edge
                facts = cfg.facts_at(n.id)
                for test, label, of in reversed(facts):
                    if isinstance(test, ast.Compare) and label == "true":
                        if any(self.tol_kind(c) for c in [test.left] + list(test.comparators)):
                            self.tol_exits.append((of, n.id, test))
                            break
                    elif isinstance(test, ast.For):
                        continue
                    else:
                        # first non-loop guard decides
                        if not isinstance(test, ast.For):
                            break

    def tol_kind(self, e, depth=0):
        """'direct' for the solver's own tolerance (`self.tol`, or a local that is a plain copy of
        it), 'derived' for a local computed from it (`tol = self.tol * max(1., stop_crit)`), else
        None"""
        if "TOL" in self.flow.roles(self.f, e):
            return "direct" if isinstance(e, (ast.Attribute, ast.Name)) else "derived"
        if isinstance(e, ast.Name) and depth < 3:
            kinds = set()
            for st in ast.walk(self.f.node):
                if isinstance(st, ast.Assign) and len(st.targets) == 1 and isinstance(st.targets[0], ast.Name) \
                        and st.targets[0].id == e.id:
                    if "TOL" in self.flow.roles(self.f, st.value) and isinstance(st.value, ast.Attribute):
                        kinds.add("direct")
                    elif any("TOL" in self.flow.roles(self.f, x) or self.tol_kind(x, depth + 1)
                             for x in ast.walk(st.value) if isinstance(x, (ast.Attribute, ast.Name)) and x is not st.value):
                        kinds.add("derived")
                    elif isinstance(st.value, ast.Name) and self.tol_kind(st.value, depth + 1):
                        kinds.add(self.tol_kind(st.value, depth + 1))
            if kinds:
                return "direct" if kinds == {"direct"} else "derived"
        return None

    def stop_name_in(self, cmp):
        """Name compared with self.tol in a tolerance test."""
        sides = [cmp.left] + list(cmp.comparators)
        for s in sides:
            if isinstance(s, ast.Name) and not self.tol_kind(s):
                return s.id
        return None


def all_solver_facts(prog, flow):
    out = {}
    for c in prog.solvers:
        out[c.name] = SolverFacts(prog, flow, c)
    return out
