"""L4 - index-kind / extent inference ("beliefs", after Engler et al.).

Every integer variable used as a subscript and every array axis gets a *domain symbol*:
  N samples, P features, G groups, T tasks, Z stored CSC entries, Q positions in
  grp_indices, S:<name> positions of the working-set array <name>, SEG:<name> positions
  inside one group slice.
Domains are seeded from provenance roles (X is [N, P], the CSC triple, grp_ptr /
grp_indices, coefficient and model-fit arrays), from the constructor-attribute table of
the jitclasses, from the slot signatures of the duck-typed interface, and from the loops
(`range(n_features)`, `enumerate(ws)`, `range(indptr[j], indptr[j+1])`).  Everything else
is *inferred from use*: subscripting an axis with an index of known kind is a belief about
the axis, and vice versa.  Two different beliefs about the same variable / axis are a
contradiction in the code's own beliefs and are reported; unknowns never raise alarms.
"""
import ast
from collections import defaultdict

from .model import names_in, attr_chain, norm_src

ATTR_DOMS = {           # (class or None, attribute) -> (axis domains, element kind)
    (None, "sample_weights"): (("N",), None),
    (None, "weights"): (("P",), None),
    ("WeightedGroupL2", "weights"): (("G",), None),
    (None, "weights_groups"): (("G",), None),
    (None, "weights_features"): (("P",), None),
    (None, "alphas"): (("P",), None),
    (None, "grp_ptr"): (("G",), "Q"),
    (None, "grp_indices"): (("Q",), "P"),
    (None, "Xty"): (("P",), None), (None, "Xtwy"): (("P",), None),
    (None, "XtY"): (("P", "T"), None),
    (None, "lipschitz"): (("G",), None),
}
# kind of the last (index) argument of slot methods, and of the `ws` argument's elements
SLOT_INDEX_KIND = {
    "prox_1d": "P", "prox_1feat": "P", "prox_1group": "G",
    "gradient_scalar": "P", "gradient_scalar_sparse": "P", "gradient_j": "P",
    "gradient_j_sparse": "P", "gradient_g": "G", "gradient_g_sparse": "G",
}
ROLE_DOMS = {
    "X": (("N", "P"), None), "Y": (("N",), None), "W": (("P",), None), "W0": (("P",), None),
    "XW": (("N",), None), "XW0": (("N",), None),
    "CSC_DATA": (("Z",), None), "CSC_INDICES": (("Z",), "N"), "CSC_INDPTR": (("P",), "Z"),
    "GRP_PTR": (("G",), "Q"), "GRP_IDX": (("Q",), "P"), "RAWGRAD": (("N",), None),
    "RAWHESS": (("N",), None),
}
SIZE_ROLES = {"NF": "P", "NS": "N", "NG": "G", "NT": "T"}


class Belief:
    __slots__ = ("dom", "node", "why")

    def __init__(self, dom, node, why):
        self.dom, self.node, self.why = dom, node, why


class FuncKinds:
    """beliefs about one function"""

    def __init__(self, flow, f, cls_attr_doms=None, param_seed=None):
        self.flow, self.f = flow, f
        self.env = flow.env.get(f, {})
        self.idx = defaultdict(list)        # index var -> [Belief]
        self.axis = defaultdict(list)       # (array name, axis) -> [Belief]
        self.elem = defaultdict(list)       # array name -> [Belief] (kind of its elements)
        self.cls_attr = cls_attr_doms or {}
        self.sizes = {}                     # name -> domain (n_features -> P)
        self.conflicts = []
        self.param_seed = param_seed or {}
        self._seed()
        for _ in range(3):
            self._pass()

    # ------------------------------------------------------------------ seeds
    def _seed(self):
        f = self.f
        params = set(f.params) | set(f.kwonly)
        for nm, roles in self.env.items():
            for r in roles:
                if r in SIZE_ROLES:
                    self.sizes[nm] = SIZE_ROLES[r]
            if nm not in params:
                continue
            cands = [ROLE_DOMS[r] for r in roles if r in ROLE_DOMS]
            if len({c[0] for c in cands}) != 1:
                continue          # no role, or conflicting roles (mis-bound call): no seed
            doms, ek = cands[0]
            r = [r for r in roles if r in ROLE_DOMS][0]
            for k, d in enumerate(doms):
                self.axis[(nm, k)].append(Belief(d, f.node, f"role {r}"))
            if ek:
                self.elem[nm].append(Belief(ek, f.node, f"role {r}"))
            # the repository spells the multitask arrays in capitals (W, XW, Y: one column per task)
            if r in ("W", "W0", "XW", "XW0", "Y") and nm[:1].isupper() and len(doms) == 1:
                self.axis[(nm, 1)].append(Belief("T", f.node, f"role {r} (multitask spelling)"))
        # helpers outside the solve call graph (skglm.utils.data): the group structure and
        # the design are recognised by their interface names
        if f.module.name == "skglm.utils.data":
            for nm, r in (("grp_ptr", "GRP_PTR"), ("grp_indices", "GRP_IDX"), ("X", "X"), ("y", "Y")):
                if nm in params and not self.axis.get((nm, 0)):
                    doms, ek = ROLE_DOMS[r]
                    for k, d in enumerate(doms):
                        self.axis[(nm, k)].append(Belief(d, f.node, f"interface name {nm}"))
                    if ek:
                        self.elem[nm].append(Belief(ek, f.node, f"interface name {nm}"))
        for nm, (doms, ek) in self.param_seed.items():
            for k, d in enumerate(doms or ()):
                if d:
                    self.axis[(nm, k)].append(Belief(d, f.node, "interface"))
            if ek:
                if doms:
                    self.elem[nm].append(Belief(ek, f.node, "interface"))
                else:
                    self.idx[nm].append(Belief(ek, f.node, "interface"))

    # --------------------------------------------------------------- helpers
    def dom_of_axis(self, nm, k):
        b = self.axis.get((nm, k))
        return b[0].dom if b else None

    def kind_of(self, e):
        """kind of an index expression (Name, Name+const, subscript of an index array)"""
        if isinstance(e, ast.Name):
            b = self.idx.get(e.id)
            return b[0].dom if b else None
        if isinstance(e, ast.BinOp) and isinstance(e.op, (ast.Add, ast.Sub)) \
                and isinstance(e.right, ast.Constant):
            return self.kind_of(e.left)
        if isinstance(e, ast.Subscript):
            nm = self.array_name(e.value)
            if nm and not isinstance(e.slice, (ast.Slice, ast.Tuple)):
                b = self.elem.get(nm)
                return b[0].dom if b else None
        return None

    def array_name(self, e):
        """name under which beliefs about array `e` are stored"""
        if isinstance(e, ast.Name):
            return e.id
        if isinstance(e, ast.Attribute):
            ch = attr_chain(e)
            if ch and len(ch) == 2 and ch[1] not in ("T", "shape", "dtype", "size", "ndim"):
                return f"{ch[0]}.{ch[1]}"
        return None

    def size_dom(self, e):
        """domain measured by a size expression: n_features, len(a), a.shape[k], len(a)-1"""
        if isinstance(e, ast.Name):
            return self.sizes.get(e.id)
        if isinstance(e, ast.Call) and ast.unparse(e.func) == "len" and e.args:
            nm = self.array_name(e.args[0])
            return self.dom_of_axis(nm, 0) if nm else None
        if isinstance(e, ast.Subscript) and isinstance(e.value, ast.Attribute) and e.value.attr == "shape" \
                and isinstance(e.slice, ast.Constant):
            nm = self.array_name(e.value.value)
            return self.dom_of_axis(nm, e.slice.value) if nm else None
        if isinstance(e, ast.BinOp) and isinstance(e.op, (ast.Sub, ast.Add)) and isinstance(e.right, ast.Constant):
            return self.size_dom(e.left)
        if isinstance(e, ast.BinOp) and isinstance(e.op, ast.Add):
            # n_features + fit_intercept
            return self.size_dom(e.left) or self.size_dom(e.right)
        return None

    def type_of(self, v, tname=None):
        """(axis domains list, element kind) of an array-valued expression, or None"""
        if isinstance(v, ast.Call) and isinstance(v.func, ast.Attribute) and v.func.attr in ("copy", "astype"):
            return self.type_of(v.func.value, tname)
        nm = self.array_name(v)
        if nm:
            doms = []
            k = 0
            while (nm, k) in self.axis and self.axis[(nm, k)]:
                doms.append(self.axis[(nm, k)][0].dom)
                k += 1
            ek = self.elem[nm][0].dom if self.elem.get(nm) else None
            return (doms, ek) if doms or ek else None
        if isinstance(v, ast.Attribute) and v.attr == "T":
            t = self.type_of(v.value)
            return (t[0][::-1], t[1]) if t else None
        if isinstance(v, ast.Constant):
            return ([], None)
        if isinstance(v, ast.Call) and ast.unparse(v.func) in ("len", "float", "int", "np.sqrt", "max", "min") \
                and (ast.unparse(v.func) in ("len", "float", "int") or all(
                    (lambda t: t is not None and not t[0])(self.type_of(a)) for a in v.args)):
            return ([], None)       # a scalar
        if isinstance(v, ast.Subscript) and isinstance(v.value, ast.Attribute) and v.value.attr == "shape":
            return ([], None)
        if isinstance(v, ast.Name) and v.id in self.sizes:
            return ([], None)
        if isinstance(v, ast.BinOp) and isinstance(v.op, ast.MatMult):
            a, b = self.type_of(v.left), self.type_of(v.right)
            if a is None or b is None or not a[0] or not b[0]:
                return None
            return (list(a[0][:-1]) + list(b[0][1:]), None)
        if isinstance(v, ast.BinOp):
            # elementwise arithmetic keeps the shape of its array operand; an operand of
            # unknown type makes the result unknown
            a, b = self.type_of(v.left), self.type_of(v.right)
            if a is None or b is None:
                return None
            return (a[0] if len(a[0]) >= len(b[0]) else b[0], None)
        if isinstance(v, ast.Call) and isinstance(v.func, ast.Attribute) and v.func.attr in ("sum", "mean", "max", "min"):
            t = self.type_of(v.func.value)
            ax = next((k.value for k in v.keywords if k.arg == "axis"), v.args[0] if v.args else None)
            if t and isinstance(ax, ast.Constant) and isinstance(ax.value, int) and ax.value < len(t[0]):
                return ([d for k, d in enumerate(t[0]) if k != ax.value], None)
            return None
        if isinstance(v, ast.Subscript):
            bt = self.type_of(v.value)
            base = self.array_name(v.value)
            parts = v.slice.elts if isinstance(v.slice, ast.Tuple) else [v.slice]
            if bt is None:
                return None
            doms = []
            bd = bt[0]
            for k, p in enumerate(parts):
                d = bd[k] if k < len(bd) else None
                if isinstance(p, ast.Slice):
                    if p.lower is None and p.upper is None:
                        doms.append(d)
                    elif isinstance(p.lower, ast.Subscript) and self.kind_of(p.lower) and self.kind_of(p.lower) == d:
                        doms.append("SEG:" + (tname or "?"))
                    else:
                        doms.append(None)
                elif isinstance(p, ast.Name) and (self.elem.get(p.id) or "WS" in self.env.get(p.id, ())):
                    # fancy indexing by an index array (the working set included)
                    doms.append(self.dom_of_axis(p.id, 0) or ("S:" + p.id))
                else:
                    pass      # scalar index: axis removed
            doms += bd[len(parts):]
            return (doms, bt[1])
        return None

    def believe_idx(self, var, dom, node, why):
        if dom is None:
            return
        for b in self.idx[var]:
            if b.dom == dom:
                return
        self.idx[var].append(Belief(dom, node, why))

    def believe_axis(self, nm, k, dom, node, why):
        if dom is None or nm is None:
            return
        for b in self.axis[(nm, k)]:
            if b.dom == dom:
                return
        self.axis[(nm, k)].append(Belief(dom, node, why))

    def believe_elem(self, nm, dom, node, why):
        if dom is None or nm is None:
            return
        for b in self.elem[nm]:
            if b.dom == dom:
                return
        self.elem[nm].append(Belief(dom, node, why))

    # ------------------------------------------------------------------ pass
    def _pass(self):
        f = self.f
        # class attributes
        for n in ast.walk(f.node):
            if isinstance(n, ast.Attribute) and isinstance(n.value, ast.Name):
                key = f"{n.value.id}.{n.attr}"
                cname = f.cls.name if f.cls is not None else None
                ent = ATTR_DOMS.get((cname, n.attr)) or (ATTR_DOMS.get((None, n.attr))
                                                           if (n.value.id == "self" or self.env.get(n.value.id, set()) & {"DATAFIT", "PENALTY"}) else None)
                if ent:
                    for k, d in enumerate(ent[0]):
                        self.believe_axis(key, k, d, n, "attribute table")
                    if ent[1]:
                        self.believe_elem(key, ent[1], n, "attribute table")
        for st in ast.walk(f.node):
            # sizes
            if isinstance(st, ast.Assign) and len(st.targets) == 1:
                t, v = st.targets[0], st.value
                if isinstance(t, ast.Name):
                    d = self.size_dom(v)
                    if d and not isinstance(v, ast.Name):
                        self.sizes.setdefault(t.id, d)
                    # arrays derived from typed arrays: alias, copy, slices, fancy indexing
                    ty = self.type_of(v, t.id)
                    if ty:
                        for k, d in enumerate(ty[0]):
                            self.believe_axis(t.id, k, d, st, f"from {norm_src(v)[:30]}")
                        if ty[1]:
                            self.believe_elem(t.id, ty[1], st, f"from {norm_src(v)[:30]}")
                    # np.zeros(size) / np.zeros(len(a)) / zeros_like(a)
                    if isinstance(v, ast.Call):
                        fn = ast.unparse(v.func)
                        if fn in ("np.zeros", "np.ones", "np.empty", "np.full") and v.args:
                            shape = v.args[0]
                            dims = shape.elts if isinstance(shape, ast.Tuple) else [shape]
                            for k, de in enumerate(dims):
                                self.believe_axis(t.id, k, self.size_dom(de), st, "allocation")
                        if fn in ("np.zeros_like", "np.empty_like", "np.full_like") and v.args:
                            src = self.array_name(v.args[0])
                            for (nm, k), bl in list(self.axis.items()):
                                if nm == src:
                                    for b in bl:
                                        self.believe_axis(t.id, k, b.dom, st, f"like {src}")
                        if fn == "np.arange" and v.args:
                            d = self.size_dom(v.args[0])
                            self.believe_axis(t.id, 0, d, st, "arange")
                            self.believe_elem(t.id, d, st, "arange")

                elif isinstance(t, ast.Tuple) and isinstance(v, ast.Attribute) and v.attr == "shape":
                    nm = self.array_name(v.value)
                    for k, tt in enumerate(t.elts):
                        if isinstance(tt, ast.Name) and nm:
                            d = self.dom_of_axis(nm, k)
                            if d:
                                self.sizes.setdefault(tt.id, d)
                elif isinstance(t, ast.Tuple) and isinstance(v, ast.Tuple) and len(t.elts) == len(v.elts):
                    for tt, vv in zip(t.elts, v.elts):
                        ty = self.type_of(vv, tt.id if isinstance(tt, ast.Name) else None)
                        if isinstance(tt, ast.Name) and ty:
                            for k, d in enumerate(ty[0]):
                                self.believe_axis(tt.id, k, d, st, f"from {norm_src(vv)[:30]}")
                            if ty[1]:
                                self.believe_elem(tt.id, ty[1], st, f"from {norm_src(vv)[:30]}")
            # loops
            if isinstance(st, ast.For):
                it = st.iter
                if isinstance(it, ast.Call) and ast.unparse(it.func) == "range":
                    if len(it.args) == 1 and isinstance(st.target, ast.Name):
                        self.believe_idx(st.target.id, self.size_dom(it.args[0]), st, f"range({norm_src(it.args[0])})")
                    elif len(it.args) == 2 and isinstance(st.target, ast.Name):
                        lo = it.args[0]
                        if isinstance(lo, ast.Subscript):
                            self.believe_idx(st.target.id, self.kind_of(lo), st, "pointer range")
                elif isinstance(it, ast.Call) and ast.unparse(it.func) == "enumerate" and it.args \
                        and isinstance(st.target, ast.Tuple) and len(st.target.elts) == 2:
                    nm = self.array_name(it.args[0])
                    a, b = st.target.elts
                    if nm and isinstance(a, ast.Name):
                        d = self.dom_of_axis(nm, 0) or ("S:" + nm)
                        self.believe_axis(nm, 0, d, st, "enumerate")
                        self.believe_idx(a.id, d, st, f"position in {nm}")
                    if nm and isinstance(b, ast.Name):
                        for bl in self.elem.get(nm, []):
                            self.believe_idx(b.id, bl.dom, st, f"element of {nm}")
                        for bl in self.idx.get(b.id, []):
                            self.believe_elem(nm, bl.dom, st, f"elements used as {bl.dom}")
                elif isinstance(st.target, ast.Name):
                    nm = self.array_name(it)
                    if nm:
                        for bl in self.elem.get(nm, []):
                            self.believe_idx(st.target.id, bl.dom, st, f"element of {nm}")
                        for bl in self.idx.get(st.target.id, []):
                            self.believe_elem(nm, bl.dom, st, f"elements used as {bl.dom}")
            # subscripts
            if isinstance(st, ast.Subscript):
                nm = self.array_name(st.value)
                if nm is None:
                    continue
                parts = st.slice.elts if isinstance(st.slice, ast.Tuple) else [st.slice]
                for k, p in enumerate(parts):
                    if isinstance(p, ast.Slice):
                        for bnd in (p.lower, p.upper):
                            if isinstance(bnd, ast.Subscript):
                                bk = self.kind_of(bnd)
                                ad0 = self.dom_of_axis(nm, k)
                                if bk and ad0 and bk != ad0:
                                    self.conflict(st, nm, k, ad0, bk, bnd)
                        continue
                    if isinstance(p, ast.Constant):
                        continue
                    ik = self.kind_of(p)
                    ad = self.dom_of_axis(nm, k)
                    var = p.id if isinstance(p, ast.Name) else (p.left.id if isinstance(p, ast.BinOp) and isinstance(p.left, ast.Name) else None)
                    if ik and not ad:
                        # fancy index by an index array: name[idx_array]
                        self.believe_axis(nm, k, ik, st, f"indexed by {norm_src(p)} ({ik})")
                    elif ad and not ik and var:
                        self.believe_idx(var, ad, st, f"indexes {nm} axis {k} ({ad})")
                    elif ad and ik and ad != ik:
                        self.conflict(st, nm, k, ad, ik, p)
                    # index arrays used to subscript: w[grp_g_indices]
                    if isinstance(p, ast.Name):
                        for bl in self.elem.get(p.id, []):
                            if ad and bl.dom != ad:
                                self.conflict(st, nm, k, ad, bl.dom, p)
                            elif not ad:
                                self.believe_axis(nm, k, bl.dom, st, f"indexed by array {p.id}")
            # slot calls: kind of the index argument
            if isinstance(st, ast.Call) and isinstance(st.func, ast.Attribute) and st.func.attr in SLOT_INDEX_KIND \
                    and st.args and isinstance(st.args[-1], ast.Name):
                recv = st.func.value
                if isinstance(recv, ast.Name) and (self.env.get(recv.id, set()) & {"DATAFIT", "PENALTY"} or recv.id == "self"):
                    want = SLOT_INDEX_KIND[st.func.attr]
                    var = st.args[-1].id
                    have = self.kind_of(st.args[-1])
                    if have and have != want and not have.startswith("SEG"):
                        self.conflicts.append(dict(node=st, what=f"`{norm_src(st)[:70]}` passes `{var}` "
                                                   f"(an index over {have}) where the interface expects an "
                                                   f"index over {want}", key=f"slot::{st.func.attr}::{var}"))
                    else:
                        self.believe_idx(var, want, st, f"{st.func.attr} argument")

    def conflict(self, node, nm, k, ad, ik, p):
        if ad is None or ik is None:
            return
        if ad.startswith("SEG") or ik.startswith("SEG"):
            if ad.split(":")[0] == ik.split(":")[0]:
                return
        if ik.startswith(("S:", "SEG:")) and nm not in self.f.params and "." not in nm:
            # output buffer filled by position (possibly over-allocated): in bounds
            return
        key = f"idx::{nm}[{norm_src(p)}]"
        if any(c["key"] == key for c in self.conflicts):
            return
        self.conflicts.append(dict(
            node=node, key=key,
            what=f"`{norm_src(node)[:60]}`: axis {k} of `{nm}` ranges over {ad} but "
                 f"`{norm_src(p)}` is an index over {ik}"))

    def multi_beliefs(self):
        """variables / axes with two different beliefs"""
        out = []
        for var, bl in self.idx.items():
            doms = []
            for b in bl:
                if b.dom not in doms:
                    doms.append(b.dom)
            if len(doms) > 1:
                out.append(("index", var, [(b.dom, b.why, getattr(b.node, "lineno", 0)) for b in bl]))
        for (nm, k), bl in self.axis.items():
            doms = []
            for b in bl:
                if b.dom not in doms:
                    doms.append(b.dom)
            if len(doms) > 1:
                out.append(("axis", f"{nm}[axis {k}]", [(b.dom, b.why, getattr(b.node, "lineno", 0)) for b in bl]))
        return out


def method_param_seed(mname, params):
    """interface seeds for methods of datafits/penalties by slot name"""
    seed = {}
    if mname in SLOT_INDEX_KIND and params:
        seed[params[-1]] = (None, SLOT_INDEX_KIND[mname])
    return seed
