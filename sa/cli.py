"""Command line: `cli.py check Cxx [--tier quick|thorough]`, `cli.py replay <file>`,
`cli.py all`.

Exit codes: 0 property held on everything analysed (known findings listed),
1 VIOLATION line printed, 2 ANALYSIS-ERROR (internal error, vanished anchor, floor
breach, undecided obligation) - a traceback never masquerades as exit 1.
"""
import argparse
import json
import os
import sys
import traceback

sys.path.insert(0, os.path.dirname(os.path.dirname(os.path.abspath(__file__))))

from sa.model import Program, AnalysisError          # noqa: E402
from sa.flow import Flow                              # noqa: E402
from sa.solvers import all_solver_facts               # noqa: E402
from sa.report import Ctx                             # noqa: E402


class Analysis:
    def __init__(self, repo=None):
        self.prog = Program(repo) if repo else Program()
        self.flow = Flow(self.prog)
        self.facts = all_solver_facts(self.prog, self.flow)


def run_property(pid, tier, seed=0, repo=None):
    from sa.rules import props
    ctx = Ctx(pid, tier, seed)
    try:
        A = Analysis(repo)
        fn = props.PROPS.get(pid)
        if fn is None:
            print(f"ANALYSIS-ERROR property={pid} not claimed by this framework")
            return 2
        meta = fn(A, ctx, tier) or {}
        if tier == "thorough":
            from sa import selftest
            selftest.selftest(pid, ctx)
        return ctx.finish(A.prog, **meta)
    except AnalysisError as e:
        print(f"ANALYSIS-ERROR property={pid} {e}")
        _write_error_evidence(ctx, str(e))
        return 2
    except Exception:
        traceback.print_exc()
        print(f"ANALYSIS-ERROR property={pid} internal error (traceback above)")
        _write_error_evidence(ctx, "internal error")
        return 2


def _write_error_evidence(ctx, msg):
    from sa.report import EVID
    import time
    os.makedirs(EVID, exist_ok=True)
    ev = dict(property_id=ctx.pid, tier=ctx.tier, seed=int(ctx.seed), level="other",
              coverage=dict(explanation="ANALYSIS-ERROR: " + msg, evaluations=1,
                            distinct_nontrivial=0), wall_s=round(time.time() - ctx.t0, 3),
              violations=0)
    with open(os.path.join(EVID, f"{ctx.pid}.json"), "w") as f:
        json.dump(ev, f, indent=1)


def main(argv=None):
    ap = argparse.ArgumentParser()
    sub = ap.add_subparsers(dest="cmd", required=True)
    c = sub.add_parser("check")
    c.add_argument("pid")
    c.add_argument("--tier", default=os.environ.get("VERIF_TIER", "quick"),
                   choices=["quick", "thorough"])
    c.add_argument("--repo", default=None)
    r = sub.add_parser("replay")
    r.add_argument("file")
    a = sub.add_parser("all")
    a.add_argument("--tier", default="quick")
    a.add_argument("--repo", default=None)
    args = ap.parse_args(argv)
    seed = int(os.environ.get("VERIF_SEED", "0") or 0)
    if args.cmd == "check":
        return run_property(args.pid, args.tier, seed, args.repo)
    if args.cmd == "replay":
        with open(args.file) as f:
            rec = json.load(f)
        rc = run_property(rec["property"], "quick", seed)
        print(f"replayed obligation {rec['key']}: see evidence/{rec['property']}.json")
        return rc
    if args.cmd == "all":
        from sa.rules import props
        worst = 0
        for pid in sorted(props.PROPS):
            rc = run_property(pid, args.tier, seed, args.repo)
            worst = max(worst, rc)
        return worst


if __name__ == "__main__":
    sys.exit(main())
