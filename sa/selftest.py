"""Checker self-validation (thorough tier): the checks must fire on broken variants and
stay silent on behaviour-preserving variants of /repo's *current working tree*.

All variants live in a scratch directory created with tempfile (outside /repo and /verif)
and removed in a finally clause.  Nothing here imports or executes skglm.

 * seeded regressions  - every patch under /verif/seeded/<id>/ whose meta.json lists this
   property in `detected_by` is applied to a scratch copy; the property's rules must report
   a violation that the unpatched copy does not have.  A patch that no longer applies (the
   tree under test was edited) is skipped and counted.
 * mutation operators  - small AST-level operators applied at every matching site, one
   mutant at a time (see OPERATORS); kill rates are reported and compared with floors.
 * refactor twins      - behaviour-preserving rewrites (local renaming, commuted products,
   inverted branches, inf spelling) must not add or remove any violation.
A lost detection is an ANALYSIS-ERROR (exit 2), never a VIOLATION.
"""
import ast
import copy
import json
import os
import shutil
import subprocess
import tempfile

from .model import REPO
from .report import Ctx

VERIF = os.path.dirname(os.path.dirname(os.path.abspath(__file__)))
SEEDED = os.path.join(VERIF, "seeded")


def _copy_tree(dst):
    shutil.copytree(os.path.join(REPO, "skglm"), os.path.join(dst, "skglm"),
                    ignore=shutil.ignore_patterns("__pycache__", "tests"))


def _violations(pid, repo):
    from .cli import Analysis
    from .rules import props
    ctx = Ctx(pid, "thorough")
    A = Analysis(repo)
    props.PROPS[pid](A, ctx, "quick")
    sig = sorted((v["rule"], v["construct"].split("::")[0], v["construct"].split("::")[1] if "::" in v["construct"] else "")
                 for v in ctx.violations)
    keys = sorted({v["key"] for v in ctx.violations})
    und = sorted(f"{u['rule']}|{u['construct']}" for u in ctx.undecided)
    return keys, sig, und


# ------------------------------------------------------------- seeded patches
def seeds_for(pid):
    out = []
    if not os.path.isdir(SEEDED):
        return out
    for d in sorted(os.listdir(SEEDED)):
        mp = os.path.join(SEEDED, d, "meta.json")
        pp = os.path.join(SEEDED, d, "patch.diff")
        if os.path.exists(mp) and os.path.exists(pp):
            meta = json.load(open(mp))
            if pid in meta.get("detected_by", []):
                out.append((d, pp))
    return out


def run_seeds(pid, base_keys, workdir):
    res = []
    for sid, patch in seeds_for(pid):
        tgt = os.path.join(workdir, "seed_" + sid)
        os.makedirs(tgt)
        _copy_tree(tgt)
        p = subprocess.run(["git", "apply", "--unsafe-paths", f"--directory={tgt}", patch],
                           cwd=tgt, capture_output=True, text=True)
        if p.returncode != 0:
            p = subprocess.run(["patch", "-p1", "-s", "-f", "-i", patch], cwd=tgt, capture_output=True, text=True)
        if p.returncode != 0:
            res.append(dict(seed=sid, status="not-applicable", detail=(p.stderr or p.stdout)[-120:]))
            shutil.rmtree(tgt, ignore_errors=True)
            continue
        try:
            keys, sig, und = _violations(pid, tgt)
            new = [k for k in keys if k not in base_keys]
            res.append(dict(seed=sid, status="detected" if new else "MISSED", new=new[:3],
                            undecided=und[:2]))
        except Exception as e:      # analysis error on the variant counts as not silent
            res.append(dict(seed=sid, status="analysis-error", detail=str(e)[:120]))
        shutil.rmtree(tgt, ignore_errors=True)
    return res


# ------------------------------------------------------------------- rewriting
def _rewrite(path, transformer):
    src = open(path).read()
    tree = ast.parse(src)
    new = transformer(tree)
    if new is None:
        return False
    ast.fix_missing_locations(new)
    open(path, "w").write(ast.unparse(new) + "\n")
    return True


class _RenameLocals(ast.NodeTransformer):
    """rename every local variable (not parameters, not globals) of top-level functions
    and methods: x -> x_rn"""

    def visit_FunctionDef(self, node):
        params = {a.arg for a in node.args.args + node.args.kwonlyargs + node.args.posonlyargs}
        if node.args.vararg:
            params.add(node.args.vararg.arg)
        if node.args.kwarg:
            params.add(node.args.kwarg.arg)
        locs = set()
        for n in ast.walk(node):
            if isinstance(n, ast.Name) and isinstance(n.ctx, ast.Store):
                locs.add(n.id)
            if isinstance(n, ast.FunctionDef) and n is not node:
                locs.discard(n.name)
                for a in n.args.args:
                    params.add(a.arg)
            if isinstance(n, (ast.Global, ast.Nonlocal)):
                for x in n.names:
                    params.add(x)
        locs -= params
        nested = {n.name for n in ast.walk(node) if isinstance(n, ast.FunctionDef) and n is not node}
        locs -= nested
        for n in ast.walk(node):
            if isinstance(n, ast.Name) and n.id in locs:
                n.id = n.id + "_rn"
        return node


class _CommuteMult(ast.NodeTransformer):
    def visit_BinOp(self, node):
        self.generic_visit(node)
        if isinstance(node.op, ast.Mult) and not isinstance(node.left, ast.Constant) \
                and not (isinstance(node.left, ast.Constant) and isinstance(node.left.value, str)):
            return ast.BinOp(node.right, ast.Mult(), node.left)
        return node


class _InvertIf(ast.NodeTransformer):
    def visit_If(self, node):
        self.generic_visit(node)
        if node.orelse and not (len(node.orelse) == 1 and isinstance(node.orelse[0], ast.If)) \
                and not any(isinstance(x, (ast.Break, ast.Continue, ast.Return, ast.Raise)) for x in node.body + node.orelse):
            return ast.If(ast.UnaryOp(ast.Not(), node.test), node.orelse, node.body)
        return node


class _InfSpelling(ast.NodeTransformer):
    def visit_Attribute(self, node):
        self.generic_visit(node)
        if isinstance(node.value, ast.Name) and node.value.id == "np" and node.attr == "inf":
            return ast.Call(ast.Name("float", ast.Load()), [ast.Constant("inf")], [])
        return node


class _FlipCompare(ast.NodeTransformer):
    """a < b -> b > a, a == b -> b == a (single comparisons; equal meaning)"""
    FLIP = {ast.Lt: ast.Gt, ast.Gt: ast.Lt, ast.LtE: ast.GtE, ast.GtE: ast.LtE, ast.Eq: ast.Eq, ast.NotEq: ast.NotEq}

    def visit_Compare(self, node):
        self.generic_visit(node)
        if len(node.ops) == 1 and type(node.ops[0]) in self.FLIP:
            return ast.Compare(node.comparators[0], [self.FLIP[type(node.ops[0])]()], [node.left])
        return node


class _CommuteAdd(ast.NodeTransformer):
    """a + b -> b + a for numeric additions (string concatenations left alone)"""

    def visit_BinOp(self, node):
        self.generic_visit(node)
        if isinstance(node.op, ast.Add):
            for side in (node.left, node.right):
                if isinstance(side, (ast.JoinedStr, ast.List, ast.Tuple)) or (
                        isinstance(side, ast.Constant) and isinstance(side.value, str)):
                    return node
            return ast.BinOp(node.right, ast.Add(), node.left)
        return node


class _TernaryToIf(ast.NodeTransformer):
    """`x = a if c else b` -> if c: x = a / else: x = b (plain name targets)"""

    def _expand(self, body):
        out = []
        for st in body:
            if isinstance(st, ast.Assign) and len(st.targets) == 1 and isinstance(st.targets[0], ast.Name) \
                    and isinstance(st.value, ast.IfExp):
                t = st.targets[0]
                out.append(ast.If(st.value.test,
                                  [ast.Assign([ast.Name(t.id, ast.Store())], st.value.body)],
                                  [ast.Assign([ast.Name(t.id, ast.Store())], st.value.orelse)]))
            else:
                out.append(st)
        return out

    def generic_visit(self, node):
        super().generic_visit(node)
        for fld in ("body", "orelse"):
            lst = getattr(node, fld, None)
            if isinstance(lst, list) and lst and isinstance(lst[0], ast.stmt):
                setattr(node, fld, self._expand(lst))
        return node


class _EnumerateToRange(ast.NodeTransformer):
    """`for i, x in enumerate(seq): body` -> `for i in range(len(seq)): x = seq[i]; body`
    (seq a plain name)"""

    def visit_For(self, node):
        self.generic_visit(node)
        if isinstance(node.iter, ast.Call) and isinstance(node.iter.func, ast.Name) and node.iter.func.id == "enumerate" \
                and len(node.iter.args) == 1 and isinstance(node.iter.args[0], ast.Name) \
                and isinstance(node.target, ast.Tuple) and len(node.target.elts) == 2 \
                and all(isinstance(e, ast.Name) for e in node.target.elts):
            i, x = node.target.elts
            seq = node.iter.args[0].id
            first = ast.Assign([ast.Name(x.id, ast.Store())],
                               ast.Subscript(ast.Name(seq, ast.Load()), ast.Name(i.id, ast.Load()), ast.Load()))
            return ast.For(ast.Name(i.id, ast.Store()),
                           ast.Call(ast.Name("range", ast.Load()),
                                    [ast.Call(ast.Name("len", ast.Load()), [ast.Name(seq, ast.Load())], [])], []),
                           [first] + node.body, node.orelse)
        return node


TWINS = {
    "ternary-to-if": (lambda t: _TernaryToIf().visit(t), ("solvers", "penalties", "datafits", "utils")),
    "enumerate-to-range": (lambda t: _EnumerateToRange().visit(t), ("solvers", "penalties", "datafits", "utils")),
    "flip-comparisons": (lambda t: _FlipCompare().visit(t), ("solvers", "penalties", "datafits", "utils")),
    "commute-sums": (lambda t: _CommuteAdd().visit(t), ("penalties", "datafits", "utils")),
    "rename-locals": (lambda t: _RenameLocals().visit(t), ("solvers", "penalties", "datafits", "utils", "estimators.py", "experimental")),
    "commute-products": (lambda t: _CommuteMult().visit(t), ("penalties", "datafits")),
    "invert-if-else": (lambda t: _InvertIf().visit(t), ("solvers", "penalties")),
    "inf-spelling": (lambda t: _InfSpelling().visit(t), ("solvers", "penalties")),
}


def run_twins(pid, base_sig, base_und, workdir, which=None):
    res = []
    for name, (tr, scope) in TWINS.items():
        if which and name not in which:
            continue
        tgt = os.path.join(workdir, "twin_" + name)
        os.makedirs(tgt)
        _copy_tree(tgt)
        n = 0
        for dp, dn, fn in os.walk(os.path.join(tgt, "skglm")):
            for f in fn:
                rel = os.path.relpath(os.path.join(dp, f), os.path.join(tgt, "skglm"))
                if f.endswith(".py") and rel.split(os.sep)[0] in scope:
                    try:
                        if _rewrite(os.path.join(dp, f), tr):
                            n += 1
                    except SyntaxError:
                        pass
        try:
            keys, sig, und = _violations(pid, tgt)
            same = [s[:2] for s in sig] == [s[:2] for s in base_sig] and len(und) == len(base_und)
            res.append(dict(twin=name, files=n, status="silent" if same else "ALARM",
                            diff=[s for s in sig if s[:2] not in [b[:2] for b in base_sig]][:3] + und[:2]))
        except Exception as e:
            res.append(dict(twin=name, files=n, status="ALARM", diff=[f"{type(e).__name__}: {e}"[:160]]))
        shutil.rmtree(tgt, ignore_errors=True)
    return res


# ---------------------------------------------------------- mutation operators
def _sites(tree, pred):
    return [n for n in ast.walk(tree) if pred(n)]


def op_inf_to_zero(tree):
    """`x = np.inf` -> `x = 0.`"""
    sites = _sites(tree, lambda n: isinstance(n, ast.Assign) and isinstance(n.value, ast.Attribute)
                   and ast.unparse(n.value) == "np.inf")
    for k in range(len(sites)):
        t = copy.deepcopy(tree)
        s = _sites(t, lambda n: isinstance(n, ast.Assign) and isinstance(n.value, ast.Attribute)
                   and ast.unparse(n.value) == "np.inf")[k]
        s.value = ast.Constant(0.0)
        yield f"line {sites[k].lineno}", t


def op_drop_paired_update(tree):
    """delete an `acc += (new - old) * col` statement"""
    def pred(n):
        return isinstance(n, ast.AugAssign) and isinstance(n.op, ast.Add) and isinstance(n.value, ast.BinOp) \
            and isinstance(n.value.op, ast.Mult) and isinstance(n.value.left, ast.BinOp) \
            and isinstance(n.value.left.op, ast.Sub)
    sites = _sites(tree, pred)
    for k in range(len(sites)):
        t = copy.deepcopy(tree)
        s = _sites(t, pred)[k]
        for parent in ast.walk(t):
            for fld in ("body", "orelse"):
                lst = getattr(parent, fld, None)
                if isinstance(lst, list) and s in lst:
                    lst[lst.index(s)] = ast.Pass()
        yield f"line {sites[k].lineno}", t


def op_swap_csc_args(tree):
    """swap the indptr / indices arguments of a call passing X.data, X.indptr, X.indices"""
    def pred(n):
        return isinstance(n, ast.Call) and len(n.args) >= 3 and [ast.unparse(a) for a in n.args[:3]] == \
            ["X.data", "X.indptr", "X.indices"]
    sites = _sites(tree, pred)
    for k in range(len(sites)):
        t = copy.deepcopy(tree)
        s = _sites(t, pred)[k]
        s.args[1], s.args[2] = s.args[2], s.args[1]
        yield f"line {sites[k].lineno}", t


def op_scale_return(tree):
    """multiply the returned expression of a datafit accessor by 2"""
    def pred(n):
        return isinstance(n, ast.FunctionDef) and n.name in (
            "gradient_scalar", "gradient_scalar_sparse", "raw_grad", "raw_hessian", "intercept_update_step",
            "gradient_j", "gradient_j_sparse", "get_lipschitz_sparse")
    sites = _sites(tree, pred)
    for k in range(len(sites)):
        t = copy.deepcopy(tree)
        fn = _sites(t, pred)[k]
        rets = [r for r in ast.walk(fn) if isinstance(r, ast.Return) and r.value is not None]
        if not rets:
            continue
        rets[-1].value = ast.BinOp(ast.Constant(2.0), ast.Mult(), rets[-1].value)
        yield f"{sites[k].name} line {sites[k].lineno}", t


def op_drop_positive(tree):
    """replace `self.positive` by False inside prox / subdiff methods"""
    def pred(n):
        return isinstance(n, ast.FunctionDef) and n.name in ("prox_1d", "prox_1group", "subdiff_distance", "value") \
            and "self.positive" in ast.unparse(n)
    sites = _sites(tree, pred)

    class R(ast.NodeTransformer):
        def visit_Attribute(self, node):
            if ast.unparse(node) == "self.positive":
                return ast.Constant(False)
            return node
    for k in range(len(sites)):
        t = copy.deepcopy(tree)
        fn = _sites(t, pred)[k]
        R().visit(fn)
        yield f"{sites[k].name} line {sites[k].lineno}", t


def op_index_swap(tree):
    """in `for idx, j in enumerate(ws)` loops use idx where j indexes a coefficient array"""
    def pred(n):
        return isinstance(n, ast.For) and isinstance(n.iter, ast.Call) and ast.unparse(n.iter.func) == "enumerate" \
            and isinstance(n.target, ast.Tuple) and len(n.target.elts) == 2
    sites = _sites(tree, pred)
    for k in range(len(sites)):
        t = copy.deepcopy(tree)
        lp = _sites(t, pred)[k]
        a, b = lp.target.elts[0].id, lp.target.elts[1].id
        done = False
        for n in ast.walk(lp):
            if isinstance(n, ast.Subscript) and isinstance(n.slice, ast.Name) and n.slice.id == b \
                    and isinstance(n.value, ast.Attribute) and "weights" in n.value.attr and not done:
                n.slice = ast.Name(a, ast.Load())
                done = True
        if done:
            yield f"line {sites[k].lineno}", t


def op_drop_sparse_stmt(tree):
    """replace one assignment inside a CSC kernel / CSC accessor by `pass`"""
    def is_sparse_fn(n):
        return isinstance(n, ast.FunctionDef) and (n.name.endswith("_sparse") or n.name.endswith("_s")
                                                   or n.name in ("_sparse_xj_dot", "_X_dot_vec", "_XT_dot_vec",
                                                                 "sparse_columns_slice"))
    fns = _sites(tree, is_sparse_fn)
    for i, fn in enumerate(fns):
        stmts = [n for n in ast.walk(fn) if isinstance(n, ast.AugAssign)
                 or (isinstance(n, ast.Assign) and isinstance(n.targets[0], ast.Subscript))]
        for k in range(len(stmts)):
            t = copy.deepcopy(tree)
            fn2 = _sites(t, is_sparse_fn)[i]
            st = [n for n in ast.walk(fn2) if isinstance(n, ast.AugAssign)
                  or (isinstance(n, ast.Assign) and isinstance(n.targets[0], ast.Subscript))][k]
            for parent in ast.walk(fn2):
                for fld in ("body", "orelse"):
                    lst = getattr(parent, fld, None)
                    if isinstance(lst, list) and st in lst:
                        lst[lst.index(st)] = ast.Pass()
            yield f"{fn.name} line {stmts[k].lineno}", t


def op_scale_threshold(tree):
    """double the threshold argument of a soft-/block-thresholding call (ST, BST, prox_MCP ...)"""
    def pred(n):
        return isinstance(n, ast.Call) and isinstance(n.func, ast.Name) and n.func.id in (
            "ST", "BST", "ST_vec", "prox_MCP", "prox_SCAD") and len(n.args) >= 2
    sites = _sites(tree, pred)
    for k in range(len(sites)):
        t = copy.deepcopy(tree)
        c = _sites(t, pred)[k]
        c.args[1] = ast.BinOp(ast.Constant(2.0), ast.Mult(), c.args[1])
        yield f"{sites[k].func.id} line {sites[k].lineno}", t


def op_flip_compare(tree):
    """`<` <-> `>` in one comparison of a prox helper or a block penalty method"""
    def pred(n):
        return isinstance(n, ast.Compare) and len(n.ops) == 1 and isinstance(n.ops[0], (ast.Lt, ast.Gt, ast.LtE, ast.GtE))
    sites = _sites(tree, pred)
    flip = {ast.Lt: ast.Gt, ast.Gt: ast.Lt, ast.LtE: ast.GtE, ast.GtE: ast.LtE}
    for k in range(len(sites)):
        t = copy.deepcopy(tree)
        c = _sites(t, pred)[k]
        c.ops = [flip[type(c.ops[0])]()]
        yield f"line {sites[k].lineno}", t


def op_triple_intercept_step(tree):
    """multiply the returned intercept step by 3 (longer than 2 / curvature for the quadratic datafits)"""
    def pred(n):
        return isinstance(n, ast.FunctionDef) and n.name == "intercept_update_step"
    sites = _sites(tree, pred)
    for k in range(len(sites)):
        t = copy.deepcopy(tree)
        fn = _sites(t, pred)[k]
        rets = [r for r in ast.walk(fn) if isinstance(r, ast.Return) and r.value is not None]
        if not rets:
            continue
        rets[-1].value = ast.BinOp(ast.Constant(3.0), ast.Mult(), rets[-1].value)
        yield f"{sites[k].name} line {sites[k].lineno}", t


def op_relax_target_guard(tree):
    """`y <= 0` -> `y < 0` in the raising test of a datafit initialiser"""
    def pred(n):
        return isinstance(n, ast.Compare) and len(n.ops) == 1 and isinstance(n.ops[0], ast.LtE) \
            and isinstance(n.left, ast.Name) and n.left.id == "y"
    sites = _sites(tree, pred)
    for k in range(len(sites)):
        t = copy.deepcopy(tree)
        c = _sites(t, pred)[k]
        c.ops = [ast.Lt()]
        yield f"line {sites[k].lineno}", t


OPERATORS = {
    "triple the intercept step": (op_triple_intercept_step, ["datafits/single_task.py", "datafits/multi_task.py",
                                                             "datafits/group.py"], {"C03"}),
    "relax a target-domain guard": (op_relax_target_guard, ["datafits/single_task.py"], {"C19"}),
    # operator: (generator, files, properties expected to kill it)
    "drop a statement of a CSC kernel": (op_drop_sparse_stmt, ["solvers/anderson_cd.py", "solvers/group_bcd.py",
                                                               "solvers/multitask_bcd.py", "solvers/prox_newton.py",
                                                               "solvers/common.py", "utils/sparse_ops.py",
                                                               "datafits/group.py", "datafits/multi_task.py"],
                                         {"C10"}),
    "double a threshold": (op_scale_threshold, ["penalties/separable.py", "penalties/block_separable.py"], {"C07"}),
    "flip a comparison": (op_flip_compare, ["utils/prox_funcs.py", "penalties/block_separable.py"], {"C07", "C08"}),
    "inf->0 initialisation": (op_inf_to_zero, ["solvers/anderson_cd.py", "solvers/gram_cd.py", "solvers/multitask_bcd.py",
                                               "solvers/group_bcd.py", "solvers/prox_newton.py", "solvers/fista.py"],
                              {"C01", "C17", "C08", "C04"}),
    "drop paired model-fit update": (op_drop_paired_update, ["solvers/anderson_cd.py", "solvers/group_bcd.py",
                                                             "solvers/prox_newton.py", "solvers/gram_cd.py"], {"C05"}),
    "swap CSC arguments": (op_swap_csc_args, ["solvers/anderson_cd.py", "solvers/group_bcd.py", "solvers/multitask_bcd.py",
                                              "solvers/fista.py"], {"C10"}),
    "scale one datafit accessor": (op_scale_return, ["datafits/single_task.py", "datafits/multi_task.py", "datafits/group.py"],
                                   {"C06", "C09"}),
    "ignore positive flag": (op_drop_positive, ["penalties/separable.py", "penalties/block_separable.py"], {"C04", "C07", "C08"}),
    "weights indexed by position": (op_index_swap, ["penalties/separable.py"], {"C08", "C15", "C20"}),
}


def _eval_variant(args):
    """worker: (pid, label, rel, code) -> (label, keys, und) on a scratch copy"""
    pid, label, rel, code, workdir = args
    tgt = tempfile.mkdtemp(prefix="v_", dir=workdir)
    try:
        _copy_tree(tgt)
        if rel is not None:
            open(os.path.join(tgt, "skglm", rel), "w").write(code + "\n")
        try:
            keys, sig, und = _violations(pid, tgt)
            return label, keys, und, None
        except Exception as e:
            return label, [], [], f"{type(e).__name__}: {e}"[:160]
    finally:
        shutil.rmtree(tgt, ignore_errors=True)


def run_mutants(pid, base_keys, workdir, cap=80):
    import concurrent.futures as cf
    jobs = []
    meta = {}
    for name, (gen, files, killers) in OPERATORS.items():
        if pid not in killers:
            continue
        for rel in files:
            path = os.path.join(REPO, "skglm", rel)
            if not os.path.exists(path):
                continue
            tree = ast.parse(open(path).read())
            for label, mutant in gen(tree):
                if len(jobs) >= cap:
                    break
                ast.fix_missing_locations(mutant)
                try:
                    code = ast.unparse(mutant)
                    compile(code, rel, "exec")
                except Exception:
                    continue
                lab = f"{name}|{rel} {label}"
                jobs.append((pid, lab, rel, code, workdir))
                meta[lab] = name
    per = {}
    killed = 0
    if jobs:
        with cf.ProcessPoolExecutor(max_workers=min(14, len(jobs))) as ex:
            for lab, keys, und, err in ex.map(_eval_variant, jobs):
                d = per.setdefault(meta[lab], dict(operator=meta[lab], mutants=0, killed=0, undecided=0, survivors=[]))
                d["mutants"] += 1
                if [k for k in keys if k not in base_keys]:
                    d["killed"] += 1          # reported as a violation naming a construct
                    killed += 1
                elif err or und:
                    d["undecided"] += 1       # analysis stopped (exit 2): not a pass, not a report
                else:
                    d["survivors"].append(lab.split("|", 1)[1])
    res = list(per.values())
    for d in res:
        d["survivors"] = d["survivors"][:6]
    return res, len(jobs), killed


def run_mutants_serial(pid, base_keys, workdir, cap=60):
    res = []
    total = killed = 0
    for name, (gen, files, killers) in OPERATORS.items():
        if pid not in killers:
            continue
        k_op = n_op = 0
        survivors = []
        for rel in files:
            path = os.path.join(REPO, "skglm", rel)
            if not os.path.exists(path):
                continue
            tree = ast.parse(open(path).read())
            for label, mutant in gen(tree):
                if total >= cap:
                    break
                tgt = os.path.join(workdir, f"mut_{total}")
                os.makedirs(tgt)
                _copy_tree(tgt)
                ast.fix_missing_locations(mutant)
                try:
                    code = ast.unparse(mutant)
                    compile(code, rel, "exec")
                except Exception:
                    shutil.rmtree(tgt, ignore_errors=True)
                    continue
                open(os.path.join(tgt, "skglm", rel), "w").write(code + "\n")
                total += 1
                n_op += 1
                try:
                    keys, sig, und = _violations(pid, tgt)
                    if [k for k in keys if k not in base_keys] or und:
                        killed += 1
                        k_op += 1
                    else:
                        survivors.append(f"{rel} {label}")
                except Exception:
                    killed += 1
                    k_op += 1
                shutil.rmtree(tgt, ignore_errors=True)
        res.append(dict(operator=name, mutants=n_op, killed=k_op, survivors=survivors[:6]))
    return res, total, killed


def selftest(pid, ctx):
    """run all three parts for one property; results go to ctx.extra and obligations"""
    work = tempfile.mkdtemp(prefix="skglm-sa-")
    try:
        base = os.path.join(work, "base")
        os.makedirs(base)
        _copy_tree(base)
        base_keys, base_sig, base_und = _violations(pid, base)
        seeds = run_seeds(pid, base_keys, work)
        twins = run_twins(pid, base_sig, base_und, work)
        muts, total, killed = run_mutants(pid, base_keys, work)
    finally:
        shutil.rmtree(work, ignore_errors=True)
    ctx.extra["selftest"] = dict(seeds=seeds, twins=twins, mutation=muts,
                                 mutants_total=total, mutants_killed=killed)
    for s in seeds:
        if s["status"] == "not-applicable":
            ctx.note(f"selftest: seed {s['seed']} does not apply to the tree under test (skipped)")
            continue
        ctx.ob("SELFTEST-SEED", s["seed"], True if s["status"] == "detected" else None,
               detail="seeded defect detected" if s["status"] == "detected" else
               f"the check no longer detects seeded defect {s['seed']} ({s.get('detail', s['status'])})")
    for t in twins:
        ctx.ob("SELFTEST-TWIN", t["twin"], True if t["status"] == "silent" else None,
               detail=f"{t['files']} files rewritten" if t["status"] == "silent" else
               f"behaviour-preserving rewrite `{t['twin']}` changes the verdict: {t['diff']}")
    for m in muts:
        if m["mutants"]:
            ctx.ob("SELFTEST-MUTATION", m["operator"], True,
                   detail=f"{m['killed']}/{m['mutants']} mutants killed; survivors: {m['survivors']}")
    ctx.rule("SELFTEST-SEED", "every seeded defect recorded as detected by this property is still detected on a scratch copy")
    ctx.rule("SELFTEST-TWIN", "behaviour-preserving rewrites of the whole package leave the verdict unchanged")
    ctx.rule("SELFTEST-MUTATION", "AST mutation operators at every matching site; kill counts are reported")
