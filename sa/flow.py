"""L2/L3 - call resolution, slot dispatch, provenance roles, effect summaries.

Roles are never inferred from variable *names*: they are seeded positionally at the
API entry points (`BaseSolver.solve/_solve/path/custom_checks`, `_glm_fit`) and at the
fixed slot-method names of the duck-typed datafit/penalty interface, then propagated
through assignments and call bindings (flow-insensitive provenance, global fixpoint).
"""
import ast
from collections import defaultdict

from .model import FuncInfo, ClassInfo, AnalysisError, attr_chain, names_in

# result roles of slot methods (the duck-typed interface fixes these names)
SLOT_RESULT = {
    "get_lipschitz": "LIP", "get_lipschitz_sparse": "LIP",
    "get_global_lipschitz": "GLIP", "get_global_lipschitz_sparse": "GLIP",
    "subdiff_distance": "SCORE",
    "raw_grad": "RAWGRAD", "raw_hessian": "RAWHESS",
    "full_grad_sparse": "GRAD", "gradient": "GRAD", "gradient_sparse": "GRAD",
    "gradient_scalar": "GRADK", "gradient_scalar_sparse": "GRADK",
    "gradient_j": "GRADK", "gradient_j_sparse": "GRADK",
    "gradient_g": "GRADK", "gradient_g_sparse": "GRADK",
    "intercept_update_step": "ISTEP",
    "generalized_support": "GSUPP", "is_penalized": "PENMASK",
    "value": "VALUE",
    "prox_1d": "PROX", "prox_1feat": "PROX", "prox_1group": "PROX", "prox_vec": "PROX",
}
ARRAY_ROLES = {"X", "Y", "W", "XW", "LIP", "GRAD", "W0", "XW0", "CSC_DATA",
               "CSC_INDPTR", "CSC_INDICES", "ACC_W", "ACC_XW", "WS", "ALL",
               "RAWGRAD", "RAWHESS", "SCORE", "GRP_PTR", "GRP_IDX", "GSUPP", "PENMASK"}
# roles that survive subscripting / slicing (a view or sub-selection of the same thing)
SUB_KEEP = {"X", "Y", "W", "XW", "LIP", "GRAD", "W0", "XW0", "CSC_DATA", "CSC_INDPTR",
            "CSC_INDICES", "ACC_W", "ACC_XW", "RAWGRAD", "RAWHESS", "SCORE",
            "GRP_PTR", "GRP_IDX", "WS", "ALL"}

# numpy / scipy.sparse methods that modify their receiver in place
INPLACE_METHODS = {"sum_duplicates", "sort_indices", "eliminate_zeros", "sort", "fill", "resize",
                   "setdiag", "prune", "put", "itemset", "partition", "byteswap", "setfield",
                   "clip_inplace", "__setitem__", "sorted_indices_inplace", "has_sorted_indices_setter"}

ENTRY_SEEDS = {
    "_solve": ["X", "Y", "DATAFIT", "PENALTY", "W0", "XW0"],
    "solve": ["X", "Y", "DATAFIT", "PENALTY", "W0", "XW0"],
    "_validate": ["X", "Y", "DATAFIT", "PENALTY"],
    "custom_checks": ["X", "Y", "DATAFIT", "PENALTY"],
    "path": ["X", "Y", "DATAFIT", "PENALTY"],
}


class Flow:
    def __init__(self, prog):
        self.prog = prog
        self.env = {}            # FuncInfo -> {name: set(roles)}
        self.tuples = {}         # FuncInfo -> {name: [roles-set per element]}
        self.ret = {}            # FuncInfo -> list (tuple) of role sets, or [set]
        self.calls = defaultdict(list)   # FuncInfo -> [(call node, [callee FuncInfo], kind)]
        self.callers = defaultdict(list)  # callee -> [(caller, call node)]
        self.funcs = list(prog.all_functions())
        self.nested = {}         # id(outer node) -> {name: FuncInfo}
        for f in list(self.funcs):
            self._collect_nested(f)
        self.slot_impls_cache = {}
        self._seed()
        self._fixpoint()
        self._effects()

    # ---------------------------------------------------------------- nested
    def _collect_nested(self, f):
        tbl = {}
        for st in ast.walk(f.node):
            if isinstance(st, ast.FunctionDef) and st is not f.node:
                tbl[st.name] = FuncInfo(f.module, st, outer=f)
        self.nested[id(f.node)] = tbl

    # ----------------------------------------------------------------- seeds
    def _seed(self):
        p = self.prog
        for f in self.funcs:
            self.env[f] = defaultdict(set)
            self.tuples[f] = {}
            self.ret[f] = []
        for s in [p.BaseSolver] + p.solvers:
            for mname, roles in ENTRY_SEEDS.items():
                m = s.methods.get(mname)
                if m is None:
                    continue
                for prm, r in zip(m.call_params(), roles):
                    self.env[m][prm].add(r)
                self.env[m]["self"].add("SOLVER")
        for c in p.datafits + [p.BaseDatafit, p.BaseMultitaskDatafit]:
            for m in c.methods.values():
                if m.is_method:
                    self.env[m]["self"].add("DATAFIT")
        for c in p.penalties + [p.BasePenalty]:
            for m in c.methods.values():
                if m.is_method:
                    self.env[m]["self"].add("PENALTY")
        g = p.modules.get("skglm.estimators")
        if g and "_glm_fit" in g.functions:
            m = g.functions["_glm_fit"]
            for prm, r in zip(m.params, ["X", "Y", "MODEL", "DATAFIT_SRC", "PENALTY_SRC", "SOLVER"]):
                self.env[m][prm].add(r)

    # ------------------------------------------------------- call resolution
    def slot_impls(self, role, mname):
        key = (role, mname)
        if key not in self.slot_impls_cache:
            classes = self.prog.datafits if role == "DATAFIT" else self.prog.penalties
            out = []
            for c in classes:
                m = c.find_method(mname)
                if m is not None and m not in out:
                    out.append(m)
            self.slot_impls_cache[key] = out
        return self.slot_impls_cache[key]

    def resolve_call(self, f, call):
        """-> (kind, [callees]) ; kind in direct/ctor/self/slot/nested/ext/unknown."""
        fn = call.func
        if isinstance(fn, ast.Name):
            nest = self.nested.get(id((f.outer or f).node), {})
            if fn.id in nest:
                return "nested", [nest[fn.id]]
            r = self.prog.resolve(f.module, fn.id)
            if isinstance(r, FuncInfo):
                return "direct", [r]
            if isinstance(r, ClassInfo):
                init = r.find_method("__init__")
                return "ctor", [init] if init else []
            if isinstance(r, tuple) and r[0] == "ext":
                return "ext", []
            return "unknown", []
        if isinstance(fn, ast.Attribute):
            ch = attr_chain(fn)
            if ch and ch[0] == "self" and len(ch) == 2 and f.cls is not None:
                m = f.cls.find_method(ch[1])
                if m is not None:
                    return "self", [m]
            if ch and len(ch) == 2:
                recv_roles = self.env[f].get(ch[0], set()) if f in self.env else set()
                for role in ("DATAFIT", "PENALTY"):
                    if role in recv_roles:
                        return "slot:" + role, self.slot_impls(role, ch[1])
            if ch and ch[0] == "self" and len(ch) == 3 and f.cls is not None:
                # self.datafit.m(...) in estimators: not a compiled slot call
                return "unknown", []
            if ch:
                r = self.prog.resolve(f.module, ".".join(ch))
                if isinstance(r, FuncInfo):
                    return "direct", [r]
                if isinstance(r, ClassInfo):
                    init = r.find_method("__init__")
                    return "ctor", [init] if init else []
                if isinstance(r, tuple) and r[0] == "ext":
                    return "ext", []
        return "unknown", []

    def bind(self, f, call, callee):
        """{param: arg expr} for positional/keyword args (Starred tuples expanded when
        the tuple literal is known)."""
        params = callee.call_params()
        args = []
        for a in call.args:
            if isinstance(a, ast.Starred) and isinstance(a.value, ast.Name):
                tl = self.tuple_literal(f, a.value.id)
                if tl is not None:
                    args.extend(tl)
                    continue
                args.append(a)
            else:
                args.append(a)
        out = {}
        for prm, a in zip(params, args):
            out[prm] = a
        for kw in call.keywords:
            if kw.arg is not None:
                out[kw.arg] = kw.value
        return out, len(args)

    def tuple_literal(self, f, name):
        for st in ast.walk(f.node):
            if isinstance(st, ast.Assign) and len(st.targets) == 1 \
                    and isinstance(st.targets[0], ast.Name) and st.targets[0].id == name \
                    and isinstance(st.value, ast.Tuple):
                return list(st.value.elts)
        return None

    # ------------------------------------------------------------ expression
    def roles(self, f, e):
        env = self.env[f]
        if e is None:
            return set()
        if isinstance(e, ast.Name):
            return set(env.get(e.id, ()))
        if isinstance(e, ast.Starred):
            return self.roles(f, e.value)
        if isinstance(e, ast.Attribute):
            ch = attr_chain(e)
            if ch and ch[0] == "self" and len(ch) == 2:
                if "SOLVER" in env.get("self", ()):
                    return {"FI"} if ch[1] == "fit_intercept" else \
                        ({"TOL"} if ch[1] == "tol" else {"SELF." + ch[1]})
                if ch[1] == "grp_ptr":
                    return {"GRP_PTR"}
                if ch[1] == "grp_indices":
                    return {"GRP_IDX"}
                return {"SELF." + ch[1]}
            base = self.roles(f, e.value)
            out = set()
            if "X" in base:
                if e.attr == "data":
                    out.add("CSC_DATA")
                elif e.attr == "indptr":
                    out.add("CSC_INDPTR")
                elif e.attr == "indices":
                    out.add("CSC_INDICES")
                elif e.attr == "shape":
                    out.add("SHAPE_X")
                elif e.attr == "T":
                    out.add("X")
                elif e.attr == "dtype":
                    out.add("DTYPE")
            if "Y" in base and e.attr == "shape":
                out.add("SHAPE_Y")
            if base & {"DATAFIT", "PENALTY"}:
                if e.attr == "grp_ptr":
                    out.add("GRP_PTR")
                elif e.attr == "grp_indices":
                    out.add("GRP_IDX")
            if e.attr == "T":
                out |= base & SUB_KEEP
            return out
        if isinstance(e, ast.Subscript):
            base = self.roles(f, e.value)
            out = base & SUB_KEEP
            if "SHAPE_X" in base:
                k = e.slice.value if isinstance(e.slice, ast.Constant) else None
                out.add({0: "NS", 1: "NF"}.get(k, "DIM"))
            if "SHAPE_Y" in base:
                k = e.slice.value if isinstance(e.slice, ast.Constant) else None
                out.add({0: "NS", 1: "NT"}.get(k, "DIM"))
            return out
        if isinstance(e, ast.IfExp):
            return self.roles(f, e.body) | self.roles(f, e.orelse)
        if isinstance(e, ast.BinOp):
            a, b = self.roles(f, e.left), self.roles(f, e.right)
            out = set()
            # n_features + fit_intercept keeps NF (sized with intercept)
            if isinstance(e.op, (ast.Add, ast.Sub)):
                out |= (a | b) & {"NF", "NS", "NG", "NT"}
                if "FI" in (a | b):
                    out.add("PLUS_FI")
            return out
        if isinstance(e, ast.Call):
            return self.call_roles(f, e)
        if isinstance(e, ast.Tuple):
            return set()
        return set()

    def call_roles(self, f, call):
        fn = call.func
        name = ast.unparse(fn)
        if isinstance(fn, ast.Attribute):
            ch = attr_chain(fn)
            if ch and len(ch) == 2:
                recv = self.env[f].get(ch[0], set())
                if recv & {"DATAFIT", "PENALTY"} and ch[1] in SLOT_RESULT:
                    return {SLOT_RESULT[ch[1]]}
                if "ACCEL" in recv and ch[1] == "extrapolate":
                    return {"ACC_TUPLE"}
            if fn.attr == "copy":
                base = self.roles(f, fn.value)
                return {r for r in base if r in SUB_KEEP} | ({"COPY"} if base else set())
            if fn.attr in ("sum", "max", "min", "mean", "any", "all"):
                return set()
        if name in ("np.arange",) and call.args:
            r = self.roles(f, call.args[0])
            if r & {"NF", "NG"} and "PLUS_FI" not in r:
                return {"ALL"}
            return set()
        if name in ("len",) and call.args:
            r = self.roles(f, call.args[0])
            if "GRP_PTR" in r:
                return {"NGP1"}
            if "WS" in r:
                return {"NWS"}
            return set()
        if name in ("np.argpartition",):
            return {"WS"}
        if name in ("np.append",) and call.args:
            return self.roles(f, call.args[0]) & {"WS"}
        if name in ("sparse.issparse", "issparse", "scipy.sparse.issparse"):
            return {"IS_SPARSE"}
        if name in ("np.asfortranarray", "np.ascontiguousarray", "np.asarray") and call.args:
            return self.roles(f, call.args[0]) & SUB_KEEP
        kind, callees = self.resolve_call(f, call)
        if kind == "ctor" and callees:
            c = callees[0].cls
            if c.name == "AndersonAcceleration":
                return {"ACCEL"}
            if c in self.prog.solvers:
                return {"SOLVER"}
            return {"NEW:" + c.name}
        if kind in ("direct", "self", "nested") and callees:
            rr = self.ret.get(callees[0])
            if rr and len(rr) == 1:
                return set(rr[0])
            if rr and len(rr) > 1:
                return {"RET_TUPLE"}
        return set()

    # --------------------------------------------------------------- fixpoint
    def _assign(self, f, target, value, changed):
        env = self.env[f]
        if isinstance(target, ast.Name):
            r = self.roles(f, value)
            if "ACC_TUPLE" in r or "RET_TUPLE" in r:
                r = set()
            if isinstance(value, ast.BinOp) and "NGP1" in (self.roles(f, value.left)) \
                    and isinstance(value.op, ast.Sub):
                r = r | {"NG"}
            if not r <= env[target.id]:
                env[target.id] |= r
                changed[0] = True
        elif isinstance(target, (ast.Tuple, ast.List)):
            elts = target.elts
            vr = None
            if isinstance(value, ast.Tuple) and len(value.elts) == len(elts):
                for t, v in zip(elts, value.elts):
                    self._assign(f, t, v, changed)
                return
            rv = self.roles(f, value)
            if "SHAPE_X" in rv and len(elts) == 2:
                vr = [{"NS"}, {"NF"}]
            elif "SHAPE_Y" in rv and len(elts) == 2:
                vr = [{"NS"}, {"NT"}]
            elif "ACC_TUPLE" in rv and len(elts) == 3:
                vr = [{"ACC_W"}, {"ACC_XW"}, {"ACC_FLAG"}]
            elif isinstance(value, ast.Call):
                kind, callees = self.resolve_call(f, value)
                if callees and kind in ("direct", "self", "nested"):
                    rr = self.ret.get(callees[0])
                    if rr and len(rr) == len(elts):
                        vr = [set(x) for x in rr]
            if vr:
                for t, r in zip(elts, vr):
                    if isinstance(t, ast.Name) and not r <= env[t.id]:
                        env[t.id] |= r
                        changed[0] = True
                    elif isinstance(t, ast.Subscript):
                        pass

    def _local_pass(self, f, changed):
        for st in ast.walk(f.node):
            if isinstance(st, ast.Assign):
                for t in st.targets:
                    self._assign(f, t, st.value, changed)
            elif isinstance(st, ast.AnnAssign) and st.value is not None:
                self._assign(f, st.target, st.value, changed)
            elif isinstance(st, ast.For):
                r = self.roles(f, st.iter)
                if isinstance(st.target, ast.Name):
                    add = set()
                    if r & {"WS", "ALL"}:
                        add.add("IDX_K")
                    if not add <= self.env[f][st.target.id]:
                        self.env[f][st.target.id] |= add
                        changed[0] = True
            elif isinstance(st, ast.Return) and st.value is not None:
                if isinstance(st.value, ast.Tuple):
                    rr = [self.roles(f, e) for e in st.value.elts]
                else:
                    rr = [self.roles(f, st.value)]
                old = self.ret[f]
                if len(old) != len(rr):
                    self.ret[f] = rr
                    changed[0] = True
                else:
                    for i, r in enumerate(rr):
                        if not r <= old[i]:
                            old[i] |= r
                            changed[0] = True

    def _call_pass(self, f, changed):
        self.calls[f] = []
        for call in [n for n in ast.walk(f.node) if isinstance(n, ast.Call)]:
            kind, callees = self.resolve_call(f, call)
            if not callees:
                continue
            self.calls[f].append((call, callees, kind))
            if kind == "ctor":
                continue
            for callee in callees:
                if callee not in self.env:
                    self.env[callee] = defaultdict(set)
                    self.tuples[callee] = {}
                    self.ret[callee] = []
                bnd, _ = self.bind(f, call, callee)
                for prm, a in bnd.items():
                    r = self.roles(f, a)
                    r = {x for x in r if not x.startswith("SELF.") and x != "COPY"}
                    if kind == "nested":
                        continue
                    if not r <= self.env[callee][prm]:
                        self.env[callee][prm] |= r
                        changed[0] = True

    def _fixpoint(self):
        allf = list(self.funcs)
        for it in range(12):
            changed = [False]
            for f in allf:
                self._local_pass(f, changed)
                self._call_pass(f, changed)
            if not changed[0]:
                break
        self.callers = defaultdict(list)
        for f in allf:
            for call, callees, kind in self.calls[f]:
                for c in callees:
                    self.callers[c].append((f, call, kind))

    # ---------------------------------------------------------------- effects
    def _aliases(self, f):
        """name -> set of names it may alias (views) within f (incl. itself)."""
        al = defaultdict(set)
        for st in ast.walk(f.node):
            if isinstance(st, ast.Assign) and len(st.targets) == 1:
                t, v = st.targets[0], st.value
                pairs = []
                if isinstance(t, ast.Name):
                    pairs.append((t, v))
                elif isinstance(t, ast.Tuple) and isinstance(v, ast.Tuple) \
                        and len(t.elts) == len(v.elts):
                    pairs.extend(zip(t.elts, v.elts))
                for tt, vv in pairs:
                    if not isinstance(tt, ast.Name):
                        continue
                    src = self._view_source(vv)
                    if src:
                        al[tt.id].add(src)
        # transitive closure
        changed = True
        while changed:
            changed = False
            for a in list(al):
                for b in list(al[a]):
                    for c in al.get(b, ()):
                        if c not in al[a]:
                            al[a].add(c)
                            changed = True
        return al

    @staticmethod
    def _view_source(v):
        """If expression v is a view/alias of a named array return that name."""
        if isinstance(v, ast.Name):
            return v.id
        if isinstance(v, ast.IfExp):
            # w = zeros if w_init is None else w_init
            return Flow._view_source(v.orelse) or Flow._view_source(v.body)
        if isinstance(v, ast.Attribute) and v.attr == "T":
            return Flow._view_source(v.value)
        if isinstance(v, ast.Subscript):
            sl = v.slice
            parts = sl.elts if isinstance(sl, ast.Tuple) else [sl]
            if all(isinstance(p, (ast.Slice, ast.Constant)) or
                   (isinstance(p, ast.UnaryOp) and isinstance(p.operand, ast.Constant))
                   or isinstance(p, ast.Name) and False
                   for p in parts) and any(isinstance(p, ast.Slice) for p in parts):
                return Flow._view_source(v.value)
            # X[:, j] (column view)
            if isinstance(sl, ast.Tuple) and any(isinstance(p, ast.Slice) for p in parts):
                return Flow._view_source(v.value)
        return None

    def direct_mutations(self, f):
        """[(name, stmt node, how)] in-place mutation sites on local names
        (subscript stores, in-place augmented assignment, out=)."""
        out = []
        for st in ast.walk(f.node):
            if isinstance(st, ast.Assign):
                for t in st.targets:
                    for tt in (t.elts if isinstance(t, (ast.Tuple, ast.List)) else [t]):
                        if isinstance(tt, ast.Subscript):
                            n = self._view_source(tt.value) or \
                                (tt.value.id if isinstance(tt.value, ast.Name) else None)
                            if n:
                                out.append((n, st, "store"))
                        elif isinstance(tt, ast.Attribute) and isinstance(tt.value, ast.Name):
                            out.append((tt.value.id + "." + tt.attr, st, "attr"))
            elif isinstance(st, ast.AugAssign):
                t = st.target
                if isinstance(t, ast.Subscript):
                    n = self._view_source(t.value) or \
                        (t.value.id if isinstance(t.value, ast.Name) else None)
                    if n:
                        out.append((n, st, "augstore"))
                elif isinstance(t, ast.Name):
                    out.append((t.id, st, "aug"))
                elif isinstance(t, ast.Attribute) and isinstance(t.value, ast.Name):
                    out.append((t.value.id + "." + t.attr, st, "augattr"))
            elif isinstance(st, ast.Call):
                for kw in st.keywords:
                    if kw.arg == "out" and isinstance(kw.value, ast.Name):
                        out.append((kw.value.id, st, "out="))
                if isinstance(st.func, ast.Attribute) and st.func.attr in INPLACE_METHODS:
                    n = self._view_source(st.func.value)
                    if n:
                        out.append((n, st, "method:" + st.func.attr))
        return out

    def _effects(self):
        """mut[f] = set of parameter names possibly mutated in place."""
        self.mut = {f: set() for f in self.env}
        self.aliases = {f: self._aliases(f) for f in self.env}
        self._scalar_params = {}
        for it in range(10):
            changed = False
            for f in list(self.env):
                al = self.aliases[f]
                params = set(f.params) | set(f.kwonly)
                cur = self.mut[f]
                new = set(cur)

                def touch(name):
                    for n in {name} | al.get(name, set()):
                        if n in params:
                            new.add(n)
                for name, st, how in self.direct_mutations(f):
                    if how in ("attr", "augattr"):
                        continue
                    if how == "aug":
                        # x += ... mutates in place only for arrays; treat names with
                        # array roles (or aliasing a param with array role) as arrays
                        roles = set(self.env[f].get(name, ()))
                        for a in al.get(name, ()):
                            roles |= self.env[f].get(a, set())
                        rhs_array = any(
                            isinstance(x, ast.Subscript) and any(
                                isinstance(q, ast.Slice) for q in
                                (x.slice.elts if isinstance(x.slice, ast.Tuple) else [x.slice]))
                            for x in ast.walk(st.value))
                        if not rhs_array:
                            # a bare operand that is an array (subscripted elsewhere in the
                            # function, or carrying an array role) makes the update an array
                            # update: z += (z_bar - z) / n
                            bases = {id(x.value) for x in ast.walk(st.value) if isinstance(x, ast.Subscript)}
                            for x in ast.walk(st.value):
                                if isinstance(x, ast.Name) and id(x) not in bases and x.id != name and (
                                        self._is_subscripted(f, x.id)
                                        or set(self.env[f].get(x.id, ())) & ARRAY_ROLES):
                                    rhs_array = True
                        if not roles & ARRAY_ROLES and not self._is_subscripted(f, name) \
                                and not rhs_array:
                            continue
                    touch(name)
                for call, callees, kind in self.calls.get(f, ()):
                    if kind == "ctor":
                        continue
                    for callee in callees:
                        bnd, _ = self.bind(f, call, callee)
                        for prm, a in bnd.items():
                            if prm in self.mut.get(callee, ()):
                                src = self._view_source(a)
                                if src:
                                    touch(src)
                if new != cur:
                    self.mut[f] = new
                    changed = True
            if not changed:
                break

    def _is_subscripted(self, f, name):
        key = (id(f.node), name)
        c = self.__dict__.setdefault("_subscr", {})
        if key not in c:
            c[key] = any(isinstance(n, ast.Subscript) and isinstance(n.value, ast.Name)
                         and n.value.id == name for n in ast.walk(f.node))
        return c[key]

    def call_mutates(self, f, call):
        """Names (locals of f) that this call may mutate in place."""
        out = set()
        kind, callees = self.resolve_call(f, call)
        if kind == "ctor":
            return out
        for callee in callees:
            bnd, _ = self.bind(f, call, callee)
            for prm, a in bnd.items():
                if prm in self.mut.get(callee, ()):
                    src = self._view_source(a)
                    if src:
                        out.add(src)
        return out

    def stmt_mutates(self, f, st):
        """Local names mutated in place (or rebound) by statement/expression st."""
        out = set()
        al = self.aliases.get(f) or self._aliases(f)
        sub = ast.Module(body=[st], type_ignores=[]) if isinstance(st, ast.stmt) else st
        fake = FuncInfo.__new__(FuncInfo)
        for n in ast.walk(sub):
            if isinstance(n, ast.Call):
                out |= self.call_mutates(f, n)
        for name, s, how in self._direct_mut_in(sub):
            if how in ("attr", "augattr"):
                continue
            out.add(name)
        closure = set(out)
        for n in out:
            closure |= al.get(n, set())
        return closure

    def _direct_mut_in(self, tree):
        class _F:
            node = tree
        return self.direct_mutations(_F)
