"""R-NONE, R-PAIR, R-PATH, R-WARMFIT, R-CACHE  (warm starts, paths, pairing)."""
import ast

from ..model import norm_src, names_in, attr_chain, AnalysisError
from ..cfg import cfg_of
from .control import loc, _slot_call


def _none_test(test):
    """`p is None` -> (p, True); `p is not None` -> (p, False); else None"""
    if isinstance(test, ast.Compare) and len(test.ops) == 1 \
            and isinstance(test.comparators[0], ast.Constant) and test.comparators[0].value is None:
        if isinstance(test.ops[0], ast.Is):
            return ast.unparse(test.left), True
        if isinstance(test.ops[0], ast.IsNot):
            return ast.unparse(test.left), False
    return None


# --------------------------------------------------------------------- R-NONE
def r_none_ifexp(A, ctx, scope, rule="R-NONE"):
    ctx.rule(rule, "optional-argument consistency: in `a = d if p is None else q` the "
             "branch taken when p is given must not be a *different* None-default "
             "parameter (contradiction between the test and the value used)")
    n = 0
    for f in A.prog.all_functions():
        none_params = {p for p, d in f.defaults.items()
                       if isinstance(d, ast.Constant) and d.value is None}
        if len(none_params) < 1:
            continue
        for e in ast.walk(f.node):
            if not isinstance(e, ast.IfExp):
                continue
            t = _none_test(e.test)
            if t is None or t[0] not in none_params:
                continue
            p, is_none = t
            given = e.orelse if is_none else e.body
            n += 1
            bad = isinstance(given, ast.Name) and given.id in none_params and given.id != p
            ctx.ob(rule, f"{f.fq}::{norm_src(e)}", not bad,
                   what=f"`{norm_src(e)}` tests `{p}` but uses `{norm_src(given)}`, another "
                        f"optional argument: passing `{p}` alone yields None (crash in "
                        f"compiled code), passing `{norm_src(given)}` alone is ignored",
                   loc=loc(f, e))
    ctx.floor(rule, n, scope.get("floor", 10))


def r_none_deref(A, ctx, scope, rule="R-NONE-DEREF"):
    ctx.rule(rule, "no dereference of a constructor argument whose default is None in "
             "fit/path unless dominated by a non-None fact or a prior assignment")
    n = 0
    for c in A.prog.estimators:
        init = c.find_method("__init__")
        if init is None:
            continue
        none_params = {p for p, d in init.defaults.items()
                       if isinstance(d, ast.Constant) and d.value is None}
        if not none_params:
            continue
        for mname in ("fit", "path"):
            m = c.find_method(mname)
            if m is None:
                continue
            cfg = cfg_of(m)
            for nd in cfg.stmts():
                root = nd.ast.iter if nd.kind == "for" else nd.ast
                for e in ast.walk(root):
                    attr = None
                    if isinstance(e, ast.Attribute):
                        ch = attr_chain(e)
                        if ch and len(ch) >= 3 and ch[0] == "self" and ch[1] in none_params \
                                and ch[2] != "__class__":
                            attr = ch[1]
                    elif isinstance(e, ast.Subscript):
                        ch = attr_chain(e.value)
                        if ch and len(ch) == 2 and ch[0] == "self" and ch[1] in none_params:
                            attr = ch[1]
                    elif isinstance(e, ast.Call) and ast.unparse(e.func) == "len" and e.args:
                        ch = attr_chain(e.args[0])
                        if ch and len(ch) == 2 and ch[0] == "self" and ch[1] in none_params:
                            attr = ch[1]
                    if attr is None:
                        continue
                    # guarded?
                    guarded = False
                    for t, lab, of in cfg.facts_at(nd.id):
                        if isinstance(t, ast.expr) and f"self.{attr}" in ast.unparse(t):
                            nt = _none_test(t)
                            if nt and nt[0] == f"self.{attr}":
                                guarded |= (nt[1] and lab == "false") or (not nt[1] and lab == "true")
                            else:
                                guarded = True
                    # dominating assignment self.attr = ...
                    for other in cfg.stmts():
                        a = other.ast
                        if other.kind == "stmt" and isinstance(a, ast.Assign) \
                                and any(ast.unparse(t) == f"self.{attr}" for t in a.targets) \
                                and cfg.dominated_by(nd.id, other.id) and other.id != nd.id:
                            guarded = True
                    # super().fit / same-class helper that sets defaults is out of reach: only
                    # flag when no guard at all
                    key = f"{m.fq}::self.{attr}"
                    if any(o["construct"] == key for o in ctx.obligations if o["rule"] == rule):
                        if guarded:
                            continue
                    n += 1
                    ctx.ob(rule, key, guarded,
                           what=f"`{norm_src(e)[:60]}` dereferences constructor argument "
                                f"`{attr}` whose default is None (documented as 'if None, "
                                "a default is used'): AttributeError at fit time",
                           loc=loc(m, e))
    ctx.floor(rule, n, scope.get("floor", 1))


# --------------------------------------------------------------------- R-PAIR
def _acc_names(flow, f):
    """accumulator arrays that must follow the iterate: model fit / Gram gradient /
    local X@delta buffers"""
    out = set()
    env = flow.env[f]
    for nm, r in env.items():
        if r & {"XW", "XW0"}:
            out.add(nm)
    for st in ast.walk(f.node):
        if isinstance(st, ast.AugAssign) and isinstance(st.op, ast.Add):
            t = st.target
            base = t.value if isinstance(t, ast.Subscript) else t
            if isinstance(base, ast.Name):
                vr = set()
                for x in ast.walk(st.value):
                    if isinstance(x, (ast.Name, ast.Attribute)):
                        vr |= flow.roles(f, x)
                if vr & {"X", "CSC_DATA"} or "gram" in ast.unparse(st.value):
                    if not (env.get(base.id, set()) & {"W", "W0"}):
                        out.add(base.id)
        if isinstance(st, ast.Call):
            m = flow.call_mutates(f, st)
            for x in m:
                if not (env.get(x, set()) & {"W", "W0"}):
                    out.add(x)
    return out


def _is_w(flow, f, name):
    return bool(flow.env[f].get(name, set()) & {"W", "W0"})


def r_pair(A, ctx, scope, rule="R-PAIR"):
    ctx.rule(rule, "iterate / model-fit pairing: in every function holding both the "
             "iterate and an accumulator that follows it (model fit X@w, Gram gradient, "
             "X@delta buffer), each element store into the iterate is followed in the "
             "same block by an update of the accumulator by (new - old) times the "
             "matching column, with `old` read before the store")
    n = 0
    flow = A.flow
    for f in A.prog.all_functions():
        if f.cls is not None and f.cls not in A.prog.solvers:
            continue
        if not f.module.name.startswith(("skglm.solvers", "skglm.experimental")):
            continue
        accs = _acc_names(flow, f)
        if not accs:
            continue
        prox_targets = set()
        for st in ast.walk(f.node):
            if isinstance(st, ast.Assign) and isinstance(st.targets[0], ast.Subscript) \
                    and isinstance(st.targets[0].value, ast.Name) and any(
                        _slot_call(flow, f, c, "PENALTY", {"prox_1d", "prox_1feat", "prox_1group"})
                        for c in ast.walk(st.value)):
                prox_targets.add(st.targets[0].value.id)
        accs -= prox_targets
        for blk in ast.walk(f.node):
            for body in (getattr(blk, "body", None), getattr(blk, "orelse", None)):
                if not isinstance(body, list):
                    continue
                for i, st in enumerate(body):
                    tgt = None
                    if isinstance(st, ast.Assign) and len(st.targets) == 1 \
                            and isinstance(st.targets[0], ast.Subscript):
                        tgt = st.targets[0]
                    elif isinstance(st, ast.AugAssign) and isinstance(st.target, ast.Subscript):
                        tgt = st.target
                    if tgt is None or not isinstance(tgt.value, ast.Name):
                        continue
                    is_prox_store = isinstance(st, ast.Assign) and any(
                        _slot_call(flow, f, c, "PENALTY", {"prox_1d", "prox_1feat", "prox_1group"})
                        for c in ast.walk(st.value))
                    if not (_is_w(flow, f, tgt.value.id) or is_prox_store
                            or tgt.value.id in prox_targets):
                        continue
                    sl = tgt.slice
                    if isinstance(sl, ast.Slice) and sl.lower is None and sl.upper is None:
                        continue     # bulk store: acceptance site (R-GUARD)
                    wname = tgt.value.id
                    # line-search form handled by R-LS
                    if isinstance(st, ast.AugAssign) and isinstance(st.value, ast.BinOp) \
                            and isinstance(st.value.op, ast.Mult) and "step" in ast.unparse(st.value):
                        continue
                    # copies that are not the iterate of this function (current_w = w.copy())
                    defs = [d for d in ast.walk(f.node) if isinstance(d, ast.Assign)
                            and isinstance(d.targets[0], ast.Name) and d.targets[0].id == wname]
                    def _is_copy(d):
                        return isinstance(d.value, ast.Call) and isinstance(d.value.func, ast.Attribute) \
                            and d.value.func.attr == "copy"

                    def _self_slice(d):
                        return isinstance(d.value, ast.Subscript) and isinstance(d.value.value, ast.Name) \
                            and d.value.value.id == wname
                    if defs and _is_copy(min(defs, key=lambda d: d.lineno)) \
                            and all(_is_copy(d) or _self_slice(d) for d in defs):
                        continue
                    if defs and all(isinstance(d.value, ast.Call)
                                    and ast.unparse(d.value.func) in ("np.zeros", "np.zeros_like")
                                    for d in defs) and not (flow.env[f].get(wname, set()) & {"W0"}):
                        continue
                    n += 1
                    idx_names = names_in(sl)
                    # old value: name assigned before st (in this block) from a read of W
                    olds = set()
                    for prev in body[:i]:
                        if isinstance(prev, ast.Assign) and isinstance(prev.targets[0], ast.Name):
                            v = prev.value
                            if isinstance(v, ast.Call) and isinstance(v.func, ast.Attribute) and v.func.attr == "copy":
                                v = v.func.value
                            if isinstance(v, ast.Subscript) and isinstance(v.value, ast.Name) \
                                    and v.value.id == wname:
                                olds.add(prev.targets[0].id)
                    # follow-up update
                    found = sign_ok = False
                    detail = ""
                    rest = body[i + 1:]
                    diffs = {}
                    for nxt in rest:
                        for x in ast.walk(nxt):
                            if isinstance(x, ast.Assign) and isinstance(x.targets[0], ast.Name) \
                                    and isinstance(x.value, ast.BinOp) and isinstance(x.value.op, ast.Sub):
                                diffs[x.targets[0].id] = x.value
                    for nxt in rest:
                        hits = []
                        for x in ast.walk(nxt):
                            if isinstance(x, ast.AugAssign):
                                b = x.target.value if isinstance(x.target, ast.Subscript) else x.target
                                if isinstance(b, ast.Name) and b.id in accs:
                                    hits.append((x, x.value))
                            elif isinstance(x, ast.Call):
                                m = flow.call_mutates(f, x)
                                if m & accs:
                                    hits.append((x, x))
                        for x, val in hits:
                            nm = names_in(val)
                            subs = [s for s in ast.walk(val) if isinstance(s, ast.BinOp) and isinstance(s.op, ast.Sub)]
                            for dn, dv in diffs.items():
                                if dn in nm:
                                    subs.append(dv)
                            rel = [s for s in subs if wname in names_in(s.left) or wname in names_in(s.right)]
                            if rel:
                                found = True
                                s0 = rel[0]
                                sign_ok = wname in names_in(s0.left) and bool(names_in(s0.right) & olds) \
                                    and wname not in names_in(s0.right)
                                detail = norm_src(s0)
                            elif isinstance(val, ast.Call) and wname in nm and (nm & olds):
                                found = sign_ok = True     # (new, old) passed to a helper
                        if found:
                            break
                    key = f"{f.fq}::{norm_src(st)[:80]}"
                    # path sensitivity: the update cannot be skipped except by a test that
                    # establishes new == old for the whole stored block
                    skip_what = None
                    if found and sign_ok:
                        cfg = cfg_of(f)
                        snode = cfg.node_of(st)
                        if snode is not None and cfg.nodes[snode].loops:
                            header = cfg.nodes[snode].loops[-1]
                            unodes, inner_headers, nc_edges = set(), set(), set()
                            for nd in cfg.stmts():
                                if nd.id == snode or not cfg.dominated_by(nd.id, snode):
                                    continue
                                root = nd.ast.iter if nd.kind == "for" else nd.ast
                                if nd.kind == "stmt":
                                    mm = flow.stmt_mutates(f, root)
                                    if mm & accs:
                                        unodes.add(nd.id)
                                        for h in nd.loops:
                                            if h not in cfg.nodes[snode].loops:
                                                inner_headers.add(h)
                                if nd.kind == "test":
                                    tn = names_in(root)
                                    rel = (wname in tn and (tn & olds)) or bool(tn & set(diffs))
                                    if rel:
                                        for sx in cfg.succ[nd.id]:
                                            nc_edges.add(sx)
                                        # the guard must look at the whole stored block
                                        for sub in ast.walk(root):
                                            if isinstance(sub, ast.Subscript) and isinstance(sub.value, ast.Name) \
                                                    and sub.value.id == wname:
                                                tparts = sl.elts if isinstance(sl, ast.Tuple) else [sl]
                                                gparts = sub.slice.elts if isinstance(sub.slice, ast.Tuple) else [sub.slice]
                                                for tp, gp in zip(tparts, gparts):
                                                    if isinstance(tp, ast.Slice) and isinstance(gp, ast.Constant):
                                                        skip_what = (f"the no-change guard `{norm_src(root)[:60]}` looks "
                                                                     f"only at part of the block stored by `{norm_src(tgt)}`: "
                                                                     "when that part is unchanged the model fit is not "
                                                                     "updated although other entries moved")
                            avoid = unodes | inner_headers | nc_edges
                            if skip_what is None and cfg.paths_exist(snode, header, avoiding=avoid):
                                skip_what = (f"after `{norm_src(st)[:60]}` the paired update of {sorted(accs)} can "
                                             "be skipped on a path that does not establish new == old "
                                             "(early continue / return): coefficients and model fit diverge")
                    if skip_what is not None:
                        ctx.ob(rule, key, False, what=skip_what, loc=loc(f, st))
                    elif not found:
                        ctx.ob(rule, key, False,
                               what=f"`{norm_src(st)[:70]}` changes the iterate but no "
                                    f"following statement adds (new - old) * column into "
                                    f"{sorted(accs)}: model fit and coefficients diverge",
                               loc=loc(f, st))
                    elif not sign_ok:
                        ctx.ob(rule, key, False,
                               what=f"paired update uses `{detail}`: expected "
                                    f"(new value of `{wname}`) - (copy taken before the "
                                    "store)", loc=loc(f, st))
                    else:
                        ctx.ob(rule, key, True)
    ctx.floor(rule, n, scope.get("floor", 12))


def _is_zeros_or_prev(v, loopvar):
    """np.zeros(...) / a copy of the results indexed at <loopvar> - 1 / a conditional of both"""
    if isinstance(v, ast.IfExp):
        return _is_zeros_or_prev(v.body, loopvar) and _is_zeros_or_prev(v.orelse, loopvar)
    if isinstance(v, ast.Call) and ast.unparse(v.func) in ("np.zeros", "np.zeros_like"):
        return True
    if isinstance(v, ast.Call) and isinstance(v.func, ast.Attribute) and v.func.attr == "copy":
        for sub in ast.walk(v.func.value):
            if isinstance(sub, ast.BinOp) and isinstance(sub.op, ast.Sub) and isinstance(sub.left, ast.Name) \
                    and sub.left.id == loopvar and isinstance(sub.right, ast.Constant) and sub.right.value == 1:
                return True
    return False


def _first_iteration_only(cfg, nid, loopvar):
    """is node `nid` guarded by a test that pins the loop counter to 0 (`t > 0` false, `t == 0` true, ...)?"""
    for test, label, _ in cfg.facts_at(nid):
        if not isinstance(test, ast.expr):
            continue
        txt = ast.unparse(test).replace(" ", "")
        if (txt in (f"{loopvar}>0", f"{loopvar}>=1", f"{loopvar}!=0", loopvar) and label == "false") or \
                (txt in (f"{loopvar}==0", f"{loopvar}<1", f"not{loopvar}") and label == "true"):
            return True
    return False


# --------------------------------------------------------------------- R-PATH
def r_path(A, ctx, scope, rule="R-PATH"):
    ctx.rule(rule, "path discipline: in every `path` loop the penalty strength is set "
             "from the grid before `solve`; the start point of step t>0 is a copy of the "
             "previous column; every definition of the model fit handed to `solve` is "
             "either zeros paired with a zero start, the in-place buffer of the previous "
             "solve, or the template X @ w[:p] + fit_intercept * w[-1]")
    n = 0
    flow = A.flow
    targets = []
    for c in A.prog.solvers:
        if "path" in c.methods:
            targets.append(c.methods["path"])
    sq = A.prog.find_class("SqrtLasso")
    if sq is not None and "path" in sq.methods:
        targets.append(sq.methods["path"])
    for f in targets:
        cfg = cfg_of(f)
        loops = [st for st in f.node.body if isinstance(st, ast.For)]
        if not loops:
            raise AnalysisError(f"{f.fq}: no path loop")
        lp = loops[-1]
        solves = [c for c in ast.walk(lp) if isinstance(c, ast.Call)
                  and isinstance(c.func, ast.Attribute) and c.func.attr == "solve"]
        if not solves:
            raise AnalysisError(f"{f.fq}: no solve call in path loop")
        call = solves[0]
        cnode = None
        for nd in cfg.stmts():
            if nd.kind != "for" and any(x is call for x in ast.walk(nd.ast)):
                cnode = nd.id
        # (0) every grid point is solved: no path through an iteration bypasses solve()
        n += 1
        skips = [x for x in ast.walk(lp) if isinstance(x, ast.Continue)]
        bypass = []
        for sk in skips:
            sid = cfg.node_of(sk)
            if sid is not None and cnode is not None and not cfg.dominated_by(sid, cnode):
                bypass.append(sk)
        ctx.ob(rule, f"{f.fq}::every-alpha-solved", not bypass,
               what="an iteration of the path loop can `continue` before solve(): that grid point keeps "
                    "its initial (zero) column - intercept and unpenalised coefficients included - "
                    "instead of the solution for its alpha",
               loc=loc(f, bypass[0]) if bypass else None)
        # (0b) the grid handed back is the grid that was swept: the array the strength is read
        # from at index t is the first element of what path() returns (results at position t
        # belong to that alpha)
        grid_name = None
        for nd in cfg.stmts():
            a = nd.ast
            if nd.kind == "stmt" and isinstance(a, ast.Assign) and isinstance(a.targets[0], ast.Attribute) \
                    and a.targets[0].attr == "alpha" and isinstance(a.value, ast.Subscript) \
                    and isinstance(a.value.value, ast.Name):
                grid_name = a.value.value.id
        if grid_name is None:
            for st in ast.walk(lp):
                if isinstance(st, ast.Assign) and isinstance(st.value, ast.Subscript) \
                        and isinstance(st.value.value, ast.Name) and isinstance(st.value.slice, ast.Name) \
                        and isinstance(lp.target, ast.Name) and st.value.slice.id == lp.target.id \
                        and isinstance(st.targets[0], ast.Name) and "alpha" in st.targets[0].id:
                    grid_name = st.value.value.id
        rets = [r for r in ast.walk(f.node) if isinstance(r, ast.Return) and r.value is not None]
        if grid_name and rets:
            n += 1
            bad = []
            for r in rets:
                first = r.value.elts[0] if isinstance(r.value, ast.Tuple) and r.value.elts else r.value
                if isinstance(first, ast.Name) and first.id != grid_name and first.id in names_in(f.node) \
                        and "alpha" in first.id.lower():
                    bad.append((first.id, r))
            ctx.ob(rule, f"{f.fq}::returned-grid", not bad,
                   what=(f"path() sweeps `{grid_name}` but returns `{bad[0][0]}`: when the two are ordered "
                         "differently (a grid that is not sorted the way the sweep goes) result number t does "
                         "not belong to the alpha returned at position t") if bad else "",
                   loc=loc(f, bad[0][1]) if bad else None)
        # (0c) results reported in the caller's order: when the swept grid is a permutation
        # `G = G_in[perm]` of the caller's grid and the caller's grid is what is returned, the
        # results must be un-permuted with the inverse permutation, not permuted once more by `perm`
        if grid_name and rets:
            perm_def = None
            for st in ast.walk(f.node):
                if isinstance(st, ast.Assign) and len(st.targets) == 1 and isinstance(st.targets[0], ast.Name) \
                        and st.targets[0].id == grid_name and isinstance(st.value, ast.Subscript) \
                        and isinstance(st.value.value, ast.Name) and isinstance(st.value.slice, ast.Name):
                    perm_def = (st.value.value.id, st.value.slice.id)
            if perm_def is not None:
                g_in, perm = perm_def
                for r in rets:
                    elts = list(r.value.elts) if isinstance(r.value, ast.Tuple) else [r.value]
                    # resolve names through a tuple assignment that precedes the return
                    for st in ast.walk(f.node):
                        if isinstance(st, ast.Assign) and len(st.targets) == 1 and isinstance(st.targets[0], ast.Tuple) \
                                and isinstance(st.value, ast.Tuple) and st.lineno > lp.end_lineno and st.lineno < r.lineno:
                            m_ = {t.id: v for t, v in zip(st.targets[0].elts, st.value.elts) if isinstance(t, ast.Name)}
                            elts = [m_.get(e.id, e) if isinstance(e, ast.Name) else e for e in elts]
                    if len(elts) >= 2 and isinstance(elts[0], ast.Name) and elts[0].id == g_in:
                        again = [e for e in elts[1:] if isinstance(e, ast.Subscript) and isinstance(e.slice, ast.Name)
                                 and e.slice.id == perm]
                        n += 1
                        ctx.ob(rule, f"{f.fq}::returned-order", not again,
                               what=(f"path() sweeps `{grid_name} = {g_in}[{perm}]` and returns `{g_in}` together with "
                                     f"`{norm_src(again[0])}`: results in sweep order are permuted by `{perm}` once more "
                                     f"instead of by its inverse (np.argsort({perm})), so for a grid whose sorting "
                                     "permutation is not its own inverse result i does not belong to alpha i") if again else "",
                               loc=loc(f, r))
        # (0d) abandoning the rest of the grid (`break` in the path loop, e.g. when the residual vanishes) is
        # only sound when the grid is swept from the largest strength down: every definition of the swept grid
        # is then a descending sort or a decreasing geometric grid
        brks = [x for x in ast.walk(lp) if isinstance(x, ast.Break)
                and not any(isinstance(q, (ast.For, ast.While)) and q is not lp and any(x is y for y in ast.walk(q))
                            for q in ast.walk(lp))]
        if grid_name and brks:
            gdefs = [st for st in ast.walk(f.node) if isinstance(st, ast.Assign) and len(st.targets) == 1
                     and isinstance(st.targets[0], ast.Name) and st.targets[0].id == grid_name]

            def descending(v):
                if isinstance(v, ast.Subscript) and isinstance(v.slice, ast.Slice) and v.slice.step is not None \
                        and ast.unparse(v.slice.step) == "-1" and "sort" in ast.unparse(v.value):
                    return True
                txt = ast.unparse(v)
                return ("geomspace(1," in txt.replace(" ", "") or "logspace(0," in txt.replace(" ", ""))
            bad_defs = [st for st in gdefs if not descending(st.value)]
            n += 1
            ctx.ob(rule, f"{f.fq}::break-needs-descending-grid", not bad_defs,
                   what=(f"the path loop abandons the remaining grid points (`break` at line {brks[0].lineno}) but "
                         f"`{norm_src(bad_defs[0])[:60]}` does not put the grid in descending order: strengths that "
                         "come after the abandoned one and are larger (solvable) keep their initial zero "
                         "coefficients") if bad_defs else "", loc=loc(f, brks[0]))
        # (1) alpha set before solve
        n += 1
        ok = False
        for nd in cfg.stmts():
            a = nd.ast
            if nd.kind == "stmt" and isinstance(a, ast.Assign) and isinstance(a.targets[0], ast.Attribute) \
                    and a.targets[0].attr == "alpha" and cfg.dominated_by(cnode, nd.id) \
                    and cfg.nodes[nd.id].loops and cfg.nodes[nd.id].loops[-1] == cfg.node_of(lp):
                # value comes from the grid at the loop index
                tv = lp.target.id if isinstance(lp.target, ast.Name) else None
                src = names_in(a.value)
                chain = set(src)
                for nm in list(src):
                    for d in ast.walk(lp):
                        if isinstance(d, ast.Assign) and isinstance(d.targets[0], ast.Name) \
                                and d.targets[0].id == nm:
                            chain |= names_in(d.value)
                ok = tv in chain
        ctx.ob(rule, f"{f.fq}::alpha-set", ok,
               what="the penalty strength is not set from the grid entry of the current "
                    "step before solve()", loc=loc(f, call))
        # arguments w, Xw of solve (positions 4,5 / keywords)
        args = list(call.args)
        kw = {k.arg: k.value for k in call.keywords}
        warg = args[4] if len(args) > 4 else kw.get("w_init")
        xarg = args[5] if len(args) > 5 else kw.get("Xw_init")
        rd = cfg.reaching_defs()
        fi_used = "fit_intercept" in ast.unparse(f.node)
        # (2) warm start is a copy
        if isinstance(warg, ast.Name):
            for d in sorted(x for x in rd.get(cnode, {}).get(warg.id, ()) if x >= 0):
                a = cfg.nodes[d].ast
                if not isinstance(a, ast.Assign):
                    continue
                v = a.value
                src = ast.unparse(v)
                if isinstance(v, ast.Call) and ast.unparse(v.func) in ("np.zeros", "np.zeros_like"):
                    continue
                # a copy is required when the source is an array that the loop itself
                # stores results into (the result matrix); a user-supplied start point
                # may be updated in place by design of solve()
                stored = {t.value.id for s_ in ast.walk(lp) if isinstance(s_, ast.Assign)
                          for t in (s_.targets[0].elts if isinstance(s_.targets[0], ast.Tuple)
                                    else [s_.targets[0]])
                          if isinstance(t, ast.Subscript) and isinstance(t.value, ast.Name)}
                from_results = bool(names_in(v) & stored)
                n += 1
                is_copy = ".copy()" in src or (isinstance(v, ast.IfExp) and ".copy()" in src)
                ctx.ob(rule, f"{f.fq}::start-copy::{norm_src(a)[:80]}", is_copy,
                       what=f"warm start `{norm_src(a)[:70]}` aliases "
                            + ("the result matrix" if from_results else "the caller's start array")
                            + ": the in-place solver then overwrites it (path() is not pure: a "
                            "second identical call starts from the previous solution)", loc=loc(f, a))
        # (3) model fit definitions
        if isinstance(xarg, ast.Name):
            for d in sorted(x for x in rd.get(cnode, {}).get(xarg.id, ()) if x >= 0):
                a = cfg.nodes[d].ast
                if not isinstance(a, ast.Assign):
                    continue
                v = a.value
                n += 1
                key = f"{f.fq}::xw::{norm_src(a)[:80]}"
                if isinstance(v, ast.Call) and ast.unparse(v.func) in ("np.zeros", "np.zeros_like"):
                    # paired with a zero start?
                    okz = True
                    if isinstance(warg, ast.Name) and cfg.nodes[d].loops:
                        wd = [x for x in rd.get(d, {}).get(warg.id, ()) if x >= 0]
                        for w_ in wd:
                            wa = cfg.nodes[w_].ast
                            if not (isinstance(wa, ast.Assign) and isinstance(wa.value, ast.Call)
                                    and ast.unparse(wa.value.func) in ("np.zeros", "np.zeros_like")):
                                okz = False
                    if isinstance(warg, ast.Name) and not cfg.nodes[d].loops:
                        # a buffer created once before the loop is updated in place by every
                        # solve: it matches the next start point only if that start is zeros
                        # (first step), a copy of the PREVIOUS column of the results, or if the
                        # buffer is recomputed on the way from that start definition to solve
                        xdefs_in_loop = {x for x in rd.get(cnode, {}).get(xarg.id, ()) if x >= 0 and x != d}
                        tv = lp.target.id if isinstance(lp.target, ast.Name) else None
                        for w_ in sorted(x for x in rd.get(cnode, {}).get(warg.id, ()) if x >= 0):
                            wa = cfg.nodes[w_].ast
                            if not isinstance(wa, ast.Assign):
                                continue
                            if _is_zeros_or_prev(wa.value, tv):
                                # a zero start matches the carried buffer only while that buffer is still the
                                # zeros it was created as, i.e. at the first grid point
                                is_zero_start = any(isinstance(x, ast.Call) and ast.unparse(x.func) in (
                                    "np.zeros", "np.zeros_like") for x in ast.walk(wa.value))
                                if is_zero_start and cfg.nodes[w_].loops and not _first_iteration_only(cfg, w_, tv):
                                    okz = False
                                continue
                            # reachable from this start definition to solve without redefining Xw?
                            seen_, work = {w_}, [w_]
                            stale = False
                            while work:
                                u = work.pop()
                                for s_ in cfg.succ[u]:
                                    if s_ == cnode:
                                        stale = True
                                    if s_ in seen_ or s_ in xdefs_in_loop or s_ == cnode:
                                        continue
                                    seen_.add(s_)
                                    work.append(s_)
                            if stale:
                                okz = False
                    ctx.ob(rule, key, okz,
                           what="model fit initialised to zeros although the start point "
                                "is a user-supplied / previous coefficient vector (non-zero "
                                "intercept or unpenalised part gives Xw != X w + b)",
                           loc=loc(f, a))
                else:
                    has_mm = any(isinstance(x, ast.BinOp) and isinstance(x.op, ast.MatMult)
                                 for x in ast.walk(v))
                    txt = ast.unparse(v)
                    has_fi = (not fi_used) or ("fit_intercept" in txt and "[-1]" in txt)
                    sliced = (not fi_used) or any(
                        isinstance(x, ast.BinOp) and isinstance(x.op, ast.MatMult)
                        and isinstance(x.right, ast.Subscript) for x in ast.walk(v))
                    ctx.ob(rule, key, has_mm and has_fi and sliced,
                           what=f"model fit `{norm_src(a)[:70]}` is not the template "
                                "X @ w[:n_features] + fit_intercept * w[-1] (intercept row "
                                "multiplied into X, or intercept contribution missing)",
                           loc=loc(f, a))
        # (4) a model fit carried from one grid point to the next (no definition of it dominates
        # solve() inside the iteration) relies on solve() updating that very buffer in place
        if isinstance(xarg, ast.Name) and isinstance(call.func.value, ast.Name) and call.func.value.id == "self" \
                and f.cls is not None and f.cls.name in A.facts:
            lp_id = cfg.node_of(lp)
            in_loop_defs = [d for d in range(len(cfg.nodes)) if cfg.nodes[d].kind == "stmt"
                            and isinstance(cfg.nodes[d].ast, ast.Assign)
                            and any(isinstance(t, ast.Name) and t.id == xarg.id for t in cfg.nodes[d].ast.targets)
                            and lp_id in cfg.nodes[d].loops]
            carried = not any(cfg.dominated_by(cnode, d) for d in in_loop_defs)
            if carried:
                sf = A.facts[f.cls.name]
                a = sf.xw_init_assign
                n += 1
                ok = False
                if a is not None and isinstance(a.value, ast.IfExp):
                    v = a.value
                    given = v.orelse if "is None" in ast.unparse(v.test) and "not" not in ast.unparse(v.test) else v.body
                    ok = isinstance(given, ast.Name) and given.id == sf.pXW0 and sf.pXW0 in flow.mut.get(sf.f, set())
                ctx.ob(rule, f"{f.fq}::carried-model-fit", ok,
                       what=f"{f.qualname} hands the same `{xarg.id}` to solve() at every grid point without recomputing "
                            f"it, i.e. relies on {f.cls.name}._solve updating its `{sf.pXW0}` argument in place - but "
                            f"`{norm_src(a)[:70] if a is not None else '?'}` works on another array (a copy / a conversion): "
                            "from the second grid point on the solver starts from the previous coefficients with a "
                            "stale model fit and certifies a point that is not optimal",
                       loc=loc(sf.f, a) if a is not None else None)
    ctx.floor(rule, n, scope.get("floor", 8))


# ------------------------------------------------------------------ R-WARMFIT
def r_warmfit(A, ctx, scope, rule="R-WARMFIT"):
    ctx.rule(rule, "estimator warm start (_glm_fit): the start vector is a copy of the "
             "fitted coefficients stacked with intercept_ iff an intercept is fitted, and "
             "the model fit is X @ w[:n] + fit_intercept * w[-1] computed from that very "
             "vector; cold start is zeros/zeros; fitted state is read only under the "
             "warm_start flag")
    m = A.prog.modules.get("skglm.estimators")
    if m is None or "_glm_fit" not in m.functions:
        raise AnalysisError("anchor _glm_fit missing")
    f = m.functions["_glm_fit"]
    cfg = cfg_of(f)
    n = 0
    solve = [c for c in ast.walk(f.node) if isinstance(c, ast.Call)
             and isinstance(c.func, ast.Attribute) and c.func.attr == "solve"]
    if not solve:
        raise AnalysisError("_glm_fit: solver.solve call missing")
    call = solve[-1]
    cnode = [nd.id for nd in cfg.stmts() if nd.kind != "for" and any(x is call for x in ast.walk(nd.ast))][0]
    warg, xarg = call.args[4], call.args[5]
    rd = cfg.reaching_defs()
    # the start vector is not modified between the computation of its model fit and solve(): a clipping /
    # projection of `w` after `Xw = X @ w ...` hands the solver an inconsistent pair
    if isinstance(warg, ast.Name) and isinstance(xarg, ast.Name):
        flow = A.flow
        xdefs = [d for d in rd.get(cnode, {}).get(xarg.id, ()) if d >= 0 and warg.id in names_in(cfg.nodes[d].ast)]
        for d in xdefs:
            seen, todo, bad = set(), list(cfg.succ[d]), None
            while todo:
                x = todo.pop()
                if x in seen or x == cnode:
                    continue
                seen.add(x)
                st = cfg.nodes[x].ast
                if st is not None and cfg.nodes[x].kind == "stmt":
                    mut = flow.stmt_mutates(f, st)
                    if isinstance(st, ast.Assign):
                        mut = mut - {t.id for t in st.targets if isinstance(t, ast.Name)}
                    outkw = [k for c_ in ast.walk(st) if isinstance(c_, ast.Call) for k in c_.keywords
                             if k.arg == "out" and warg.id in names_in(k.value)]
                    if warg.id in mut or outkw:
                        bad = st
                todo += cfg.succ[x]
            n += 1
            ctx.ob(rule, f"{f.fq}::start-modified-after-model-fit::{norm_src(cfg.nodes[d].ast)[:40]}", bad is None,
                   what=(f"`{norm_src(bad)[:70]}` modifies the start vector `{warg.id}` after its model fit "
                         f"`{norm_src(cfg.nodes[d].ast)[:50]}` was computed: solve() receives a pair with Xw != X w + b, "
                         "never recomputes it, and certifies the wrong point") if bad is not None else "",
                   loc=loc(f, bad) if bad is not None else None)
    for d in sorted(x for x in rd[cnode].get(xarg.id, ()) if x >= 0):
        a = cfg.nodes[d].ast
        v = a.value
        n += 1
        key = f"{f.fq}::xw::{norm_src(a)[:80]}"
        if isinstance(v, ast.Call) and ast.unparse(v.func) == "np.zeros":
            wd = [cfg.nodes[x].ast for x in rd[d].get(warg.id, ()) if x >= 0]
            okz = all(isinstance(w.value, ast.Call) and ast.unparse(w.value.func) == "np.zeros" for w in wd)
            ctx.ob(rule, key, okz, what="zero model fit paired with a non-zero start", loc=loc(f, a))
        else:
            mm = [x for x in ast.walk(v) if isinstance(x, ast.BinOp) and isinstance(x.op, ast.MatMult)]
            ok = bool(mm) and warg.id in names_in(mm[0].right) and isinstance(mm[0].right, ast.Subscript)
            # intercept term: fit_intercept * w[-1]
            it = [x for x in ast.walk(v) if isinstance(x, ast.BinOp) and isinstance(x.op, ast.Mult)
                  and "fit_intercept" in ast.unparse(x) and warg.id in names_in(x)
                  and "[-1]" in ast.unparse(x)]
            ctx.ob(rule, key, ok and bool(it),
                   what=f"warm-start model fit `{norm_src(a)[:80]}` is not "
                        f"X @ {warg.id}[:n] + fit_intercept * {warg.id}[-1] (it reads other "
                        "state, e.g. a stale intercept_ from a previous configuration)",
                   loc=loc(f, a))
    # start vector defs under warm start are copies
    for d in sorted(x for x in rd[cnode].get(warg.id, ()) if x >= 0):
        a = cfg.nodes[d].ast
        if not isinstance(a, ast.Assign):
            continue
        v = a.value
        if isinstance(v, ast.Call) and ast.unparse(v.func) in ("np.zeros",):
            continue
        n += 1
        txt = ast.unparse(v)
        ok = ".copy()" in txt or "hstack" in txt
        if "hstack" in txt:
            facts = cfg.facts_at(d)
            ok = any(lab == "true" and "fit_intercept" in ast.unparse(t) for t, lab, _ in facts) \
                and "intercept_" in txt
        ctx.ob(rule, f"{f.fq}::w::{norm_src(a)[:80]}", ok,
               what="warm-start vector is not a copy of the fitted coefficients "
                    "(+ intercept_ under fit_intercept)", loc=loc(f, a))
    # reads of fitted attributes guarded by warm_start
    for nd in cfg.stmts():
        root = nd.ast.iter if nd.kind == "for" else nd.ast
        if isinstance(root, ast.Assign) and any(isinstance(t, ast.Attribute) for t in root.targets):
            reads = list(ast.walk(root.value))
        else:
            reads = list(ast.walk(root))
        for e in reads:
            if isinstance(e, ast.Call) and ast.unparse(e.func) == "getattr" and len(e.args) >= 2 \
                    and isinstance(e.args[0], ast.Name) and e.args[0].id == "model" \
                    and isinstance(e.args[1], ast.Constant) and e.args[1].value in ("coef_", "intercept_", "dual_coef_"):
                e = ast.Attribute(value=e.args[0], attr=e.args[1].value, ctx=ast.Load(),
                                  lineno=e.lineno, col_offset=e.col_offset)
            if isinstance(e, ast.Attribute) and isinstance(e.ctx, ast.Load) \
                    and isinstance(e.value, ast.Name) and e.value.id == "model" \
                    and e.attr in ("coef_", "intercept_", "dual_coef_"):
                # reads after the solve (assembling results) are fine
                if cfg.dominated_by(nd.id, cnode) or nd.id == cnode:
                    continue
                facts = cfg.facts_at(nd.id)
                ws = any("warm_start" in ast.unparse(t) and lab == "true" for t, lab, _ in facts) \
                    or (nd.kind == "test" and "warm_start" in ast.unparse(nd.ast))
                multiclass = any("n_classes_" in ast.unparse(t) and lab == "true" for t, lab, _ in facts)
                if multiclass:
                    continue
                n += 1
                ctx.ob(rule, f"{f.fq}::read::{norm_src(root)[:70]}", ws,
                       what=f"fitted attribute `model.{e.attr}` read outside a warm_start "
                            "guard: a refit depends on the previous fit", loc=loc(f, e))
    ctx.floor(rule, n, scope.get("floor", 5))


# -------------------------------------------------------------------- R-CACHE
def r_cache(A, ctx, scope, rule="R-CACHE"):
    ctx.rule(rule, "no object built from constructor parameters is cached on `self` "
             "across calls (`if not hasattr(self, 'x_'): self.x_ = F(self.p, ...)`): a "
             "later set_params(p=...) would be ignored")
    n = 0
    for c in A.prog.estimators + A.prog.solvers:
        init = c.find_method("__init__")
        params = set(init.params[1:]) if init else set()
        for m in c.methods.values():
            cfg = cfg_of(m)
            for nd in cfg.stmts():
                a = nd.ast
                if nd.kind != "stmt" or not isinstance(a, ast.Assign):
                    continue
                for t in a.targets:
                    ch = attr_chain(t) if isinstance(t, ast.Attribute) else None
                    if not ch or ch[0] != "self" or len(ch) != 2:
                        continue
                    guarded = [tt for tt, lab, _ in cfg.facts_at(nd.id)
                               if any(isinstance(h, ast.Call) and ast.unparse(h.func) == "hasattr"
                                      and len(h.args) == 2 and ast.unparse(h.args[0]) == "self"
                                      and isinstance(h.args[1], ast.Constant) and h.args[1].value == ch[1]
                                      for h in ast.walk(tt))]
                    if not guarded:
                        continue
                    n += 1
                    reads = {x.attr for x in ast.walk(a.value) if isinstance(x, ast.Attribute)
                             and isinstance(x.value, ast.Name) and x.value.id == "self"}
                    bad = reads & params
                    ctx.ob(rule, f"{m.fq}::self.{ch[1]}", not bad,
                           what=f"`self.{ch[1]}` is built once from constructor parameters "
                                f"{sorted(bad)} and reused by later calls: changing them "
                                "with set_params has no effect", loc=loc(m, a))
    ctx.note(f"{rule}: {n} hasattr-guarded caches on self found")
    if n == 0:
        ctx.ob(rule, "no-cache-sites", True, detail="no hasattr-guarded cache on self in the tree")
