"""R-KERNEL-EQ (C10): dense and CSC solver kernels are the same function.

Every solver has two copies of its inner kernels, one for a dense design and one for the
CSC triple.  Both copies are lifted with the region lifter on one small concrete design
(3 samples x 3 features with structural zeros, so that the CSC triple is not trivially the
dense matrix), a working set in non-trivial order, symbolic data, and the same datafit /
penalty objects built from the registries; the coefficient array, the model fit and every
returned array must be equal terms afterwards.  Decisions inside the kernels (soft-threshold
branches, `!= 0` guards) are taken by the witness; both copies are lifted in the same region.
"""
import ast

from ..algebra import Unsupported, const, sym
from ..region import Region, RegionLifter, Vec, Mat, Obj, R, Raised
from ..model import AnalysisError
from .control import loc

PATTERN = [[1, 0, 1], [1, 1, 0], [0, 1, 1]]          # structural zeros of the design
XV = [[0.9, 0.0, 0.6], [-0.3, 0.8, 0.0], [0.0, 0.5, -0.7]]
YV = [1.3, 0.4, 0.7]
WV = [0.35, -0.6, 0.15]
N, P, T = 3, 3, 2
# term growth beyond the size budget (deterministic): see the note emitted by the rule
# datafits for which the coordinate kernels are also paired on the design with an empty column
EMPTY_COLUMN_CASES = {"Quadratic", "Logistic", "Huber"}
HEAVY_DIRECTION = {"Logistic", "WeightedQuadratic", "SqrtQuadratic"}


def world():
    v = {"alpha": 0.05, "gamma": 3.0, "delta": 0.75, "l1_ratio": 0.5, "eps": 0.5, "BIGTOL": 1e6,
         "b0": 0.27, "d0": -0.31, "d1": 0.26, "db": 0.1, "g0": 0.2, "g1": -0.1}
    for i in range(N):
        v[f"Xd{i}"] = 0.1 * (i + 1) - 0.15
    for i in range(N):
        v[f"y{i}"] = YV[i]
        v[f"Xw{i}"] = 0.4 - 0.5 * i
        for t in range(T):
            v[f"XW{i}{t}"] = 0.3 * (t + 1) - 0.45 * i
        v[f"sw{i}"] = 0.5 + 0.3 * i
        for t in range(T):
            v[f"Y{i}{t}"] = YV[i] * (1 + t) - 0.2 * t
        for j in range(P):
            v[f"x{i}{j}"] = XV[i][j]
    for j in range(P):
        v[f"w{j}"] = WV[j]
        v[f"lc{j}"] = 1.1 + 0.4 * j
        v[f"wt{j}"] = 0.8 + 0.1 * j
        v[f"g{j}"] = 0.2 - 0.3 * j
        for t in range(T):
            v[f"W{j}{t}"] = WV[j] * (1 - 2 * t) + 0.05 * t
    return v


def design(PATTERN=None):
    PATTERN = PATTERN or globals()["PATTERN"]
    X = Mat(Vec((sym(f"x{i}{j}") if PATTERN[i][j] else const(0)) for j in range(P)) for i in range(N))
    data, indices, indptr = Vec(), Vec(), Vec([0])
    for j in range(P):
        for i in range(N):
            if PATTERN[i][j]:
                data.append(sym(f"x{i}{j}"))
                indices.append(i)
        indptr.append(len(data))
    return X, (data, indptr, indices)


def make_obj(prog, cls, extra=None):
    attrs = {}
    for name, typ in prog.spec_of(cls) or []:
        if name in prog.init_params(cls):
            if name == "grp_ptr":
                attrs[name] = Vec([0, 1, 3])
            elif name == "grp_indices":
                attrs[name] = Vec([2, 0, 1])      # non-contiguous groups: {2}, {0, 1}
            elif name == "sample_weights":
                attrs[name] = Vec(sym(f"sw{i}") for i in range(N))
            elif name == "weights":
                n = 2 if "grp_ptr" in dict(prog.spec_of(cls)) else P
                attrs[name] = Vec(sym(f"wt{j}") for j in range(n))
            elif "bool" in typ:
                attrs[name] = False
            elif "[" in typ:
                raise Unsupported(f"constructor array {name} not modelled")
            else:
                attrs[name] = sym(name)
    attrs.update(extra or {})
    return Obj(cls, attrs)


def _vec_eq(a, b):
    if isinstance(a, Mat) or isinstance(b, Mat):
        return len(a) == len(b) and all(_vec_eq(x, y) for x, y in zip(a, b))
    if isinstance(a, (Vec, list, tuple)):
        return isinstance(b, (Vec, list, tuple)) and len(a) == len(b) and all(_vec_eq(x, y) for x, y in zip(a, b))
    if a is None or b is None:
        return a is b
    return R(a).equals(R(b))


def _first_diff(rg, a, b, path=""):
    if isinstance(a, (Mat, Vec, list, tuple)):
        if not isinstance(b, (Mat, Vec, list, tuple)) or len(a) != len(b):
            return path + ": shapes differ"
        for k, (x, y) in enumerate(zip(a, b)):
            d = _first_diff(rg, x, y, f"{path}[{k}]")
            if d:
                return d
        return None
    if a is None or b is None:
        return None if a is b else path + ": None vs value"
    if R(a).equals(R(b)):
        return None
    try:
        return f"{path}: {rg.num(a):.6g} vs {rg.num(b):.6g}"
    except Unsupported:
        return f"{path}: terms differ"


def _cls(reg, name):
    for c in reg:
        if c.name == name:
            return c
    return None


def _func(A, module, name):
    m = A.prog.modules.get(module)
    f = m.functions.get(name) if m else None
    if f is None:
        raise AnalysisError(f"{module}.{name} missing")
    return f


def r_kernel_eq(A, ctx, scope, rule="R-KERNEL-EQ", select=None):
    ctx.rule(rule, "dense and CSC copies of every solver kernel, lifted on one small design with "
             "structural zeros and a permuted working set, leave equal terms in the coefficient "
             "array, the model fit and the returned arrays (same datafit and penalty objects, "
             "initialised through initialize / initialize_sparse)")
    prog = A.prog
    n = 0
    X, csc = design()

    def run(tag, fn_d, fn_s, mk, where, worlds=None):
        """mk(L, sparse) -> (args, observed) ; observed() returns the arrays to compare"""
        if worlds:
            decided = 0
            for k, extra in enumerate(worlds):
                decided += bool(run1(f"{tag}, direction x{k}", fn_d, fn_s, mk, where, extra, tolerant=True))
            if select is None or select(fn_d):
                if decided < 2:
                    ctx.ob(rule, f"{fn_d.fq}::{tag}::variants", None,
                           detail=f"only {decided} of {len(worlds)} direction lengths were decided")
        else:
            run1(tag, fn_d, fn_s, mk, where, None)

    def run1(tag, fn_d, fn_s, mk, where, extra, tolerant=False):
        nonlocal n
        if select is not None and not select(fn_d):
            return False
        key = f"{fn_d.fq}::{tag}"
        import signal

        def _alarm(*_):
            raise Unsupported("time budget of the case exceeded (term growth)")
        old = signal.signal(signal.SIGALRM, _alarm)
        signal.alarm(int(scope.get("budget_s", 300)))
        import time as _t
        t0 = _t.time()
        try:
            outs = []
            for sparse in (False, True):
                rg = Region(world())
                if extra:
                    rg.values.update(extra)
                L = RegionLifter(prog, rg, max_steps=40000)
                args, observed = mk(L, sparse)
                ret = L.call_function(fn_s if sparse else fn_d, args)
                outs.append((observed(), ret, rg))
            (oa, ra, rg), (ob, rb, _) = outs
            n += 1
            import os, time as _t
            if os.environ.get("SA_TIMING"):
                print(f"  timing {key}: {_t.time() - t0:.1f}s")
            d = _first_diff(rg, [oa, ra], [ob, rb])
            ctx.ob(rule, key, d is None,
                   what=f"{fn_d.name} and {fn_s.name} disagree with {tag} on the 3x3 design with "
                        f"structural zeros: {d} (dense vs CSC)", loc=where)
            return True
        except Raised as e:
            n += 1
            ctx.ob(rule, key, False, what=f"{fn_d.name}/{fn_s.name} raises with {tag}: {e}", loc=where)
            return True
        except (Unsupported, ZeroDivisionError) as e:
            if tolerant and "region boundary" in str(e):
                ctx.note(f"{rule}: {key}: this direction length ends on a region boundary (never-accepted "
                         "step): variant skipped")
                return False
            ctx.ob(rule, key, None, detail=f"not lifted: {e}")
            return False
        finally:
            signal.alarm(0)
            signal.signal(signal.SIGALRM, old)
            import os
            if os.environ.get("SA_TIMING"):
                print(f"  total {key}: {_t.time() - t0:.1f}s")

    y = Vec(sym(f"y{i}") for i in range(N))
    ws = Vec([2, 0])
    l1 = _cls(prog.penalties, "L1")

    def init(L, dobj, sparse, yv, X=X, csc=csc):
        m = dobj.cls.find_method("initialize_sparse" if sparse else "initialize")
        if m is not None and m.cls.name not in ("BaseDatafit", "BaseMultitaskDatafit"):
            L.call_function(m, (list(csc) if sparse else [X]) + [yv], self_obj=dobj)

    # second design: column 1 is empty (a feature absent from a fold); its coordinate constant is 0 and
    # a warm start may carry a non-zero coefficient on it
    X_e, csc_e = design(PATTERN_EMPTY)
    ws_e = Vec([2, 1])

    # ---- single-task coordinate kernels ------------------------------------------
    cd_d = _func(A, "skglm.solvers.anderson_cd", "_cd_epoch")
    cd_s = _func(A, "skglm.solvers.anderson_cd", "_cd_epoch_sparse")
    cg_d = _func(A, "skglm.solvers.common", "construct_grad")
    cg_s = _func(A, "skglm.solvers.common", "construct_grad_sparse")
    for dcls in prog.datafits:
        if dcls.find_method("gradient_scalar_sparse") is None or dcls.find_method("gradient_scalar") is None:
            continue
        if dcls.is_subclass_of(prog.BaseMultitaskDatafit) or "grp_ptr" in dict(prog.spec_of(dcls) or []):
            continue
        if dcls.name == "Cox":
            continue          # needs a two-column target: decided in rules/cox.py
        try:
            make_obj(prog, dcls)
        except Unsupported as e:
            ctx.note(f"{rule}: {dcls.name} skipped: {e}")
            continue

        def mk_cd(L, sparse, dcls=dcls):
            dobj = make_obj(prog, dcls)
            pobj = Obj(l1, {"alpha": sym("alpha"), "positive": False})
            init(L, dobj, sparse, y)
            w = Vec(sym(f"w{j}") for j in range(P))
            Xw = Vec(sym(f"Xw{i}") for i in range(N))
            lc = Vec(sym(f"lc{j}") for j in range(P))
            args = (list(csc) if sparse else [X]) + [y, w, Xw, lc, dobj, pobj, ws]
            return args, (lambda: [w, Xw])

        def mk_cg(L, sparse, dcls=dcls):
            dobj = make_obj(prog, dcls)
            init(L, dobj, sparse, y)
            w = Vec(sym(f"w{j}") for j in range(P))
            Xw = Vec(sym(f"Xw{i}") for i in range(N))
            args = (list(csc) if sparse else [X]) + [y, w, Xw, dobj, ws]
            return args, (lambda: [])
        def mk_cd_e(L, sparse, dcls=dcls):
            dobj = make_obj(prog, dcls)
            pobj = Obj(l1, {"alpha": sym("alpha"), "positive": False})
            init(L, dobj, sparse, y, X_e, csc_e)
            w = Vec(sym(f"w{j}") for j in range(P))
            Xw = Vec(sym(f"Xw{i}") for i in range(N))
            lc = Vec([sym("lc0"), const(0), sym("lc2")])
            args = (list(csc_e) if sparse else [X_e]) + [y, w, Xw, lc, dobj, pobj, ws_e]
            return args, (lambda: [w, Xw])
        if dcls.find_method("get_lipschitz") is not None or True:
            run(f"{dcls.name} x L1", cd_d, cd_s, mk_cd, loc(cd_s, cd_s.node))
            if dcls.name in EMPTY_COLUMN_CASES:
                run(f"{dcls.name} x L1, empty column with a non-zero coefficient", cd_d, cd_s, mk_cd_e,
                    loc(cd_s, cd_s.node))
        run(f"{dcls.name}", cg_d, cg_s, mk_cg, loc(cg_s, cg_s.node))
    # ---- group kernels ---------------------------------------------------------------
    gb_d = _func(A, "skglm.solvers.group_bcd", "_bcd_epoch")
    gb_s = _func(A, "skglm.solvers.group_bcd", "_bcd_epoch_sparse")
    gg_d = _func(A, "skglm.solvers.group_bcd", "_construct_grad")
    gg_s = _func(A, "skglm.solvers.group_bcd", "_construct_grad_sparse")
    wgl2 = _cls(prog.penalties, "WeightedGroupL2")
    gws = Vec([1])        # one block per epoch: nested block norms grow too fast otherwise
    for dcls in prog.datafits:
        if dcls.find_method("gradient_g_sparse") is None:
            continue

        def mk_gb(L, sparse, dcls=dcls):
            dobj = make_obj(prog, dcls)
            pobj = make_obj(prog, wgl2)
            init(L, dobj, sparse, y)
            w = Vec(sym(f"w{j}") for j in range(P))
            Xw = Vec(sym(f"Xw{i}") for i in range(N))
            lc = Vec(sym(f"lc{j}") for j in range(2))
            args = (list(csc) if sparse else [X]) + [y, w, Xw, lc, dobj, pobj, gws]
            return args, (lambda: [w, Xw])

        def mk_gg(L, sparse, dcls=dcls):
            dobj = make_obj(prog, dcls)
            init(L, dobj, sparse, y)
            w = Vec(sym(f"w{j}") for j in range(P))
            Xw = Vec(sym(f"Xw{i}") for i in range(N))
            args = (list(csc) if sparse else [X]) + [y, w, Xw, dobj, gws]
            return args, (lambda: [])
        run(f"{dcls.name} x WeightedGroupL2", gb_d, gb_s, mk_gb, loc(gb_s, gb_s.node))
        run(f"{dcls.name}", gg_d, gg_s, mk_gg, loc(gg_s, gg_s.node))
    # ---- multitask kernels --------------------------------------------------------------
    mb_d = _func(A, "skglm.solvers.multitask_bcd", "_bcd_epoch")
    mb_s = _func(A, "skglm.solvers.multitask_bcd", "_bcd_epoch_sparse")
    mg_d = _func(A, "skglm.solvers.multitask_bcd", "construct_grad")
    mg_s = _func(A, "skglm.solvers.multitask_bcd", "construct_grad_sparse")
    l21 = _cls(prog.penalties, "L2_1")
    Y = Mat(Vec(sym(f"Y{i}{t}") for t in range(T)) for i in range(N))
    for dcls in prog.datafits:
        if dcls.find_method("gradient_j_sparse") is None:
            continue

        def mk_mb(L, sparse, dcls=dcls):
            dobj = make_obj(prog, dcls)
            pobj = make_obj(prog, l21)
            init(L, dobj, sparse, Y)
            W = Mat(Vec(sym(f"W{j}{t}") for t in range(T)) for j in range(P))
            XW = Mat(Vec(sym(f"XW{i}{t}") for t in range(T)) for i in range(N))
            lc = Vec(sym(f"lc{j}") for j in range(P))
            args = (list(csc) if sparse else [X]) + [Y, W, XW, lc, dobj, pobj, Vec([2])]
            return args, (lambda: [W, XW])

        def mk_mg(L, sparse, dcls=dcls):
            dobj = make_obj(prog, dcls)
            init(L, dobj, sparse, Y)
            W = Mat(Vec(sym(f"W{j}{t}") for t in range(T)) for j in range(P))
            XW = Mat(Vec(sym(f"XW{i}{t}") for t in range(T)) for i in range(N))
            args = (list(csc) + [Y, XW, dobj, ws]) if sparse else [X, Y, W, XW, dobj, ws]
            return args, (lambda: [])
        run(f"{dcls.name} x L2_1", mb_d, mb_s, mk_mb, loc(mb_s, mb_s.node))
        run(f"{dcls.name}", mg_d, mg_s, mk_mg, loc(mg_s, mg_s.node))
    # ---- prox-Newton kernels ----------------------------------------------------------------
    pn = "skglm.solvers.prox_newton"
    pg_d, pg_s = _func(A, pn, "_construct_grad"), _func(A, pn, "_construct_grad_sparse")
    dd_d, dd_s = _func(A, pn, "_descent_direction"), _func(A, pn, "_descent_direction_s")
    ls_d, ls_s = _func(A, pn, "_backtrack_line_search"), _func(A, pn, "_backtrack_line_search_s")
    for dcls in prog.datafits:
        if dcls.find_method("raw_hessian") is None or dcls.find_method("raw_grad") is None:
            continue
        if dcls.name in ("Cox",) or dcls.is_subclass_of(prog.BaseMultitaskDatafit) \
                or "grp_ptr" in dict(prog.spec_of(dcls) or []):
            continue
        try:
            make_obj(prog, dcls)
        except Unsupported:
            continue
        for fi in (False, True):
            def mk_pg(L, sparse, dcls=dcls):
                dobj = make_obj(prog, dcls)
                init(L, dobj, sparse, y)
                w = Vec(sym(f"w{j}") for j in range(P))
                Xw = Vec(sym(f"Xw{i}") for i in range(N))
                return (list(csc) if sparse else [X]) + [y, w, Xw, dobj, ws], (lambda: [])

            def mk_dd(L, sparse, dcls=dcls, fi=fi):
                dobj = make_obj(prog, dcls)
                pobj = Obj(l1, {"alpha": sym("alpha"), "positive": False})
                init(L, dobj, sparse, y)
                w = Vec([sym(f"w{j}") for j in range(P)] + ([sym("b0")] if fi else []))
                Xw = Vec(sym(f"Xw{i}") for i in range(N))
                grad_ws = Vec([sym("g0"), sym("g1")])
                args = (list(csc) if sparse else [X]) + [y, w, Xw, fi, grad_ws, dobj, pobj, ws,
                                                          sym("BIGTOL"), "subdiff"]
                return args, (lambda: [w, Xw])

            def mk_ls(L, sparse, dcls=dcls, fi=fi):
                dobj = make_obj(prog, dcls)
                pobj = Obj(l1, {"alpha": sym("alpha"), "positive": False})
                init(L, dobj, sparse, y)
                w = Vec([sym(f"w{j}") for j in range(P)] + ([sym("b0")] if fi else []))
                Xw = Vec(sym(f"Xw{i}") for i in range(N))
                delta = Vec([sym("d0"), sym("d1")] + ([sym("db")] if fi else []))
                Xd = Vec(sym(f"Xd{i}") for i in range(N))
                args = (list(csc) if sparse else [X]) + [y, w, Xw, fi, dobj, pobj, delta, Xd, ws]
                return args, (lambda: [w, Xw])
            if not fi:
                run(f"{dcls.name}", pg_d, pg_s, mk_pg, loc(pg_s, pg_s.node))
            if fi and dcls.name in HEAVY_DIRECTION:
                if select is None or select(dd_d):
                    ctx.note(f"{rule}: _descent_direction with {dcls.name}, fit_intercept=True not decided: "
                             "the Newton intercept update divides by a sum of curvatures and the terms "
                             "exceed the size budget (decided without intercept, and with intercept "
                             "for the other datafits)")
            else:
                run(f"{dcls.name} x L1, fit_intercept={fi}", dd_d, dd_s, mk_dd, loc(dd_s, dd_s.node))
            # several lengths of the direction: on the longer ones the unit step is rejected
            # and the backtracking branch of both copies is lifted
            base = {"d0": -0.31, "d1": 0.26, "db": 0.13, "Xd0": -0.05, "Xd1": 0.05, "Xd2": 0.15}
            run(f"{dcls.name} x L1, fit_intercept={fi}", ls_d, ls_s, mk_ls, loc(ls_s, ls_s.node),
                worlds=[{k: v * sc for k, v in base.items()} for sc in (1.0, 4.0, 16.0, -4.0)])
    ctx.floor(rule, n, scope.get("floor", 10))


# ------------------------------------------------------------------ CSC helper functions
PATTERN_EMPTY = [[1, 0, 1], [1, 0, 0], [0, 0, 1]]        # column 1 is empty


def _design(pattern):
    n, p = len(pattern), len(pattern[0])
    X = Mat(Vec((sym(f"x{i}{j}") if pattern[i][j] else const(0)) for j in range(p)) for i in range(n))
    data, indices, indptr = Vec(), Vec(), Vec([0])
    for j in range(p):
        for i in range(n):
            if pattern[i][j]:
                data.append(sym(f"x{i}{j}"))
                indices.append(i)
        indptr.append(len(data))
    return X, (data, indptr, indices)


def _to_dense(L, triple, n_rows):
    data, indptr, indices = triple
    ncol = len(indptr) - 1
    M = Mat(Vec(const(0) for _ in range(ncol)) for _ in range(n_rows))
    for j in range(ncol):
        lo, hi = L.as_int(indptr[j]), L.as_int(indptr[j + 1])
        if not 0 <= lo <= hi <= len(data):
            raise Raised(f"column pointer ({lo}, {hi}) outside the {len(data)} stored entries")
        for k in range(lo, hi):
            r = L.as_int(indices[k])
            M[r][j] = R(M[r][j]) + R(data[k])
    return M


def r_csc_helpers(A, ctx, scope, rule="R-CSC-HELPERS"):
    ctx.rule(rule, "the CSC helper functions mean what their dense counterparts compute, on designs "
             "with structural zeros and with an empty column: sparse_columns_slice(cols, X) == X[:, cols] "
             "(valid pointers included), _X_dot_vec == X @ v, _XT_dot_vec == X.T @ v, _XXT_dot_vec == "
             "X @ X.T @ v, _sparse_xj_dot == X[:, j] @ v")
    mod = "skglm.utils.sparse_ops"
    n = 0
    for pname, pattern in (("structural zeros", PATTERN), ("empty column", PATTERN_EMPTY)):
        X, csc = _design(pattern)
        v3 = Vec(sym(f"y{i}") for i in range(N))
        vp = Vec(sym(f"w{j}") for j in range(P))
        Xt = Mat(Vec(c) for c in zip(*X))

        def fresh():
            rg = Region(world())
            return RegionLifter(A.prog, rg, max_steps=20000), rg
        cases = []
        f = _func(A, mod, "sparse_columns_slice")
        # a four-column design for unsorted, non-contiguous selections whose first and last
        # entries look like a contiguous block ([0, 3, 2]: last - first == size - 1)
        X4, csc4 = _design([[1, 0, 1, 1], [1, 1, 0, 0], [0, 1, 1, 1]])
        for cols in ([0, 3, 2], [1, 3, 2], [3, 1, 0, 2]):
            def go4(L, cols=cols, f=f):
                for i in range(N):
                    L.rg.values[f"x{i}3"] = 0.4 - 0.3 * i
                tri = L.call_function(f, [Vec(cols)] + list(csc4))
                return _to_dense(L, tri, N), Mat(Vec(row[c] for c in cols) for row in X4)
            cases.append((f, f"4 columns, cols={cols}", go4))
        for cols in ([1, 2], [2, 0], [0, 1, 2], [1]):
            def go(L, cols=cols, f=f):
                tri = L.call_function(f, [Vec(cols)] + list(csc))
                got = _to_dense(L, tri, N)
                exp = Mat(Vec(row[c] for c in cols) for row in X)
                return got, exp
            cases.append((f, f"cols={cols}", go))
        f1 = _func(A, mod, "_X_dot_vec")
        cases.append((f1, "X @ v", lambda L, f1=f1: (L.call_function(f1, list(csc) + [vp, N]), L.dot(X, vp))))
        f2 = _func(A, mod, "_XT_dot_vec")
        cases.append((f2, "X.T @ v", lambda L, f2=f2: (L.call_function(f2, list(csc) + [v3]), L.dot(Xt, v3))))
        f3 = _func(A, mod, "_XXT_dot_vec")
        cases.append((f3, "X @ X.T @ v",
                      lambda L, f3=f3: (L.call_function(f3, list(csc) + [v3, N]), L.dot(X, L.dot(Xt, v3)))))
        f4 = _func(A, mod, "_sparse_xj_dot")
        for j in range(P):
            cases.append((f4, f"j={j}", lambda L, j=j, f4=f4: (
                L.call_function(f4, list(csc) + [j, v3]), L.dot(Vec(row[j] for row in X), v3))))
        for fn_, tag, go in cases:
            key = f"{fn_.fq}::{pname}::{tag}"
            try:
                L, rg = fresh()
                got, exp = go(L)
                d = _first_diff(rg, got, exp)
                n += 1
                ctx.ob(rule, key, d is None,
                       what=f"{fn_.name} ({tag}) on the 3x3 design with {pname} differs from its dense "
                            f"meaning: {d}", loc=loc(fn_, fn_.node))
            except Raised as e:
                n += 1
                ctx.ob(rule, key, False, what=f"{fn_.name} ({tag}) on the design with {pname}: {e}",
                       loc=loc(fn_, fn_.node))
            except (Unsupported, ZeroDivisionError, IndexError) as e:
                ctx.ob(rule, key, None, detail=f"not lifted: {e}")
    ctx.floor(rule, n, scope.get("floor", 16))


# ------------------------------------------------------------------ fixed-point scores
def r_fixpoint(A, ctx, scope, rule="R-FIXPOINT"):
    ctx.rule(rule, "fixed-point scores are what they say: for a working set in non-trivial order and "
             "coordinate-dependent weights, entry k of dist_fix_point_* is |w_j - prox(w_j - g_k / L_k, "
             "1 / L_k, j)| (Euclidean norm for blocks) with j = ws[k], the gradient and the constant "
             "taken at position k, the coefficient and the prox at coordinate j")
    prog = A.prog
    n = 0

    def fresh():
        rg = Region(world())
        return RegionLifter(prog, rg, max_steps=20000), rg
    # ---- scalar
    f = _func(A, "skglm.solvers.common", "dist_fix_point_cd")
    for pname in ("WeightedL1", "WeightedMCPenalty"):
        pcls = _cls(prog.penalties, pname)
        if pcls is None:
            continue
        key = f"{f.fq}::{pname}"
        try:
            L, rg = fresh()
            pobj = make_obj(prog, pcls)
            w = Vec(sym(f"w{j}") for j in range(P))
            ws = Vec([2, 0])
            g = Vec([sym("g0"), sym("g1")])
            lc = Vec([sym("lc0"), sym("lc1")])
            got = L.call_function(f, [w, g, lc, None, pobj, ws])
            exp = Vec()
            for k, j in enumerate(ws):
                step = const(1) / lc[k]
                u = L.call_function(pcls.find_method("prox_1d"), [w[j] - step * g[k], step, j], self_obj=pobj)
                exp.append(L.absval(R(w[j]) - R(u)))
            d = _first_diff(rg, Vec(list(got)[:2]), exp)
            n += 1
            ctx.ob(rule, key, d is None, what=f"dist_fix_point_cd with {pname}, ws = [2, 0]: {d} (score vs "
                   "|w_j - prox(w_j - g_k / L_k, 1 / L_k, j)|)", loc=loc(f, f.node))
        except Raised as e:
            n += 1
            ctx.ob(rule, key, False, what=f"dist_fix_point_cd raises: {e}", loc=loc(f, f.node))
        except (Unsupported, ZeroDivisionError, IndexError) as e:
            ctx.ob(rule, key, None, detail=f"not lifted: {e}")
    # ---- groups
    f = _func(A, "skglm.solvers.common", "dist_fix_point_bcd")
    pcls = _cls(prog.penalties, "WeightedGroupL2")
    key = f"{f.fq}::WeightedGroupL2"
    try:
        L, rg = fresh()
        pobj = make_obj(prog, pcls)
        w = Vec(sym(f"w{j}") for j in range(P))
        ws = Vec([1, 0])                       # groups {0, 1} then {2}
        g = Vec([sym("g0"), sym("g1"), sym("g2")])          # stacked: group 1 (2 entries), group 0
        lc = Vec([sym("lc0"), sym("lc1")])
        got = L.call_function(f, [w, g, lc, None, pobj, ws])
        exp = Vec()
        ptr = 0
        gi, gp = pobj.attrs["grp_indices"], pobj.attrs["grp_ptr"]
        for k, grp in enumerate(ws):
            idxs = [gi[i] for i in range(gp[grp], gp[grp + 1])]
            step = const(1) / lc[k]
            wg = Vec(w[i] for i in idxs)
            gg = Vec(g[ptr + i] for i in range(len(idxs)))
            ptr += len(idxs)
            u = L.call_function(pcls.find_method("prox_1group"),
                                [L.binop(ast.Sub, wg, L.binop(ast.Mult, gg, step)), step, grp], self_obj=pobj)
            exp.append(L.norm2(L.binop(ast.Sub, wg, Vec(u))))
        d = _first_diff(rg, Vec(list(got)[:2]), exp)
        n += 1
        ctx.ob(rule, key, d is None, what=f"dist_fix_point_bcd with WeightedGroupL2, ws = [1, 0]: {d}",
               loc=loc(f, f.node))
    except Raised as e:
        n += 1
        ctx.ob(rule, key, False, what=f"dist_fix_point_bcd raises: {e}", loc=loc(f, f.node))
    except (Unsupported, ZeroDivisionError, IndexError) as e:
        ctx.ob(rule, key, None, detail=f"not lifted: {e}")
    # ---- groups, first group of the working set with zero curvature: its score is skipped, the
    # stacked gradient of the groups after it is still read at their own offset
    f = _func(A, "skglm.solvers.common", "dist_fix_point_bcd")
    key = f"{f.fq}::WeightedGroupL2::zero-curvature group first"
    try:
        L, rg = fresh()
        pobj = make_obj(prog, pcls)
        w = Vec(sym(f"w{j}") for j in range(P))
        ws = Vec([1, 0])
        g = Vec([sym("g0"), sym("g1"), sym("g2")])
        lc = Vec([const(0), sym("lc1")])
        got = L.call_function(f, [w, g, lc, None, pobj, ws])
        gi, gp = pobj.attrs["grp_indices"], pobj.attrs["grp_ptr"]
        idxs = [gi[i] for i in range(gp[0], gp[1])]
        step = const(1) / lc[1]
        wg = Vec(w[i] for i in idxs)
        gg = Vec([g[2]])
        u = L.call_function(pcls.find_method("prox_1group"),
                            [L.binop(ast.Sub, wg, L.binop(ast.Mult, gg, step)), step, 0], self_obj=pobj)
        exp1 = L.norm2(L.binop(ast.Sub, wg, Vec(u)))
        n += 1
        d = _first_diff(rg, Vec([got[1]]), Vec([exp1]))
        ctx.ob(rule, key, d is None,
               what=f"dist_fix_point_bcd, ws = [1, 0] with zero curvature on the first group: the second "
                    f"group is scored with another group's gradient slice ({d})", loc=loc(f, f.node))
    except Raised as e:
        n += 1
        ctx.ob(rule, key, False, what=f"dist_fix_point_bcd raises: {e}", loc=loc(f, f.node))
    except (Unsupported, ZeroDivisionError, IndexError) as e:
        ctx.ob(rule, key, None, detail=f"not lifted: {e}")
    # ---- multitask
    f = _func(A, "skglm.solvers.multitask_bcd", "dist_fix_point_bcd")
    pcls = _cls(prog.penalties, "L2_1")
    key = f"{f.fq}::L2_1"
    try:
        L, rg = fresh()
        pobj = make_obj(prog, pcls)
        W = Mat(Vec(sym(f"W{j}{t}") for t in range(T)) for j in range(P))
        ws = Vec([2, 0])
        G = Mat(Vec(sym(f"XW{k}{t}") for t in range(T)) for k in range(2))     # any symbols: gradient rows
        lc = Vec([sym("lc0"), sym("lc1")])
        got = L.call_function(f, [W, G, lc, None, pobj, ws])
        exp = Vec()
        for k, j in enumerate(ws):
            step = const(1) / lc[k]
            arg = L.binop(ast.Sub, Vec(W[j]), L.binop(ast.Mult, Vec(G[k]), step))
            u = L.call_function(pcls.find_method("prox_1feat"), [arg, step, j], self_obj=pobj)
            exp.append(L.norm2(L.binop(ast.Sub, Vec(W[j]), Vec(u))))
        d = _first_diff(rg, Vec(list(got)[:2]), exp)
        n += 1
        ctx.ob(rule, key, d is None, what=f"multitask dist_fix_point_bcd with L2_1, ws = [2, 0]: {d}",
               loc=loc(f, f.node))
    except Raised as e:
        n += 1
        ctx.ob(rule, key, False, what=f"multitask dist_fix_point_bcd raises: {e}", loc=loc(f, f.node))
    except (Unsupported, ZeroDivisionError, IndexError) as e:
        ctx.ob(rule, key, None, detail=f"not lifted: {e}")
    ctx.floor(rule, n, scope.get("floor", 4))


# ------------------------------------------------------------------ datafit accessor pairs
def r_accessor_eq(A, ctx, scope, rule="R-ACCESSOR-EQ", select=None):
    ctx.rule(rule, "every datafit accessor that exists in a dense and a `_sparse` version returns equal "
             "terms on a 3x3 and on a 4x3 design with structural zeros (arguments bound by parameter "
             "name and sized by their role, so that a row count taken from the wrong array shows; "
             "spectral norms of equal matrices are one opaque symbol, so dense `norm(X, ord=2)` and "
             "the CSC power iteration are compared through the matrix they are taken of)")
    prog = A.prog
    X, csc = design()
    y = Vec(sym(f"y{i}") for i in range(N))
    Y = Mat(Vec(sym(f"Y{i}{t}") for t in range(T)) for i in range(N))
    n = 0
    PAT43 = [[1, 0, 1], [1, 1, 0], [0, 1, 1], [1, 0, 0]]
    X43, csc43 = _design(PAT43)
    # a wide design for group datafits: 2 samples x 4 features, groups [1, 0, 3] (unsorted, not the
    # contiguous run its first and last entries suggest, more features than samples) and [2]
    X24, csc24 = _design([[1, 1, 0, 1], [1, 0, 1, 1]])
    WIDE = dict(grp_ptr=Vec([0, 3, 4]), grp_indices=Vec([1, 0, 3, 2]))
    for tag, Xd, cscd, R_, C_ in (("3x3", X, csc, N, P), ("4x3", X43, csc43, 4, 3), ("2x4 wide group", X24, csc24, 2, 4)):
        for dcls in prog.datafits:
            multitask = dcls.is_subclass_of(prog.BaseMultitaskDatafit)
            wide = tag.startswith("2x4")
            if wide and "grp_ptr" not in dict(prog.spec_of(dcls) or []):
                continue
            names = sorted(m for m in dcls.all_methods() if m.endswith("_sparse"))
            for ms in names:
                md = ms[: -len("_sparse")]
                fs, fd = dcls.find_method(ms), dcls.find_method(md)
                if fd is None or fs is None or fs.cls.name.startswith("Base") or fd.cls.name.startswith("Base"):
                    continue
                if md.startswith("initialize") or dcls.name == "Cox":
                    continue
                if select is not None and not select(md):
                    continue
                key = f"{dcls.fq}::{md}::{tag}"
                yxt = any(p_.lower().startswith("yxt") for p_ in fd.call_params())
                ny = C_ if yxt else R_              # yXT is features x samples
                nw = C_
                nxw = R_
                try:
                    outs = []
                    for sparse, f in ((False, fd), (True, fs)):
                        vals = world()
                        for i in range(4):
                            vals.setdefault(f"y{i}", 0.9 - 0.2 * i)
                            vals.setdefault(f"Xw{i}", 0.31 - 0.27 * i)
                            vals.setdefault(f"sw{i}", 0.5 + 0.3 * i)
                            for t in range(T):
                                vals.setdefault(f"Y{i}{t}", 0.4 * (t + 1) - 0.3 * i)
                                vals.setdefault(f"XW{i}{t}", 0.3 * (t + 1) - 0.45 * i)
                            for j in range(4):
                                vals.setdefault(f"x{i}{j}", 0.35 + 0.1 * j - 0.05 * i + 0.3 * ((i + j) % 2))
                                vals.setdefault(f"w{j}", 0.2 - 0.15 * j)
                        rg = Region(vals)
                        L = RegionLifter(prog, rg, max_steps=40000)
                        dobj = make_obj(prog, dcls, extra=WIDE if wide else None)
                        if "sample_weights" in dobj.attrs:
                            dobj.attrs["sample_weights"] = Vec(sym(f"sw{i}") for i in range(ny))
                        yv = Mat(Vec(sym(f"Y{i}{t}") for t in range(T)) for i in range(ny)) if multitask \
                            else Vec(sym(f"y{i}") for i in range(ny))
                        im = dcls.find_method("initialize_sparse" if sparse else "initialize")
                        if im is not None and not im.cls.name.startswith("Base"):
                            L.call_function(im, (list(cscd) if sparse else [Xd]) + [yv], self_obj=dobj)
                        args = []
                        for p in f.call_params():
                            pl = p.lower()
                            if pl.endswith("_data"):
                                args.append(cscd[0])
                            elif pl.endswith("_indptr"):
                                args.append(cscd[1])
                            elif pl.endswith("_indices"):
                                args.append(cscd[2])
                            elif p in ("X", "yXT"):
                                args.append(Xd)
                            elif p in ("y", "Y"):
                                args.append(yv)
                            elif p == "w":
                                args.append(Vec(sym(f"w{j}") for j in range(nw)))
                            elif p == "W":
                                args.append(Mat(Vec(sym(f"W{j}{t}") for t in range(T)) for j in range(nw)))
                            elif p in ("Xw", "yXTw"):
                                args.append(Vec(sym(f"Xw{i}") for i in range(nxw)))
                            elif p == "XW":
                                args.append(Mat(Vec(sym(f"XW{i}{t}") for t in range(T)) for i in range(nxw)))
                            elif p == "j":
                                args.append(2)
                            elif p == "g":
                                args.append(0 if wide else 1)
                            else:
                                raise Unsupported(f"parameter {p} of {f.name} not bound")
                        outs.append((L.call_function(f, args, self_obj=dobj), rg))
                    (a, rg), (b, _) = outs
                    n += 1
                    d = _first_diff(rg, a, b)
                    ctx.ob(rule, key, d is None,
                           what=f"{dcls.name}.{md} and {dcls.name}.{ms} differ on the {tag} design with structural "
                                f"zeros: {d} (dense vs CSC)", loc=loc(fs, fs.node))
                except Raised as e:
                    n += 1
                    ctx.ob(rule, key, False, what=f"{dcls.name}.{md}/{ms} on the {tag} design: {e}",
                           loc=loc(fs, fs.node))
                except (Unsupported, ZeroDivisionError) as e:
                    ctx.ob(rule, key, None, detail=f"not lifted: {e}")
    # full_grad_sparse stacks the coordinate gradients
    for dcls in prog.datafits:
        ff = dcls.find_method("full_grad_sparse")
        fg = dcls.find_method("gradient_scalar_sparse") or dcls.find_method("gradient_j_sparse")
        if ff is None or fg is None or ff.cls.name.startswith("Base") or dcls.name == "Cox":
            continue
        multi = dcls.is_subclass_of(prog.BaseMultitaskDatafit)
        if select is not None and not select("full_grad"):
            continue
        key = f"{dcls.fq}::full_grad_sparse"
        try:
            rg = Region(world())
            L = RegionLifter(prog, rg, max_steps=40000)
            dobj = make_obj(prog, dcls)
            im = dcls.find_method("initialize_sparse")
            yy = Y if multi else y
            if im is not None and not im.cls.name.startswith("Base"):
                L.call_function(im, list(csc) + [yy], self_obj=dobj)

            def bind(f, j=None):
                out = []
                for p in f.call_params():
                    pl = p.lower()
                    out.append(csc[0] if pl.endswith("_data") else csc[1] if pl.endswith("_indptr")
                               else csc[2] if pl.endswith("_indices") else yy if p in ("y", "Y")
                               else Vec(sym(f"w{k}") for k in range(P)) if p == "w"
                               else Mat(Vec(sym(f"W{k}{t}") for t in range(T)) for k in range(P)) if p == "W"
                               else Mat(Vec(sym(f"XW{i}{t}") for t in range(T)) for i in range(N)) if p == "XW"
                               else Vec(sym(f"Xw{i}") for i in range(N)) if p in ("Xw", "yXTw") else j)
                return out
            full = L.call_function(ff, bind(ff), self_obj=dobj)
            each = (Mat if multi else Vec)(L.call_function(fg, bind(fg, j), self_obj=dobj) for j in range(P))
            n += 1
            d = _first_diff(rg, full, each)
            ctx.ob(rule, key, d is None,
                   what=f"{dcls.name}.full_grad_sparse is not the stack of {fg.name} over the features: {d}",
                   loc=loc(ff, ff.node))
        except Raised as e:
            n += 1
            ctx.ob(rule, key, False, what=f"{dcls.name}.full_grad_sparse raises: {e}", loc=loc(ff, ff.node))
        except (Unsupported, ZeroDivisionError) as e:
            ctx.ob(rule, key, None, detail=f"not lifted: {e}")
    ctx.floor(rule, n, scope.get("floor", 15))


def r_zeroblock(A, ctx, scope, rule="R-ZEROBLOCK"):
    from ..region import DivByZero
    ctx.rule(rule, "power method on a block without stored entries: spectral_norm of a CSC block whose "
             "columns are all empty returns exactly 0 (the dense counterpart, norm(X_g, ord=2), is 0) and "
             "never divides by the zero norm of X X^T v - a convergence test that cannot pass at 0 "
             "(strict, or relative to the eigenvalue) makes the next iterate 0 / 0 and the group / global "
             "Lipschitz constant NaN")
    f = _func(A, "skglm.utils.sparse_ops", "spectral_norm")
    n = 0
    for tag, indptr in (("one empty column", [0, 0]), ("two empty columns", [0, 0, 0])):
        rg = Region(world())
        L = RegionLifter(A.prog, rg, max_steps=20000)
        key = f"{f.fq}::{tag}"
        try:
            r = L.call_function(f, [Vec(), Vec(indptr), Vec(), N])
            n += 1
            ctx.ob(rule, key, R(r).is_zero(),
                   what=f"spectral_norm of a block with {tag} returns {R(r)} instead of 0", loc=loc(f, f.node))
        except DivByZero as e:
            n += 1
            ctx.ob(rule, key, False,
                   what=f"spectral_norm of a block with {tag}: {e} - X X^T v is the zero vector, the convergence "
                        "test does not stop the iteration and the iterate is renormalised by its zero norm: "
                        "the returned constant is NaN (sparse group / global Lipschitz constants, hence NaN "
                        "coefficients where the dense path returns 0)", loc=loc(f, f.node))
        except Raised as e:
            n += 1
            ctx.ob(rule, key, False, what=f"spectral_norm of a block with {tag}: {e}", loc=loc(f, f.node))
        except (Unsupported, ZeroDivisionError, IndexError) as e:
            ctx.ob(rule, key, None, detail=f"not lifted: {e}")
    ctx.floor(rule, n, 2)
