"""Registry / interface rules: R-SPEC, R-MATRIX (with R-REQ / R-SLOT arity), R-CSC."""
import ast
import itertools

from ..model import norm_src, names_in, attr_chain, AnalysisError, FuncInfo, ClassInfo
from ..cfg import cfg_of
from .control import loc

BASES = ("BaseDatafit", "BaseMultitaskDatafit", "BasePenalty")


def _is_stub(fn):
    """method whose body is only a docstring / pass (interface placeholder)"""
    body = fn.node.body
    return all(isinstance(st, ast.Pass) or (isinstance(st, ast.Expr) and isinstance(st.value, ast.Constant))
               for st in body)


def class_attrs(prog, cls):
    """(methods {name: FuncInfo}, data attributes set)"""
    methods = cls.all_methods()
    attrs = set(n for n, _ in (prog.spec_of(cls) or []))
    init = cls.find_method("__init__")
    if init is not None:
        for st in ast.walk(init.node):
            if isinstance(st, ast.Assign):
                for t in st.targets:
                    for tt in (t.elts if isinstance(t, ast.Tuple) else [t]):
                        ch = attr_chain(tt) if isinstance(tt, ast.Attribute) else None
                        if ch and ch[0] == "self" and len(ch) == 2:
                            attrs.add(ch[1])
    return methods, attrs


# ---------------------------------------------------------------------- R-SPEC
def r_spec(A, ctx, scope, rule="R-SPEC"):
    ctx.rule(rule, "jitclass spec completeness: every self.<a> touched by a method of a "
             "datafit/penalty is a spec field or a method; every constructor parameter is a "
             "spec field and a params_to_dict key; every lazy attribute (spec field that is "
             "not a constructor parameter) read by a dense (resp. *_sparse) method is "
             "assigned by initialize (resp. initialize_sparse)")
    prog = A.prog
    n = 0
    for cls in prog.datafits + prog.penalties:
        spec = prog.spec_of(cls)
        spec_names = set(nm for nm, _ in (spec or []))
        methods = cls.all_methods()
        init_params = prog.init_params(cls)
        keys = prog.params_to_dict_keys(cls) or []
        for p in init_params:
            n += 1
            ctx.ob(rule, f"{cls.fq}::ctor::{p}", p in spec_names and p in keys,
                   what=f"{cls.name}: constructor parameter `{p}` is "
                        + ("missing from get_spec" if p not in spec_names else "missing from params_to_dict")
                        + ": compiled_clone cannot rebuild/compile the instance",
                   loc=loc(cls.find_method("__init__"), cls.node))
        # which attributes does each initialiser assign?
        def assigned(mname, seen=()):
            m = methods.get(mname)
            out = set()
            if m is None or mname in seen:
                return out
            for st in ast.walk(m.node):
                if isinstance(st, ast.Assign):
                    for t in st.targets:
                        ch = attr_chain(t) if isinstance(t, ast.Attribute) else None
                        if ch and ch[0] == "self" and len(ch) == 2:
                            out.add(ch[1])
                if isinstance(st, ast.Call) and isinstance(st.func, ast.Attribute):
                    ch = attr_chain(st.func)
                    if ch and ch[0] == "self" and len(ch) == 2 and ch[1] in methods:
                        out |= assigned(ch[1], seen + (mname,))
            return out
        init_dense, init_sparse = assigned("initialize"), assigned("initialize_sparse")
        lazy = spec_names - set(init_params)
        for mname, m in sorted(methods.items()):
            if mname in ("get_spec", "params_to_dict", "__init__") or m.cls.name in BASES:
                continue
            touched = {}
            for x in ast.walk(m.node):
                if isinstance(x, ast.Attribute) and isinstance(x.value, ast.Name) and x.value.id == "self":
                    touched.setdefault(x.attr, x)
            for a, node in sorted(touched.items()):
                if a in methods:
                    continue
                n += 1
                ok = a in spec_names
                ctx.ob(rule, f"{cls.fq}.{mname}::self.{a}", ok,
                       what=f"{cls.name}.{mname} uses `self.{a}` which is not in get_spec "
                            f"({sorted(spec_names)}): Numba typing error when the compiled "
                            "class is used", loc=loc(m, node))
                if ok and a in lazy and not mname.startswith("initialize") \
                        and isinstance(node.ctx, ast.Load):
                    n += 1
                    src = init_sparse if mname.endswith("_sparse") else init_dense
                    ctx.ob(rule, f"{cls.fq}.{mname}::lazy::{a}", a in src,
                           what=f"{cls.name}.{mname} reads the lazy attribute `{a}` but "
                                f"{'initialize_sparse' if mname.endswith('_sparse') else 'initialize'}"
                                " never assigns it", loc=loc(m, node))
    ctx.floor(rule, n, scope.get("floor", 150))


# -------------------------------------------------------------------- R-MATRIX
class _Done(Exception):
    pass


class Refuse(Exception):
    def __init__(self, kind, by):
        self.kind, self.by = kind, by


class Validator:
    """Static evaluation of BaseSolver._validate for one cell."""

    def __init__(self, A):
        self.A = A
        self.prog = A.prog
        vm = self.prog.modules.get("skglm.utils.validation")
        if vm is None or "check_attrs" not in vm.functions or "check_group_compatible" not in vm.functions:
            raise AnalysisError("anchor skglm.utils.validation.check_attrs missing")
        ca = vm.functions["check_attrs"]
        # the semantics relied upon: hasattr(<first parameter>, f"{name}{suffix}") over the
        # required list, the suffix coming from SPARSE_SUFFIX when support_sparse is set
        obj = ca.params[0] if ca.params else None
        ok = False
        for c in ast.walk(ca.node):
            if isinstance(c, ast.Call) and ast.unparse(c.func) == "hasattr" and len(c.args) == 2 \
                    and isinstance(c.args[0], ast.Name) and c.args[0].id == obj \
                    and isinstance(c.args[1], ast.JoinedStr) \
                    and sum(isinstance(v, ast.FormattedValue) for v in c.args[1].values) == 2:
                ok = True
        if not ok or "SPARSE_SUFFIX" not in {n.id for n in ast.walk(ca.node) if isinstance(n, ast.Name)}:
            raise AnalysisError("check_attrs no longer has the hasattr(obj, name+suffix) form "
                                "this evaluator models")
        self.suffix = "_sparse"
        self.cache = {}

    def has(self, cls, name):
        if cls is None:
            return False
        k = (cls.fq, name)
        if k not in self.cache:
            m, a = class_attrs(self.prog, cls)
            self.cache[k] = name in m or name in a
        return self.cache[k]

    def required(self, solver, which):
        v = solver.find_class_attr(which)
        if v is None:
            raise AnalysisError(f"{solver.name}.{which} missing")
        try:
            return ast.literal_eval(v)
        except Exception:
            raise AnalysisError(f"{solver.name}.{which} is not a literal")

    def check_attrs(self, cls, req, sparse, who):
        suffix = self.suffix if sparse else ""
        for attr in req:
            alts = (attr,) if isinstance(attr, str) else tuple(attr)
            if not any(self.has(cls, a + suffix) for a in alts):
                raise Refuse("AttributeError", f"check_attrs({who}: {' or '.join(alts)}{suffix})")

    UNKNOWN = object()

    def val(self, e, cell, names):
        """value of a simple expression of custom_checks (constants, locals, class names of
        the cell's datafit / penalty); UNKNOWN otherwise"""
        U = self.UNKNOWN
        if isinstance(e, ast.Constant):
            return e.value
        if isinstance(e, ast.Name):
            return self.locals.get(e.id, U)
        if isinstance(e, (ast.Tuple, ast.List)):
            vs = [self.val(x, cell, names) for x in e.elts]
            return U if any(v is U for v in vs) else tuple(vs)
        if isinstance(e, ast.Call) and ast.unparse(e.func) in ("str", "repr") and len(e.args) == 1:
            b = e.args[0]
            tgt = None
            if isinstance(b, ast.Attribute) and b.attr == "__class__":
                tgt = ast.unparse(b.value)
            elif isinstance(b, ast.Call) and ast.unparse(b.func) == "type" and len(b.args) == 1:
                tgt = ast.unparse(b.args[0])
            if tgt in (names["datafit"], names["penalty"]):
                cls = cell["datafit"] if tgt == names["datafit"] else cell["penalty"]
                return U if cls is None else f"<class '{cls.module.name}.{cls.name}'>"
            return U
        if isinstance(e, ast.Attribute) and e.attr == "__name__":
            b = e.value
            tgt = None
            if isinstance(b, ast.Attribute) and b.attr == "__class__":
                tgt = ast.unparse(b.value)
            elif isinstance(b, ast.Call) and ast.unparse(b.func) == "type" and len(b.args) == 1:
                tgt = ast.unparse(b.args[0])
            if tgt in (names["datafit"], names["penalty"]):
                cls = cell["datafit"] if tgt == names["datafit"] else cell["penalty"]
                return U if cls is None else cls.name
        return U

    def cond(self, e, cell, names):
        """evaluate a boolean expression of custom_checks; None = unknown"""
        if isinstance(e, ast.Compare) and len(e.ops) == 1 and isinstance(
                e.ops[0], (ast.In, ast.NotIn, ast.Eq, ast.NotEq)):
            a, b = self.val(e.left, cell, names), self.val(e.comparators[0], cell, names)
            if a is not self.UNKNOWN and b is not self.UNKNOWN and (isinstance(a, str) or isinstance(b, str)):
                try:
                    r = {ast.In: lambda: a in b, ast.NotIn: lambda: a not in b,
                         ast.Eq: lambda: a == b, ast.NotEq: lambda: a != b}[type(e.ops[0])]()
                    return bool(r)
                except TypeError:
                    return None
        if isinstance(e, ast.Call) and isinstance(e.func, ast.Attribute) and e.func.attr in ("startswith", "endswith") \
                and len(e.args) == 1:
            a, b = self.val(e.func.value, cell, names), self.val(e.args[0], cell, names)
            if isinstance(a, str) and isinstance(b, (str, tuple)):
                return getattr(a, e.func.attr)(b)
        if isinstance(e, ast.Call) and ast.unparse(e.func) == "isinstance" and len(e.args) == 2:
            tgt = ast.unparse(e.args[0])
            if tgt in (names["datafit"], names["penalty"]):
                cls = cell["datafit"] if tgt == names["datafit"] else cell["penalty"]
                if cls is None:
                    return False
                kinds = e.args[1].elts if isinstance(e.args[1], (ast.Tuple, ast.List)) else [e.args[1]]
                res = False
                for k in kinds:
                    r = self.A.prog.resolve(self.module, ast.unparse(k)) if getattr(self, "module", None) else None
                    if r is None or isinstance(r, tuple):
                        return None
                    if cls is r or cls.is_subclass_of(r):
                        res = True
                return res
        if isinstance(e, ast.BoolOp):
            vals = [self.cond(v, cell, names) for v in e.values]
            if isinstance(e.op, ast.And):
                if any(v is False for v in vals):
                    return False
                return None if any(v is None for v in vals) else True
            if any(v is True for v in vals):
                return True
            return None if any(v is None for v in vals) else False
        if isinstance(e, ast.UnaryOp) and isinstance(e.op, ast.Not):
            v = self.cond(e.operand, cell, names)
            return None if v is None else not v
        if isinstance(e, ast.Call):
            fn = ast.unparse(e.func)
            if fn.split(".")[-1] == "issparse":
                return cell["sparse"]
            if fn == "hasattr" and len(e.args) == 2 and isinstance(e.args[1], ast.Constant):
                tgt = ast.unparse(e.args[0])
                cls = cell["datafit"] if tgt == names["datafit"] else cell["penalty"] if tgt == names["penalty"] else None
                if tgt in (names["datafit"], names["penalty"]):
                    return self.has(cls, e.args[1].value)
            return None
        if isinstance(e, ast.Compare) and len(e.ops) == 1:
            l, r = e.left, e.comparators[0]
            ch = attr_chain(l) if isinstance(l, ast.Attribute) else None
            if ch and ch[0] == "self" and len(ch) == 2 and isinstance(r, ast.Constant) and ch[1] in cell["knobs"]:
                eq = cell["knobs"][ch[1]] == r.value
                return eq if isinstance(e.ops[0], ast.Eq) else (not eq) if isinstance(e.ops[0], ast.NotEq) else None
            if isinstance(l, ast.Name) and l.id == names["datafit"] and isinstance(r, ast.Constant) and r.value is None:
                isnone = cell["datafit"] is None
                return (not isnone) if isinstance(e.ops[0], ast.IsNot) else isnone
        return None

    def run_block(self, stmts, cell, names, solver):
        for st in stmts:
            if isinstance(st, ast.Expr) and isinstance(st.value, ast.Constant):
                continue
            if isinstance(st, ast.Pass):
                continue
            if isinstance(st, ast.If):
                v = self.cond(st.test, cell, names)
                if v is None:
                    raise AnalysisError(f"{solver.name}.custom_checks: cannot evaluate `{norm_src(st.test)}`")
                self.run_block(st.body if v else st.orelse, cell, names, solver)
                continue
            if isinstance(st, ast.Raise):
                exc = ast.unparse(st.exc.func) if isinstance(st.exc, ast.Call) else ast.unparse(st.exc)
                raise Refuse(exc, "custom_checks raise")
            if isinstance(st, ast.Return):
                raise _Done()
            if isinstance(st, ast.Assign) and len(st.targets) == 1 and isinstance(st.targets[0], ast.Name):
                self.locals[st.targets[0].id] = self.val(st.value, cell, names)
                continue
            if isinstance(st, ast.Expr) and isinstance(st.value, ast.Call):
                c = st.value
                fn = ast.unparse(c.func)
                if fn == "check_attrs":
                    kw = {k.arg: k.value for k in c.keywords}
                    obj = ast.unparse(c.args[0])
                    cls = cell["datafit"] if obj == names["datafit"] else cell["penalty"]
                    reqv = kw.get("required_attr") or (c.args[2] if len(c.args) > 2 else None)
                    ch = attr_chain(reqv)
                    req = self.required(solver, ch[1])
                    sp = kw.get("support_sparse")
                    sparse = self.cond(sp, cell, names) if sp is not None else False
                    self.check_attrs(cls, req, bool(sparse), obj)
                    continue
                if fn == "check_group_compatible":
                    obj = ast.unparse(c.args[0])
                    cls = cell["datafit"] if obj == names["datafit"] else cell["penalty"]
                    for a in ("grp_ptr", "grp_indices"):
                        if not self.has(cls, a):
                            raise Refuse("ValueError", f"check_group_compatible({obj}: {a})")
                    continue
            raise AnalysisError(f"{solver.name}.custom_checks: unsupported statement `{norm_src(st)[:60]}`")

    def validate(self, solver, cell):
        cc = solver.find_method("custom_checks")
        names = dict(zip(["X", "y", "datafit", "penalty"], cc.call_params()))
        self.locals = {}
        self.module = cc.module
        try:
            self.run_block(cc.node.body, cell, names, solver)
        except _Done:
            pass
        if cell["datafit"] is not None or self.required(solver, "_datafit_required_attr"):
            self.check_attrs(cell["datafit"], self.required(solver, "_datafit_required_attr"), False, "datafit")
        self.check_attrs(cell["penalty"], self.required(solver, "_penalty_required_attr"), False, "penalty")


def slot_sites(A, sf, cell):
    """Slot calls/attribute reads on the datafit/penalty reachable from _solve in this
    cell.  Python-level branches on stable knobs are pruned by the cell's valuation;
    compiled (njit) functions are taken whole (Numba types every branch).
    -> [(role, name, nargs or None, level, FuncInfo, node, guard-hasattr or None)]"""
    flow = A.flow
    out = []
    seen = set()

    def visit(f, compiled, ctxg, root=None):
        if (f, compiled, ctxg, root) in seen:
            return
        seen.add((f, compiled, ctxg, root))
        cfg = cfg_of(f)
        live = None
        if not compiled:
            live = _live_nodes(cfg, f, cell)
        env = flow.env[f]
        for nd in cfg.stmts():
            if live is not None and nd.id not in live:
                continue
            root = nd.ast.iter if nd.kind == "for" else nd.ast
            if isinstance(root, (ast.FunctionDef, ast.ClassDef)):
                continue
            guards = set(ctxg)
            for t, lab, of in cfg.facts_at(nd.id):
                if isinstance(t, ast.expr):
                    tt, neg = t, False
                    while isinstance(tt, ast.UnaryOp) and isinstance(tt.op, ast.Not):
                        tt, neg = tt.operand, not neg
                    if isinstance(tt, ast.Call) and ast.unparse(tt.func) == "hasattr" and len(tt.args) == 2 \
                            and isinstance(tt.args[1], ast.Constant) and isinstance(tt.args[0], ast.Name):
                        for role in ("DATAFIT", "PENALTY"):
                            if role in env.get(tt.args[0].id, ()):
                                guards.add((role, tt.args[1].value, (lab == "true") != neg))
            guards = frozenset(guards)
            for x in ast.walk(root):
                if isinstance(x, ast.Call) and isinstance(x.func, ast.Attribute) \
                        and isinstance(x.func.value, ast.Name):
                    recv = x.func.value.id
                    for role in ("DATAFIT", "PENALTY"):
                        if role in env.get(recv, ()):
                            out.append((role, x.func.attr, len(x.args) + len(x.keywords),
                                        "njit" if compiled else "py", f, x, guards,
                                        nd.id if root is None else root))
                elif isinstance(x, ast.Attribute) and isinstance(x.value, ast.Name) \
                        and isinstance(x.ctx, ast.Load):
                    recv = x.value.id
                    for role in ("DATAFIT", "PENALTY"):
                        if role in env.get(recv, ()):
                            out.append((role, x.attr, None, "njit" if compiled else "py", f, x, guards,
                                        nd.id if root is None else root))
            for x in ast.walk(root):
                if isinstance(x, ast.Call):
                    kind, callees = flow.resolve_call(f, x)
                    if kind in ("direct", "self", "nested"):
                        for c in callees:
                            # only follow callees that receive the datafit/penalty
                            if any(r & {"DATAFIT", "PENALTY"} for r in flow.env.get(c, {}).values()):
                                visit(c, compiled or c.njit, guards, nd.id if root is None else root)
    visit(sf.f, False, frozenset())
    # attribute reads that are really the func of a call were recorded twice: drop reads
    calls = {(id(s_[5].func)) for s_ in out if s_[2] is not None}
    return [s for s in out if not (s[2] is None and id(s[5]) in calls)]


def _live_nodes(cfg, f, cell, blocked=()):
    """nodes reachable from entry when stable tests on the cell's knobs are decided"""
    decided = {}
    for nid, c in cfg.stable_edges().items():
        nd = cfg.nodes[nid]
        t = nd.ast
        neg = False
        while isinstance(t, ast.UnaryOp) and isinstance(t.op, ast.Not):
            t, neg = t.operand, not neg
        val = _knob_value(t, f, cell)
        if val is not None:
            decided[nid] = ((val != neg) == (nd.label == "true"))
    seen, stack = set(), [cfg.entry]
    blocked = set(blocked)
    while stack:
        x = stack.pop()
        if x in seen or x in blocked:
            continue
        if x in decided and not decided[x]:
            continue
        seen.add(x)
        stack.extend(cfg.succ[x])
    return seen


def _knob_value(t, f, cell):
    """truth value of a stable test under the cell, or None"""
    txt = ast.unparse(t)
    if isinstance(t, ast.Name):
        # local alias: is_sparse / fit_intercept
        for st in ast.walk(f.node):
            if isinstance(st, ast.Assign) and isinstance(st.targets[0], ast.Name) and st.targets[0].id == t.id:
                return _knob_value(st.value, f, cell)
        return None
    if isinstance(t, ast.Call) and ast.unparse(t.func).split(".")[-1] == "issparse":
        return cell["sparse"]
    if isinstance(t, ast.Attribute):
        ch = attr_chain(t)
        if ch and ch[0] == "self" and len(ch) == 2 and ch[1] in cell["knobs"]:
            return bool(cell["knobs"][ch[1]])
    if isinstance(t, ast.Compare) and len(t.ops) == 1 and isinstance(t.comparators[0], ast.Constant):
        ch = attr_chain(t.left) if isinstance(t.left, ast.Attribute) else None
        if ch and ch[0] == "self" and len(ch) == 2 and ch[1] in cell["knobs"]:
            eq = cell["knobs"][ch[1]] == t.comparators[0].value
            if isinstance(t.ops[0], ast.Eq):
                return eq
            if isinstance(t.ops[0], ast.NotEq):
                return not eq
    if isinstance(t, ast.Compare) and isinstance(t.ops[0], (ast.NotIn, ast.In)):
        ch = attr_chain(t.left) if isinstance(t.left, ast.Attribute) else None
        if ch and ch[0] == "self" and len(ch) == 2 and ch[1] in cell["knobs"] \
                and isinstance(t.comparators[0], (ast.Tuple, ast.List)):
            vals = [e.value for e in t.comparators[0].elts if isinstance(e, ast.Constant)]
            inn = cell["knobs"][ch[1]] in vals
            return inn if isinstance(t.ops[0], ast.In) else not inn
    return None


def knob_space(sf):
    """knob -> values enumerated for this solver (only knobs its __init__ has)"""
    init = sf.cls.find_method("__init__")
    params = set(init.params) if init else set()
    space = {}
    if "fit_intercept" in params:
        space["fit_intercept"] = [False, True]
    for k in ("ws_strategy", "opt_strategy"):
        if k in params:
            space[k] = ["subdiff", "fixpoint"]
    return space


def _mentions_datafit(sf):
    """the datafit parameter of _solve is read somewhere in its body (nested functions
    included)"""
    params = sf.f.call_params()
    if len(params) < 3:
        return True
    dname = params[2]
    return any(isinstance(n, ast.Name) and n.id == dname and isinstance(n.ctx, ast.Load)
               for n in ast.walk(sf.f.node))


# solvers that never call the datafit object: the loss they minimise by construction
HARDCODED_LOSS = {"GramCD": {"Quadratic"}}


def r_matrix(A, ctx, scope, rule="R-MATRIX", tier="quick"):
    ctx.rule(rule, "composition matrix: for every solver x datafit x penalty x "
             "{dense, CSC} x knob valuation, validation is evaluated statically (refused: "
             "by which check) and in every accepted cell each datafit/penalty slot call or "
             "attribute read reachable from _solve resolves to a real (non-placeholder) "
             "member with matching arity; an unresolved member inside compiled code is a "
             "violation (Numba typing error), at interpreter level a late AttributeError "
             "naming the method is recorded; findings are keyed by construct, not by cell")
    prog = A.prog
    V = Validator(A)
    cells = accepted = refused = 0
    ignored = {}
    late = {}
    broken = {}
    per_solver = {}
    tables = {}
    for cls in prog.datafits + prog.penalties:
        tables[cls.fq] = class_attrs(prog, cls)
    for sname, sf in sorted(A.facts.items()):
        space = knob_space(sf)
        keys = sorted(space)
        combos = [dict(zip(keys, vals)) for vals in itertools.product(*[space[k] for k in keys])] or [{}]
        is_gram = sf.cls.find_class_attr("_datafit_required_attr") is not None and \
            V.required(sf.cls, "_datafit_required_attr") == ()
        for sparse in (False, True):
            for knobs in combos:
                cell0 = dict(sparse=sparse, knobs=knobs)
                sites = slot_sites(A, sf, cell0)
                dlist = list(prog.datafits) + ([None] if is_gram else [])
                for D in dlist:
                    for P in prog.penalties:
                        cells += 1
                        cell = dict(cell0, datafit=D, penalty=P)
                        try:
                            V.validate(sf.cls, cell)
                        except Refuse as r:
                            refused += 1
                            per_solver.setdefault(sname, [0, 0])[1] += 1
                            continue
                        accepted += 1
                        per_solver.setdefault(sname, [0, 0])[0] += 1
                        if D is not None and not _mentions_datafit(sf) \
                                and D.name not in HARDCODED_LOSS.get(sf.cls.name, ()):
                            ignored.setdefault((sname, D.name), (sf, sparse, knobs))
                        cell_broken, cell_late_roots = [], []
                        for role, name, nargs, level, f, node, guards, root in sites:
                            K = D if role == "DATAFIT" else P
                            if K is None:
                                continue
                            # hasattr context of the call path must agree with this cell
                            feasible = True
                            for grole, gattr, pol in guards:
                                GK = D if grole == "DATAFIT" else P
                                if GK is not None and V.has(GK, gattr) != pol:
                                    feasible = False
                            if not feasible:
                                continue
                            guarded = (role, name, True) in guards
                            methods, attrs = tables[K.fq]
                            m = methods.get(name)
                            exists = (m is not None and not (_is_stub(m) and m.cls.name in BASES)) or name in attrs
                            stub = m is not None and _is_stub(m) and m.cls.name in BASES
                            key = f"{f.fq}::{'datafit' if role == 'DATAFIT' else 'penalty'}.{name}::{K.name}"
                            if guarded and not exists:
                                continue
                            if not exists:
                                if stub and name in ("initialize", "initialize_sparse", "get_spec", "params_to_dict"):
                                    continue      # placeholder with nothing to do is legitimate
                                if level == "njit" or stub:
                                    cell_broken.append((key, root, (f, node, K, sname, sparse, knobs,
                                                        "placeholder returning None" if stub else "missing")))
                                else:
                                    late.setdefault(key, (f, node, K, sname, sparse, knobs))
                                    cell_late_roots.append(root)
                                continue
                            if m is not None and nargs is not None:
                                mn = len([p for p in m.call_params() if p not in m.defaults])
                                mx = len(m.call_params())
                                if not (mn <= nargs <= mx):
                                    cell_broken.append((key + "::arity", root, (
                                        f, node, K, sname, sparse, knobs,
                                        f"called with {nargs} arguments, takes {mx}")))
                        # a late refusal (interpreter-level AttributeError naming the method)
                        # that dominates the entry into the compiled code makes the broken
                        # site unreachable in this cell
                        scfg = sf.cfg
                        if cell_broken and cell_late_roots:
                            alive = _live_nodes(scfg, sf.f, cell, blocked=cell_late_roots)
                        for key, root, rec in cell_broken:
                            if cell_late_roots and root not in alive:
                                continue
                            broken.setdefault(key, rec)
    ctx.ob(rule, "cells-enumerated", True, detail=f"{cells} cells: {accepted} accepted, {refused} refused")
    for (sname, dname), (sf, sparse, knobs) in sorted(ignored.items()):
        ctx.ob(rule, f"{sf.f.fq}::ignored-datafit::{dname}", False,
               what=f"{sname} accepts the datafit {dname} but never calls any of its methods: it "
                    "minimises its built-in loss and returns a point (and a stopping value) of "
                    f"another problem than the requested {dname} composition",
               loc=loc(sf.f, sf.f.node))
    for key, (f, node, K, sname, sparse, knobs, why) in sorted(broken.items()):
        ctx.ob(rule, key, False,
               what=f"{sname} accepts {K.name} ({'CSC' if sparse else 'dense'}, {knobs}) but "
                    f"`{norm_src(node)[:60]}` in {f.qualname} hits a {why} member: typing/"
                    "attribute error inside the solve instead of an explanatory refusal",
               loc=loc(f, node))
    for key, (f, node, K, sname, sparse, knobs) in sorted(late.items()):
        ctx.ob(rule, "late::" + key, True,
               detail=f"late refusal (AttributeError naming `{key.split('::')[1]}`) in "
                      f"{sname} {'CSC' if sparse else 'dense'}")
    ctx.extra["matrix"] = dict(cells=cells, accepted=accepted, refused=refused,
                               per_solver={k: dict(accepted=v[0], refused=v[1]) for k, v in per_solver.items()},
                               late_refusals=len(late))
    ctx.floor(rule, cells, scope.get("floor", 12000))


# ----------------------------------------------------------------------- R-CSC
def r_csc(A, ctx, scope, rule="R-CSC"):
    ctx.rule(rule, "CSC triple order: at every call whose callee has parameters bound to "
             "the roles (data, indptr, indices) the actual arguments carry those same "
             "roles in that order (both index arrays are int32, a swap type-checks)")
    flow = A.flow
    n = 0
    trip = ["CSC_DATA", "CSC_INDPTR", "CSC_INDICES"]
    for f in list(flow.env):
        for call, callees, kind in flow.calls.get(f, ()):
            if kind == "ctor":
                continue
            for callee in callees:
                bnd, _ = flow.bind(f, call, callee)
                proles = {p: flow.env[callee].get(p, set()) & set(trip) for p in callee.call_params()}
                if not any(proles.values()):
                    continue
                hit = False
                bad = None
                for p, a in bnd.items():
                    want = proles.get(p, set())
                    if not want:
                        continue
                    got = flow.roles(f, a) & set(trip)
                    if got:
                        hit = True
                        # roles recorded on the parameter are the union over call sites: a
                        # swapped call site pollutes them, so compare against the majority
                        # role = the role implied by the parameter's position among CSC params
                        pos = [q for q in callee.call_params() if proles.get(q)].index(p)
                        expect = trip[pos] if pos < 3 else None
                        if expect and expect not in got:
                            bad = (p, got, expect)
                if hit:
                    n += 1
                    ctx.ob(rule, f"{f.fq}::{norm_src(call)[:70]}", bad is None,
                           what=(f"argument for `{bad[0]}` carries {sorted(bad[1])}, expected "
                                 f"{bad[2]}: CSC arrays passed in the wrong order") if bad else None,
                           loc=loc(f, call))
    ctx.floor(rule, n, scope.get("floor", 40))
