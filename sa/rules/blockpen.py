"""Block / group penalties on order regions (sa.region): R-PROXFOC-BLOCK, R-DERIV-PEN-BLOCK.

One block of two coefficients (second group of a two-group structure / second row of a
two-row coefficient matrix, so that an accessor indexed by the wrong kind of index reads a
different symbol).  On each region, named by a rational witness:

* prox: the lifted output `u` of `prox_1group` / `prox_1feat` satisfies the first-order
  condition of the penalty's *own* lifted `value()`:  u_i - x_i + s * d value/d w_i (u) = 0
  on the support of `u`; off the support 0 minimises along the coordinate (one-sided
  derivatives; only the right one under positive=True); u >= 0 under positive=True; u = 0
  exactly when the (positive part of the) input is within s * (slope of value at 0).
  Norms of `u` are not simplified: each sqrt atom of d value that depends on `w` becomes an
  unknown rho, solved from one equation of the system (linear in 1/rho) and then checked
  against rho^2 = its radicand and against the other equations.
* score: the lifted `subdiff_distance` of the block equals the Euclidean norm of the
  coordinate-wise distances to the subdifferential built from the lifted `value()`.

Verdicts: symbolic equality on the region = held; symbolic difference confirmed by a
non-zero residual at the witness itself = violation (the witness is a counterexample
input); symbolic difference with a vanishing residual = undecided (exit 2), never a pass.
"""
from fractions import Fraction

from ..algebra import RF, Unsupported, const, sym, derivative, substitute, atom_rf, KEY2RF, fn
from ..region import Region, RegionLifter, Vec, Mat, Obj, R, INF, Raised
from .control import loc
from ..model import norm_src, AnalysisError

BLOCK_NOT_CLAIMED = {
    "L2_05": "closed-form prox (prox_block_2_05, trigonometric): global optimality of closed "
             "forms is not claimed; value has an infinite slope at 0",
}

HYP = {"alpha": 1.0, "gamma": 3.0, "s": 0.25, "wtA": 1.3, "wt": 2.0 / 3.0, "wgA": 0.9, "wg": 0.7,
       "wfA": 0.35, "wf0": 0.4, "wf1": 0.55, "wa": 0.37, "wa0": 0.37, "wa1": -0.21}

# block inputs: generic points of every sign pattern and of several magnitudes
X_WITNESS = [(3.0, 4.0), (0.3, 0.4), (0.09, 0.12), (3.0, -4.0), (-3.0, 4.0), (-3.0, -4.0),
             (0.3, -0.4), (1.2, 0.9), (0.6, 0.45), (-0.05, 0.02), (6.0, 0.2), (0.55, -0.05)]
W_WITNESS = [(2.0, 1.0), (0.2, 0.1), (2.0, -1.0), (-0.2, 0.1), (2.0, 0.0), (0.0, 0.3), (0.0, 0.0),
             (-2.0, 0.0), (4.0, 3.0), (0.4, 0.3), (0.9, 1.2)]
G_WITNESS = [(0.8, -0.3), (-0.15, -0.2), (-1.5, 2.0), (0.1, 0.05)]


def _variants(prog, cls):
    spec = dict(prog.spec_of(cls) or [])
    bools = [k for k, t in spec.items() if "bool" in t]
    import itertools
    return [dict(zip(bools, v)) for v in itertools.product([False, True], repeat=len(bools))] or [{}]


class BlockModel:
    def __init__(self, A, cls, var, zero_weight=False):
        self.A, self.prog, self.cls, self.var = A, A.prog, cls, var
        self.group = cls.find_method("prox_1group") is not None
        self.zero_weight = zero_weight
        self.tag = cls.name + ("[" + ",".join(f"{k}={v}" for k, v in var.items()) + "]" if var else "") \
            + ("{zero weight}" if zero_weight else "")

    def hyp(self):
        h = dict(HYP)
        if self.zero_weight:
            h["wt"] = 0.0
            h["wg"] = 0.0
        return h

    def self_obj(self):
        spec = self.prog.spec_of(self.cls) or []
        zw = self.zero_weight
        attrs = {}
        for name, typ in spec:
            if name == "grp_ptr":
                attrs[name] = Vec([0, 1, 3])
            elif name == "grp_indices":
                attrs[name] = Vec([2, 0, 1])      # non-contiguous: group 0 = {2}, the analysed group 1 = {0, 1}
            elif name == "weights":
                attrs[name] = Vec([sym("wtA"), const(0) if zw else sym("wt")])
            elif name == "weights_groups":
                attrs[name] = Vec([sym("wgA"), const(0) if zw else sym("wg")])
            elif name == "weights_features":
                attrs[name] = Vec([sym("wf0"), sym("wf1"), sym("wfA")])     # indexed by feature
            elif "bool" in typ:
                attrs[name] = bool(self.var.get(name, False))
            elif "[" in typ:
                raise Unsupported(f"array attribute {name} not modelled")
            else:
                attrs[name] = sym(name)
        return Obj(self.cls, attrs)

    # coefficient containers: the analysed block is group 1 / row 1
    def coef(self, w0, w1):
        if self.group:
            return Vec([w0, w1, sym("wa")])
        return Mat([Vec([sym("wa0"), sym("wa1")]), Vec([w0, w1])])

    def grad(self, g0, g1):
        if self.group:
            return Vec([g0, g1])
        return Mat([Vec([g0, g1])])

    def lifter(self, values):
        rg = Region(dict(self.hyp(), **values))
        return RegionLifter(self.prog, rg), rg

    def prox(self, xs):
        m = self.cls.find_method("prox_1group" if self.group else "prox_1feat")
        x = Vec([sym("x0") if xs[0] != 0 else const(0), sym("x1") if xs[1] != 0 else const(0)])
        L, rg = self.lifter({"x0": xs[0], "x1": xs[1]})
        u = L.call_function(m, [x, sym("s"), 1], self_obj=self.self_obj())
        if not isinstance(u, (Vec, list)) or len(u) != 2:
            raise Unsupported("prox output is not a block")
        return [R(v) for v in u], rg

    def value_at(self, ws, names=("w0", "w1")):
        """lifted value() around the point ws (entries equal to 0 are literal zeros)"""
        m = self.cls.find_method("value")
        args = [sym(n) if v != 0 else const(0) for n, v in zip(names, ws)]
        L, rg = self.lifter({n: v for n, v in zip(names, ws)})
        return R(L.call_function(m, [self.coef(*args)], self_obj=self.self_obj())), rg

    def score(self, ws, gs):
        m = self.cls.find_method("subdiff_distance")
        wargs = [sym(n) if v != 0 else const(0) for n, v in zip(("w0", "w1"), ws)]
        L, rg = self.lifter({"w0": ws[0], "w1": ws[1], "g0": gs[0], "g1": gs[1]})
        out = L.call_function(m, [self.coef(*wargs), self.grad(sym("g0"), sym("g1")), Vec([1])],
                              self_obj=self.self_obj())
        if not isinstance(out, (Vec, list)) or len(out) != 1:
            raise Unsupported("score output shape")
        return R(out[0]), rg, L

    def loc(self, m):
        f = self.cls.find_method(m)
        return loc(f, f.node)


# ---------------------------------------------------------------- calculus helpers
def _sqrt_atoms_on(rf, names):
    """sqrt / fractional-power atoms of rf whose radicand mentions one of the symbols"""
    out = []
    for a in rf.all_atoms():
        if a[0] == "fn" and (a[1] == "sqrt" or a[1].startswith("pow")):
            arg = KEY2RF[a[2]]
            if any(x[0] == "sym" and x[1] in names for x in arg.all_atoms()):
                out.append(a)
    # outermost only: an atom nested in another one's radicand is substituted with it
    nested = set()
    for a in out:
        for b in KEY2RF[a[2]].all_atoms():
            if b in out:
                nested.add(b)
    top = [a for a in out if a in rf.atoms()]
    return top, nested


def _degree_split(poly, atom):
    """poly (dict mono->coef) as {degree: RF} in `atom`"""
    out = {}
    for m, c in poly.items():
        d = 0
        rest = []
        for a, e in m:
            if a == atom:
                d = e
            else:
                rest.append((a, e))
        out[d] = out.get(d, const(0)) + RF({tuple(rest): c})
    return out


def gradient_at(model, u_num, u_sym, support):
    """d value / d w_i at w = u for i in support, as terms over x with unknown rho symbols.
    returns (grads {i: RF}, relations {rho_name: radicand RF}, region of value)"""
    ws = [u_num[i] if i in support else 0.0 for i in range(2)]
    val, rg = model.value_at(ws)
    grads, rel = {}, {}
    sub = {("sym", f"w{i}"): u_sym[i] for i in support}
    for i in support:
        d = derivative(val, ("sym", f"w{i}"))
        top, nested = _sqrt_atoms_on(d, {"w0", "w1"})
        if nested:
            raise Unsupported("nested radicals in the derivative of value")
        m = {}
        for k, a in enumerate(sorted(top, key=repr)):
            if a[1] != "sqrt":
                raise Unsupported("fractional power of the block norm")
            name = f"rho{k}"
            m[a] = sym(name)
            rad = substitute(KEY2RF[a[2]], sub)
            rel[name] = rad
        d = substitute(d, dict(m))
        grads[i] = substitute(d, sub)
    return grads, rel, rg


def one_sided(model, u_num, u_sym, i, side):
    """one-sided derivative of value along coordinate i (where u_i = 0) at w = u"""
    ws = [u_num[k] for k in range(2)]
    ws[i] = 1e-4 * side
    val, rg = model.value_at(ws)
    d = derivative(val, ("sym", f"w{i}"))
    other = 1 - i
    sub = {("sym", f"w{i}"): const(0)}
    if u_num[other] != 0:
        sub[("sym", f"w{other}")] = u_sym[other]
    try:
        return substitute(d, sub)
    except ZeroDivisionError:
        return None


def slope_at_zero(model, direction):
    """directional derivative of value at the zero block along a rational unit direction"""
    eps = 1e-4
    m = model.cls.find_method("value")
    L, rg = model.lifter({"eps": eps})
    e = sym("eps")
    w = [e * const(Fraction(direction[0])), e * const(Fraction(direction[1]))]
    val = R(L.call_function(m, [model.coef(*w)], self_obj=model.self_obj()))
    d = derivative(val, ("sym", "eps"))
    try:
        lim = substitute(d, {("sym", "eps"): const(0)})
        v = rg.num(lim)
    except (ZeroDivisionError, Unsupported):
        return None, None
    if v != v or abs(v) > 1e20:
        return None, None
    return lim, v


DIRS = [(Fraction(3, 5), Fraction(4, 5)), (Fraction(1), Fraction(0)), (Fraction(5, 13), Fraction(12, 13))]


# ------------------------------------------------------------------- R-PROXFOC-BLOCK
def _residual_verdict(ctx, rule, key, sym_ok, num_res, what, where, und):
    if sym_ok:
        ctx.ob(rule, key, True)
    elif num_res is not None and abs(num_res) > 1e-7:
        ctx.ob(rule, key, False, what=what + f" (residual {num_res:.3g} at the witness)", loc=where)
    else:
        und.append((key, "terms differ symbolically but the residual vanishes at the witness"))
        ctx.ob(rule, key, None, detail="undecided: normal forms differ, residual vanishes")


def r_proxfoc_block(A, ctx, scope, rule="R-PROXFOC-BLOCK", parts=("foc", "zero", "nonneg")):
    ctx.rule(rule, "block / group prox on every order region of a two-coefficient block: "
             "first-order condition of the penalty's own value() on the support (block norms "
             "solved as unknowns and checked against their radicands), coordinate-wise "
             "optimality of the zeros, non-negativity under positive=True, and zero output "
             "exactly when the input is within stepsize * slope of value at 0")
    n = 0
    und = []
    for cls in A.prog.penalties:
        pm = cls.find_method("prox_1group") or cls.find_method("prox_1feat")
        if pm is None or pm.cls.name == "BasePenalty":
            continue
        if cls.name in BLOCK_NOT_CLAIMED:
            ctx.note(f"{rule}: {cls.name} not claimed: {BLOCK_NOT_CLAIMED[cls.name]}")
            continue
        if scope.get("select") is not None and not scope["select"](cls):
            continue
        for var in _variants(A.prog, cls):
            for zw in (False, True):
                model = BlockModel(A, cls, var, zero_weight=zw)
                if zw and not any(nm in ("weights", "weights_groups") for nm, _ in (A.prog.spec_of(cls) or [])):
                    continue
                n += _check_prox(ctx, rule, model, parts, und)
    ctx.floor(rule, n, scope.get("floor", 40))
    return und


def _check_prox(ctx, rule, model, parts, und):
    n = 0
    positive = bool(model.var.get("positive"))
    where = model.loc("prox_1group" if model.group else "prox_1feat")
    # slope of value at the zero block (isotropic part): threshold of the zero clause
    slopes = []
    for d in DIRS:
        try:
            _, v = slope_at_zero(model, d)
        except (Unsupported, Raised) as e:
            v = None
            und.append((f"{model.tag}::slope", str(e)))
            ctx.ob(rule, f"{model.tag}::slope", None, detail=str(e))
        slopes.append(v)
    for xs in X_WITNESS:
        key0 = f"{model.cls.fq}::prox::{model.tag}::x={xs}"
        try:
            u, rg = model.prox(xs)
        except Raised as e:
            ctx.ob(rule, key0, False, what=f"{model.tag} prox raises on input {xs}: {e}", loc=where)
            n += 1
            continue
        except Unsupported as e:
            und.append((key0, str(e)))
            ctx.ob(rule, key0, None, detail=f"prox not lifted: {e}")
            continue
        try:
            u_num = [rg.num(v) for v in u]
        except Unsupported as e:
            und.append((key0, str(e)))
            ctx.ob(rule, key0, None, detail=str(e))
            continue
        x_sym = [sym("x0"), sym("x1")]
        # --- non-negativity
        if positive and "nonneg" in parts:
            n += 1
            bad = [i for i in range(2) if u_num[i] < -1e-12]
            ctx.ob(rule, key0 + "::nonneg", not bad,
                   what=f"{model.tag}: prox of {xs} has a negative entry "
                        f"({', '.join(f'{v:.3g}' for v in u_num)}) although positive=True",
                   loc=where)
            if bad:
                continue
        support = [i for i in range(2) if not u[i].is_zero()]
        num_support = [i for i in range(2) if abs(u_num[i]) > 1e-12]
        if support != num_support:
            und.append((key0, "output vanishes numerically but not structurally"))
            ctx.ob(rule, key0, None, detail="output vanishes numerically but not structurally")
            continue
        # --- zero clause
        if not support:
            if "zero" not in parts:
                continue
            xs_eff = [max(v, 0.0) if positive else v for v in xs]
            nx = (xs_eff[0] ** 2 + xs_eff[1] ** 2) ** 0.5
            t0 = _slope_for(model, slopes, xs_eff)
            if t0 is None:
                continue
            n += 1
            thr = model.hyp()["s"] * t0
            ctx.ob(rule, key0 + "::zero", nx <= thr * (1 + 1e-9),
                   what=f"{model.tag}: prox of {xs} is the zero block although the "
                        f"{'positive part of the ' if positive else ''}input has norm {nx:.3g} > "
                        f"stepsize * slope of value at 0 = {thr:.3g}", loc=where)
            continue
        if "zero" in parts:
            xs_eff = [max(v, 0.0) if positive else v for v in xs]
            nx = (xs_eff[0] ** 2 + xs_eff[1] ** 2) ** 0.5
            t0 = _slope_for(model, slopes, xs_eff)
            if t0 is not None and not model.group_l1():
                n += 1
                thr = model.hyp()["s"] * t0
                ctx.ob(rule, key0 + "::nonzero", nx >= thr * (1 - 1e-9),
                       what=f"{model.tag}: prox of {xs} is non-zero although the input norm "
                            f"{nx:.3g} is below stepsize * slope of value at 0 = {thr:.3g}",
                       loc=where)
        if "foc" not in parts:
            continue
        # --- first-order condition on the support
        try:
            grads, rel, vrg = gradient_at(model, u_num, u, support)
        except (Unsupported, Raised) as e:
            und.append((key0 + "::foc", str(e)))
            ctx.ob(rule, key0 + "::foc", None, detail=f"value not differentiable here: {e}")
            continue
        s = sym("s")
        eqs = {i: u[i] - x_sym[i] + s * grads[i] for i in support}
        sol = {}
        ok_all, res_max = True, 0.0
        try:
            for name, rad in rel.items():
                a = ("sym", name)
                cand = None
                for i in support:
                    parts_ = _degree_split(eqs[i].num, a)
                    if set(parts_) - {0, 1}:
                        raise Unsupported("equation not linear in the block norm")
                    p = parts_.get(1, const(0))
                    q = parts_.get(0, const(0))
                    if p.is_zero():
                        continue
                    cand = -q / p
                    break
                if cand is None:
                    # no equation constrains it: use the radicand's root numerically only
                    sol[a] = fn("sqrt", rad)
                    continue
                sol[a] = cand
                rho_num = rg.num(cand)
                rad_num = rg.num(rad)
                n += 1
                sym_ok = (cand * cand).equals(rad) and rho_num > 0
                res = (rho_num * rho_num - rad_num) / max(1.0, abs(rad_num))
                if rho_num <= 0:
                    res = max(abs(res), 1.0)
                _residual_verdict(
                    ctx, rule, key0 + f"::foc::{name}", sym_ok, res,
                    f"{model.tag}: prox of {xs} = ({u_num[0]:.4g}, {u_num[1]:.4g}) violates the "
                    "first-order condition u - x + stepsize * grad value(u) = 0 of its own value(): "
                    "the block norm the condition requires is not the norm of the output", where, und)
                ok_all = ok_all and sym_ok
            for i in support:
                e = substitute(eqs[i], sol) if sol else eqs[i]
                n += 1
                sym_ok = e.is_zero()
                res = rg.num(e)
                _residual_verdict(
                    ctx, rule, key0 + f"::foc::eq{i}", sym_ok, res / max(1.0, abs(xs[i])),
                    f"{model.tag}: prox of {xs} = ({u_num[0]:.4g}, {u_num[1]:.4g}) violates the "
                    f"first-order condition of its own value() in coordinate {i}", where, und)
        except (Unsupported, ZeroDivisionError) as e:
            und.append((key0 + "::foc", str(e)))
            ctx.ob(rule, key0 + "::foc", None, detail=f"undecided: {e}")
            continue
        # --- coordinates at zero inside an active block
        for i in range(2):
            if i in support:
                continue
            try:
                dp = one_sided(model, u_num, u, i, +1)
                dm = None if positive else one_sided(model, u_num, u, i, -1)
            except (Unsupported, Raised) as e:
                und.append((key0 + f"::kkt{i}", str(e)))
                ctx.ob(rule, key0 + f"::kkt{i}", None, detail=str(e))
                continue
            if dp is None:
                continue
            try:
                solmap = dict(sol)
                # block norms in the one-sided derivatives are norms of u as well
                rp = rg.num(substitute(dp, solmap)) if solmap else rg.num(dp)
            except Unsupported as e:
                und.append((key0 + f"::kkt{i}", str(e)))
                ctx.ob(rule, key0 + f"::kkt{i}", None, detail=str(e))
                continue
            sv = model.hyp()["s"]
            n += 1
            right = -xs[i] + sv * rp          # derivative of the prox objective to the right
            okc = right >= -1e-9
            if dm is not None:
                lm = rg.num(substitute(dm, solmap)) if solmap else rg.num(dm)
                left = -xs[i] + sv * lm
                okc = okc and left <= 1e-9
            ctx.ob(rule, key0 + f"::kkt{i}", okc,
                   what=f"{model.tag}: prox of {xs} = ({u_num[0]:.4g}, {u_num[1]:.4g}) keeps "
                        f"coordinate {i} at 0 although moving it decreases the prox objective",
                   loc=where)
    return n


def _slope_for(model, slopes, xs_eff):
    vals = [v for v in slopes if v is not None]
    if not vals:
        return None
    if max(vals) - min(vals) > 1e-9:
        return None          # anisotropic at 0 (feature-wise L1 part): no single threshold
    return vals[0]


def _group_l1(self):
    return any(nm == "weights_features" for nm, _ in (self.prog.spec_of(self.cls) or []))


BlockModel.group_l1 = _group_l1


# ---------------------------------------------------------------- R-DERIV-PEN-BLOCK
def r_deriv_pen_block(A, ctx, scope, rule="R-DERIV-PEN-BLOCK"):
    ctx.rule(rule, "block / group subdiff_distance on every order region of a two-coefficient "
             "block in the working set: Euclidean norm of the coordinate-wise distances of "
             "-grad to the subdifferential derived from the penalty's own value() (active "
             "coordinates: |grad_i + d value/d w_i|; zeros inside an active block: distance to "
             "[d-, d+], to (-inf, d+] under positive=True; zero block: max(0, |grad (negative "
             "part under positive)| - slope of value at 0); negative coefficient under "
             "positive=True: +inf)")
    n = 0
    und = []
    for cls in A.prog.penalties:
        pm = cls.find_method("prox_1group") or cls.find_method("prox_1feat")
        sd = cls.find_method("subdiff_distance")
        if pm is None or sd is None or sd.cls.name == "BasePenalty":
            continue
        for var in _variants(A.prog, cls):
            model = BlockModel(A, cls, var)
            n += _check_score(ctx, rule, model, und)
    ctx.floor(rule, n, scope.get("floor", 60))
    return und


def _check_score(ctx, rule, model, und):
    n = 0
    positive = bool(model.var.get("positive"))
    where = model.loc("subdiff_distance")
    slopes = []
    for d in DIRS:
        try:
            lim, v = slope_at_zero(model, d)
        except (Unsupported, Raised):
            lim, v = None, None
        slopes.append((lim, v))
    for ws in W_WITNESS:
        for gs in G_WITNESS:
            key = f"{model.cls.fq}::score::{model.tag}::w={ws}::g={gs}"
            try:
                sc, rg, L = model.score(ws, gs)
            except Raised as e:
                ctx.ob(rule, key, False, what=f"{model.tag}.subdiff_distance raises at w={ws}: {e}", loc=where)
                n += 1
                continue
            except Unsupported as e:
                und.append((key, str(e)))
                ctx.ob(rule, key, None, detail=f"score not lifted: {e}")
                continue
            g = [sym("g0"), sym("g1")]
            try:
                exp = _expected_score(model, L, rg, ws, g, positive, slopes)
            except (Unsupported, Raised, ZeroDivisionError) as e:
                und.append((key, str(e)))
                ctx.ob(rule, key, None, detail=f"expected score not derivable: {e}")
                continue
            if exp is None:
                continue
            n += 1
            sym_ok = sc.equals(exp)
            try:
                a, b = rg.num(sc), rg.num(exp)
                res = (a - b) / max(1.0, abs(b)) if abs(b) < 1e20 else (0.0 if a > 1e20 else 1.0)
            except Unsupported:
                res = None
            _residual_verdict(
                ctx, rule, key, sym_ok, res,
                f"{model.tag}.subdiff_distance at w_block={ws}, grad_block={gs} is not the distance of "
                "-grad to the subdifferential of its own value()", where, und)
    return n


def _expected_score(model, L, rg, ws, g, positive, slopes):
    if positive and any(v < 0 for v in ws):
        return INF
    if ws[0] == 0 and ws[1] == 0:
        lims = [l for l, v in slopes if l is not None]
        if not lims:
            return None          # infinite slope at 0: any gradient is in the subdifferential
        vals = [v for l, v in slopes if l is not None]
        if max(vals) - min(vals) > 1e-9:
            raise Unsupported("anisotropic slope at 0")
        t0 = lims[0]
        gg = [L.maxmin(False, x, const(0)) for x in g] if positive else g
        nrm = L.norm2(Vec(gg))
        return L.maxmin(True, const(0), nrm - t0)
    val, _ = model.value_at(ws)
    r = []
    for i in range(2):
        if ws[i] != 0:
            d = derivative(val, ("sym", f"w{i}"))
            r.append(g[i] + d)
            continue
        wsp = list(ws)
        wsp[i] = 1e-4
        vp, _ = model.value_at(wsp)
        dp = substitute(derivative(vp, ("sym", f"w{i}")), {("sym", f"w{i}"): const(0)})
        right = -g[i] - dp                      # -grad above the interval
        if positive:
            r.append(L.maxmin(True, const(0), right))
            continue
        wsm = list(ws)
        wsm[i] = -1e-4
        vm, _ = model.value_at(wsm)
        dm = substitute(derivative(vm, ("sym", f"w{i}")), {("sym", f"w{i}"): const(0)})
        left = dm + g[i]                        # -grad below the interval
        r.append(L.maxmin(True, const(0), L.maxmin(True, right, left)))
    return L.norm2(Vec(r))


# ------------------------------------------------------------------- scalar closed forms
SCALAR_X = [k / 8.0 + 1.0 / 64 for k in range(-40, 41)]
SCALAR_NOT_DECIDED = {
    "L0_5": "trigonometric root formula: outside the algebra fragment",
    "L2_3": "nested radicals of the quartic root formula: outside the algebra fragment",
    "LogSumPenalty": "threshold found by bisection; global optimality among the stationary "
                     "points is an analytic result",
}


def closed_form_classes():
    """separable penalties whose prox_1d the piecewise engine (R-PROXFOC) does not claim
    and the region engine can decide"""
    from .penalgebra import PROX_NOT_CLAIMED
    return set(PROX_NOT_CLAIMED) - set(SCALAR_NOT_DECIDED)


class ScalarModel:
    def __init__(self, A, cls, var):
        self.A, self.prog, self.cls, self.var = A, A.prog, cls, var
        self.tag = cls.name + ("[" + ",".join(f"{k}={v}" for k, v in var.items()) + "]" if var else "")

    def self_obj(self):
        attrs = {}
        for name, typ in self.prog.spec_of(self.cls) or []:
            if name in ("weights",):
                attrs[name] = Vec([sym("wtA"), sym("wt")])
            elif name == "alphas":
                raise Unsupported("sorted-L1 weights")
            elif "bool" in typ:
                attrs[name] = bool(self.var.get(name, False))
            elif "[" in typ:
                raise Unsupported(f"array attribute {name} not modelled")
            else:
                attrs[name] = sym(name)
        return Obj(self.cls, attrs)

    def lifter(self, values):
        h = dict(HYP, l1_ratio=0.5, eps=0.5)
        h.update(values)
        rg = Region(h)
        return RegionLifter(self.prog, rg), rg

    def prox(self, x):
        m = self.cls.find_method("prox_1d")
        L, rg = self.lifter({"x": x})
        return R(L.call_function(m, [sym("x"), sym("s"), 1], self_obj=self.self_obj())), rg

    def value_at(self, w):
        m = self.cls.find_method("value")
        L, rg = self.lifter({"w0": w})
        return R(L.call_function(m, [Vec([sym("wa"), sym("w0")])], self_obj=self.self_obj())), rg


def r_proxfoc_scalar_region(A, ctx, scope, rule="R-PROXFOC-CLOSED", only=None):
    ctx.rule(rule, "closed-form scalar proxes (argmin over candidates, piecewise rational): on "
             "every order region of x the returned candidate is a stationary point of the prox "
             "objective built from the penalty's own value()")
    n = 0
    for cls in A.prog.penalties:
        if cls.find_method("prox_1d") is None or cls.find_method("prox_1d").cls.name == "BasePenalty":
            continue
        if only is not None and cls.name not in only:
            continue
        if cls.name in SCALAR_NOT_DECIDED:
            ctx.note(f"{rule}: {cls.name} not decided: {SCALAR_NOT_DECIDED[cls.name]}")
            continue
        for var in _variants(A.prog, cls):
            model = ScalarModel(A, cls, var)
            where = loc(cls.find_method("prox_1d"), cls.find_method("prox_1d").node)
            for x in SCALAR_X:
                key = f"{cls.fq}::prox_1d::{model.tag}::x={x}"
                try:
                    u, rg = model.prox(x)
                    un = rg.num(u)
                    if u.is_zero():
                        continue
                    val, _ = model.value_at(un)
                    d = derivative(val, ("sym", "w0"))
                    top, nested = _sqrt_atoms_on(d, {"w0"})
                    e = u - sym("x") + sym("s") * substitute(d, {("sym", "w0"): u})
                    res = rg.num(e)
                except Raised as ex:
                    n += 1
                    ctx.ob(rule, key, False, what=f"{model.tag}.prox_1d raises at x={x}: {ex}", loc=where)
                    continue
                except (Unsupported, ZeroDivisionError) as ex:
                    ctx.ob(rule, key, None, detail=f"not lifted: {ex}")
                    continue
                n += 1
                _residual_verdict(ctx, rule, key, e.is_zero(), res / max(1.0, abs(x)),
                                  f"{model.tag}.prox_1d({x}) = {un:.4g} is not a stationary point of "
                                  "0.5 (u - x)^2 + stepsize * value(u)", where, [])
    ctx.floor(rule, n, scope.get("floor", 20))


# ------------------------------------------------------------------- R-INF-BLOCK
def r_inf_block(A, ctx, scope, rule="R-INF-BLOCK"):
    ctx.rule(rule, "group penalties with positive=True: the lifted value() is +inf exactly when "
             "some coefficient is negative - in the analysed block or in another group, with a "
             "zero group weight included (an unpenalised group is still constrained)")
    n = 0
    for cls in A.prog.penalties:
        if cls.find_method("prox_1group") is None or "positive" not in A.prog.init_params(cls):
            continue
        where = loc(cls.find_method("value"), cls.find_method("value").node)
        for zw in (False, True):
            model = BlockModel(A, cls, {"positive": True}, zero_weight=zw)
            for ws, wa, infeasible in (((2.0, 1.0), 0.37, False), ((-2.0, 1.0), 0.37, True),
                                       ((2.0, -1.0), 0.37, True), ((0.0, 0.0), 0.37, False),
                                       ((0.0, -0.3), 0.37, True), ((2.0, 1.0), -0.37, True),
                                       ((0.0, 0.0), -0.37, True)):
                key = f"{cls.fq}::value::{model.tag}::w={ws},other={wa}"
                try:
                    m = cls.find_method("value")
                    args = [sym(nm) if v != 0 else const(0) for nm, v in zip(("w0", "w1"), ws)]
                    L, rg = model.lifter({"w0": ws[0], "w1": ws[1], "wa": wa})
                    val = R(L.call_function(m, [model.coef(*args)], self_obj=model.self_obj()))
                    isinf = rg.num(val) >= 1e20
                except (Unsupported, Raised) as e:
                    ctx.ob(rule, key, None, detail=f"value not lifted: {e}")
                    continue
                n += 1
                ctx.ob(rule, key, isinf == infeasible,
                       what=f"{model.tag}.value() is {'infinite' if isinf else 'finite'} at a point that is "
                            f"{'in' if infeasible else ''}feasible (block {ws}, coefficient of the other group "
                            f"{wa}): " + ("the acceptance test of the extrapolation cannot reject infeasible "
                                          "candidates" if infeasible else "feasible points are rejected"),
                       loc=where)
    ctx.floor(rule, n, scope.get("floor", 10))


# ------------------------------------------------------------------- R-GSUPP
GSUPP_W = [-1.7, -0.4, 0.0, 0.3, 0.9, 2.5, 7.0]


def r_gsupp(A, ctx, scope, rule="R-GSUPP"):
    ctx.rule(rule, "generalized_support keeps every coordinate the prox would move: wherever "
             "prox(w_j, step) != w_j (infeasible points, points away from a kink) the mask is True, "
             "so that working-set solvers never drop a coordinate that still has to be projected")
    n = 0
    for cls in A.prog.penalties:
        gs = cls.find_method("generalized_support")
        if gs is None or gs.cls.name == "BasePenalty":
            continue
        where = loc(gs, gs.node)
        if cls.find_method("prox_1d") is not None and cls.find_method("prox_1d").cls.name != "BasePenalty":
            for var in _variants(A.prog, cls):
                try:
                    model = ScalarModel(A, cls, var)
                    model.self_obj()
                except Unsupported as e:
                    ctx.note(f"{rule}: {cls.name} skipped: {e}")
                    break
                for wv in GSUPP_W:
                    key = f"{cls.fq}::generalized_support::{model.tag}::w={wv}"
                    try:
                        L, rg = model.lifter({"w0": wv})
                        wsym = sym("w0") if wv != 0 else const(0)
                        u = R(L.call_function(cls.find_method("prox_1d"), [wsym, sym("s"), 1],
                                              self_obj=model.self_obj()))
                        moved = abs(rg.num(u) - wv) > 1e-12
                        mask = L.call_function(gs, [Vec([sym("wa"), wsym])], self_obj=model.self_obj())
                        inside = bool(mask[1])
                    except (Unsupported, Raised) as e:
                        if cls.name in SCALAR_NOT_DECIDED:
                            continue
                        ctx.ob(rule, key, None, detail=f"not lifted: {e}")
                        continue
                    n += 1
                    ctx.ob(rule, key, inside or not moved,
                           what=f"{model.tag}: generalized_support is False at w_j = {wv} although the prox "
                                f"moves that point (to {rg.num(u):.4g}): a working-set solver can leave the "
                                "coordinate out and return it unchanged (infeasible warm starts stay infeasible)",
                           loc=where)
        elif cls.find_method("prox_1group") is not None or cls.find_method("prox_1feat") is not None:
            if cls.name in BLOCK_NOT_CLAIMED:
                continue
            for var in _variants(A.prog, cls):
                model = BlockModel(A, cls, var)
                for ws in [(2.0, 1.0), (-2.0, 1.0), (0.0, 0.0), (0.0, -0.3), (0.3, 0.0)]:
                    key = f"{cls.fq}::generalized_support::{model.tag}::w={ws}"
                    try:
                        u, rg = model.prox(ws)
                        moved = any(abs(rg.num(u[i]) - ws[i]) > 1e-12 for i in range(2))
                        L, rg2 = model.lifter({"w0": ws[0], "w1": ws[1]})
                        args = [sym(nm) if v != 0 else const(0) for nm, v in zip(("w0", "w1"), ws)]
                        mask = L.call_function(gs, [model.coef(*args)], self_obj=model.self_obj())
                        inside = bool(mask[1])
                    except (Unsupported, Raised) as e:
                        ctx.ob(rule, key, None, detail=f"not lifted: {e}")
                        continue
                    n += 1
                    ctx.ob(rule, key, inside or not moved,
                           what=f"{model.tag}: generalized_support is False for the block {ws} although the "
                                "prox moves it", loc=where)
    ctx.floor(rule, n, scope.get("floor", 40))


# ------------------------------------------------------------------- zero weights, scalar proxes
def r_prox_zero_weight(A, ctx, scope, rule="R-PROX-ZEROWEIGHT"):
    ctx.rule(rule, "weighted separable penalties with a zero weight on the coordinate: the prox is "
             "still the minimiser of 0.5 (u - x)^2 + stepsize * value(u) under the configured "
             "constraint - non-negative output under positive=True, stationarity where u != 0, "
             "one-sided optimality where u = 0 (value() lifted with the same zero weight)")
    n = 0
    for cls in A.prog.penalties:
        px = cls.find_method("prox_1d")
        spec = dict(A.prog.spec_of(cls) or [])
        if px is None or px.cls.name == "BasePenalty" or "weights" not in spec:
            continue
        where = loc(px, px.node)
        for var in _variants(A.prog, cls):
            positive = bool(var.get("positive"))
            model = ScalarModel(A, cls, var)
            zobj = model.self_obj()
            zobj.attrs["weights"] = Vec([sym("wtA"), const(0)])
            for x in (-4.0, -0.3, 0.45, 3.7):
                key = f"{cls.fq}::prox_1d::{model.tag}{{zero weight}}::x={x}"
                try:
                    L, rg = model.lifter({"x": x})
                    u = R(L.call_function(px, [sym("x"), sym("s"), 1], self_obj=zobj))
                    un = rg.num(u)
                except Raised as e:
                    n += 1
                    ctx.ob(rule, key, False, what=f"{model.tag}.prox_1d raises with a zero weight: {e}", loc=where)
                    continue
                except (Unsupported, ZeroDivisionError) as e:
                    ctx.ob(rule, key, None, detail=f"not lifted: {e}")
                    continue
                n += 1
                if positive and un < -1e-12:
                    ctx.ob(rule, key, False,
                           what=f"{model.tag} with weights[j] = 0: prox({x}) = {un:.4g} is negative although "
                                "positive=True (an unpenalised coordinate is still constrained)", loc=where)
                    continue
                try:
                    def dval(at):
                        L2, rg2 = model.lifter({"w0": at})
                        v = R(L2.call_function(cls.find_method("value"), [Vec([sym("wa"), sym("w0")])], self_obj=zobj))
                        return derivative(v, ("sym", "w0")), rg2
                    if abs(un) > 1e-12:
                        d, _ = dval(un)
                        e = u - sym("x") + sym("s") * substitute(d, {("sym", "w0"): u})
                        ok = e.is_zero()
                        res = rg.num(e)
                        _residual_verdict(ctx, rule, key, ok, res,
                                          f"{model.tag} with weights[j] = 0: prox({x}) = {un:.4g} is not "
                                          "stationary for its own value()", where, [])
                    else:
                        dp, rgp = dval(1e-5)
                        right = -x + HYP["s"] * rgp.num(substitute(dp, {("sym", "w0"): const(0)}))
                        okz = right >= -1e-9
                        if not positive:
                            dm, rgm = dval(-1e-5)
                            left = -x + HYP["s"] * rgm.num(substitute(dm, {("sym", "w0"): const(0)}))
                            okz = okz and left <= 1e-9
                        ctx.ob(rule, key, okz,
                               what=f"{model.tag} with weights[j] = 0: prox({x}) = 0 although moving away from "
                                    "0 decreases the prox objective", loc=where)
                except (Unsupported, Raised, ZeroDivisionError) as e:
                    ctx.ob(rule, key, None, detail=f"value not lifted: {e}")
    ctx.floor(rule, n, scope.get("floor", 12))


# ------------------------------------------------------------------- alpha_max under positivity
AMAX_G = [(-2.0, 0.3), (0.3, -2.0), (2.0, -0.3), (-0.3, 2.0), (-1.0, -2.5), (1.0, 2.5)]


def r_alphamax_positive(A, ctx, scope, rule="R-ALPHAMAX-POS"):
    ctx.rule(rule, "alpha_max with positive=True is not below the critical strength: on every sign / "
             "order region of a two-coordinate gradient the lifted alpha_max is at least "
             "max_j (-g_j)_+ / k_j, with alpha * k_j the slope of the penalty's own value() at 0+ "
             "(below it the null model is not a solution; the comparison is made at the region's "
             "witness, both sides are piecewise linear in g)")
    n = 0
    for cls in A.prog.penalties:
        am = cls.find_method("alpha_max")
        if am is None or am.cls.name == "BasePenalty" or "positive" not in A.prog.init_params(cls):
            continue
        where = loc(am, am.node)
        model = ScalarModel(A, cls, {"positive": True})
        try:
            obj = model.self_obj()
        except Unsupported as e:
            ctx.note(f"{rule}: {cls.name} skipped: {e}")
            continue
        if "weights" in obj.attrs:
            obj.attrs["weights"] = Vec([sym("wtA"), sym("wt")])
        # slopes at 0+ per unit alpha
        ks = []
        try:
            for j in range(2):
                L, rg = model.lifter({"eps": 1e-4})
                w = [const(0), const(0)]
                w[j] = sym("eps")
                val = R(L.call_function(cls.find_method("value"), [Vec(w)], self_obj=obj))
                k = substitute(derivative(val, ("sym", "eps")), {("sym", "eps"): const(0)}) / sym("alpha")
                ks.append(k)
        except (Unsupported, Raised, ZeroDivisionError) as e:
            ctx.ob(rule, f"{cls.fq}::slope", None, detail=f"value not lifted: {e}")
            continue
        for gs in AMAX_G:
            key = f"{cls.fq}::alpha_max::g={gs}"
            try:
                L, rg = model.lifter({"g0": gs[0], "g1": gs[1]})
                got = R(L.call_function(am, [Vec([sym("g0"), sym("g1")])], self_obj=obj))
                crit = const(0)
                for j in range(2):
                    c = L.maxmin(True, const(0), -sym(f"g{j}")) / ks[j]
                    crit = L.maxmin(True, crit, c)
                gap = got - crit
                gnum = rg.num(gap)
            except (Unsupported, Raised, ZeroDivisionError) as e:
                ctx.ob(rule, key, None, detail=f"not lifted: {e}")
                continue
            n += 1
            ctx.ob(rule, key, gap.is_zero() or gnum >= -1e-12,
                   what=f"{cls.name}(positive=True).alpha_max({gs}) = {rg.num(got):.4g} is below the critical "
                        f"strength {rg.num(crit):.4g} = max_j (-g_j)_+ / k_j: at alpha_max the null model "
                        "is not a solution", loc=where)
    ctx.floor(rule, n, scope.get("floor", 20))


# ------------------------------------------------------------------- datafits with a prox
def r_prox_datafit(A, ctx, scope, rule="R-PROX-DATAFIT"):
    ctx.rule(rule, "datafits used through their prox (primal-dual solver): on every sign region of a "
             "two-sample problem, u = prox(w, step, y) satisfies u - w + step * d value/d Xw (u) = 0 "
             "for the datafit's own value() (norms solved as unknowns and checked against their "
             "radicands; at a kink u_i = y_i the one-sided derivatives bracket 0), and prox_conjugate "
             "is the Moreau transform of prox")
    prog = A.prog
    n = 0
    W2 = [(0.9, -0.4), (-1.1, 0.2), (0.1, 0.15), (2.0, 1.7), (0.32, -0.05)]
    for dcls in prog.datafits:
        px = dcls.find_method("prox")
        if px is None or px.cls.name.startswith("Base"):
            continue
        where = loc(px, px.node)
        spec = prog.spec_of(dcls) or []
        for wv in W2:
            key = f"{dcls.fq}::prox::w={wv}"
            try:
                vals = {"w0": wv[0], "w1": wv[1], "y0": 0.3, "y1": -0.2, "step": 0.35, "v0": 0.0, "v1": 0.0,
                        "quantile_level": 0.3}
                rg = Region(vals)
                L = RegionLifter(prog, rg)
                dobj = Obj(dcls, {nm: sym(nm) for nm, t in spec if "[" not in t and "bool" not in t})
                y = Vec([sym("y0"), sym("y1")])
                w = Vec([sym("w0"), sym("w1")])
                u = [R(x) for x in L.call_function(px, [w, sym("step"), y], self_obj=dobj)]
                un = [rg.num(x) for x in u]
                # value around the output
                rg2 = Region(dict(vals, v0=un[0], v1=un[1]))
                L2 = RegionLifter(prog, rg2)
                at_kink = [abs(un[i] - vals[f"y{i}"]) < 1e-12 for i in range(2)]
                vsym = [sym(f"v{i}") if not at_kink[i] else sym(f"y{i}") for i in range(2)]
                val = R(L2.call_function(dcls.find_method("value"), [y, None, Vec(vsym)], self_obj=dobj))
                sub = {("sym", f"v{i}"): u[i] for i in range(2) if not at_kink[i]}
                eqs = {}
                rel = {}
                for i in range(2):
                    if at_kink[i]:
                        continue
                    d = derivative(val, ("sym", f"v{i}"))
                    top, nested = _sqrt_atoms_on(d, {"v0", "v1"})
                    if nested:
                        raise Unsupported("nested radicals")
                    m = {}
                    for k, a in enumerate(sorted(top, key=repr)):
                        m[a] = sym(f"rho{k}")
                        rel[f"rho{k}"] = substitute(KEY2RF[a[2]], sub)
                    eqs[i] = u[i] - w[i] + sym("step") * substitute(substitute(d, m), sub)
                sol = {}
                for name, rad in rel.items():
                    a = ("sym", name)
                    for i, e in eqs.items():
                        parts_ = _degree_split(e.num, a)
                        if set(parts_) - {0, 1}:
                            raise Unsupported("equation not linear in the norm")
                        p, q = parts_.get(1, const(0)), parts_.get(0, const(0))
                        if p.is_zero():
                            continue
                        sol[a] = -q / p
                        break
                    if a in sol:
                        n += 1
                        rho_num, rad_num = rg.num(sol[a]), rg.num(rad)
                        ok = (sol[a] * sol[a]).equals(rad) and rho_num > 0
                        res = (rho_num ** 2 - rad_num) / max(1.0, abs(rad_num)) if rho_num > 0 else 1.0
                        _residual_verdict(ctx, rule, key + f"::{name}", ok, res,
                                          f"{dcls.name}.prox({wv}) violates the first-order condition of "
                                          f"{dcls.name}.value(): the residual norm it requires is not the norm "
                                          "of the residual at the output", where, [])
                for i, e in eqs.items():
                    e2 = substitute(e, sol) if sol else e
                    n += 1
                    _residual_verdict(ctx, rule, key + f"::eq{i}", e2.is_zero(), rg.num(e2),
                                      f"{dcls.name}.prox({wv}) = ({un[0]:.4g}, {un[1]:.4g}) is not stationary for "
                                      f"0.5 |u - w|^2 + step * {dcls.name}.value(y, ., u) in coordinate {i}",
                                      where, [])
                for i in range(2):
                    if not at_kink[i]:
                        continue
                    ds = []
                    for side in (+1, -1):
                        rg3 = Region(dict(vals, v0=un[0], v1=un[1]))
                        rg3.values[f"v{i}"] = un[i] + side * 1e-5
                        L3 = RegionLifter(prog, rg3)
                        vs = [sym(f"v{k}") if (k == i or not at_kink[k]) else sym(f"y{k}") for k in range(2)]
                        v3 = R(L3.call_function(dcls.find_method("value"), [y, None, Vec(vs)], self_obj=dobj))
                        ds.append(rg3.num(derivative(v3, ("sym", f"v{i}"))))
                    right = un[i] - wv[i] + vals["step"] * ds[0]
                    left = un[i] - wv[i] + vals["step"] * ds[1]
                    n += 1
                    ctx.ob(rule, key + f"::kink{i}", right >= -1e-9 and left <= 1e-9,
                           what=f"{dcls.name}.prox({wv}) puts coordinate {i} on the kink u_i = y_i although "
                                "the one-sided derivatives of the prox objective do not bracket 0", loc=where)
                # Moreau
                pc = dcls.find_method("prox_conjugate")
                if pc is not None and not pc.cls.name.startswith("Base"):
                    z = Vec([sym("w0"), sym("w1")])
                    got = L.call_function(pc, [z, sym("step"), y], self_obj=dobj)
                    inv = const(1) / sym("step")
                    pz = L.call_function(px, [Vec([z[0] * inv, z[1] * inv]), inv, y], self_obj=dobj)
                    n += 1
                    okm = all(R(got[i]).equals(R(z[i]) - sym("step") * R(pz[i])) for i in range(2))
                    ctx.ob(rule, key + "::moreau", okm,
                           what=f"{dcls.name}.prox_conjugate is not z - step * prox(z / step, 1 / step, y)",
                           loc=loc(pc, pc.node))
            except Raised as e:
                n += 1
                ctx.ob(rule, key, False, what=f"{dcls.name}.prox raises at w={wv}: {e}", loc=where)
            except (Unsupported, ZeroDivisionError) as e:
                ctx.ob(rule, key, None, detail=f"not lifted: {e}")
    ctx.floor(rule, n, scope.get("floor", 15))


# ------------------------------------------------------------------- is_penalized
def r_ispen(A, ctx, scope, rule="R-ISPEN"):
    ctx.rule(rule, "is_penalized: a coordinate / group flagged as unpenalised does not enter the penalty's "
             "own value() (derivative identically zero on both sides of 0), for weights with a zero "
             "entry; solvers keep such coordinates in every working set and never score them")
    prog = A.prog
    n = 0
    for cls in prog.penalties:
        ip = cls.find_method("is_penalized")
        if ip is None or ip.cls.name == "BasePenalty":
            continue
        spec = dict(prog.spec_of(cls) or [])
        where = loc(ip, ip.node)
        group = "grp_ptr" in spec
        block = cls.find_method("prox_1feat") is not None
        for var in _variants(prog, cls):
            try:
                if group:
                    model = BlockModel(A, cls, var, zero_weight=True)
                    obj = model.self_obj()
                    n_items = 2
                    coords = {1: ["w0", "w1"]}                 # group 1 = the analysed block
                elif block:
                    continue
                else:
                    model = ScalarModel(A, cls, var)
                    obj = model.self_obj()
                    if "weights" in obj.attrs:
                        obj.attrs["weights"] = Vec([sym("wtA"), const(0)])
                    n_items = 2
                    coords = {1: ["w0"]}
            except Unsupported as e:
                ctx.note(f"{rule}: {cls.name} skipped: {e}")
                break
            for wv in (0.7, -0.7):
                if var.get("positive") and wv < 0:
                    continue
                key = f"{cls.fq}::is_penalized::{model.tag}::w={wv}"
                try:
                    L, rg = model.lifter({"w0": wv, "w1": wv * 0.6, "wa": 0.37})
                    flags = L.call_function(ip, [n_items], self_obj=obj)
                    if group:
                        val = R(L.call_function(cls.find_method("value"), [model.coef(sym("w0"), sym("w1"))],
                                                self_obj=obj))
                    else:
                        val = R(L.call_function(cls.find_method("value"), [Vec([sym("wa"), sym("w0")])], self_obj=obj))
                    for item, names in coords.items():
                        if L.truth(flags[item]):
                            continue
                        for nm in names:
                            d = derivative(val, ("sym", nm))
                            n += 1
                            ctx.ob(rule, key + f"::{nm}", d.is_zero(),
                                   what=f"{model.tag}: item {item} is flagged unpenalised by is_penalized but "
                                        f"value() depends on its coefficient (d value/d {nm} = {rg.num(d):.4g} at "
                                        f"{wv}): the solver never scores a coordinate that the objective penalises",
                                   loc=where)
                    n += 1
                    ctx.ob(rule, key, True)
                except (Unsupported, Raised) as e:
                    ctx.ob(rule, key, None, detail=f"not lifted: {e}")
    ctx.floor(rule, n, scope.get("floor", 8))


# ------------------------------------------------------------------- vector proxes (sorted-L1)
def r_proxvec(A, ctx, scope, rule="R-PROXVEC"):
    ctx.rule(rule, "vector proxes of convex non-separable penalties (SLOPE): at the output u of prox_vec "
             "the one-sided directional derivative of 0.5 |u - x|^2 + stepsize * value(u), taken from "
             "the penalty's own value() lifted along the direction, is non-negative for the coordinate "
             "directions, the tied-cluster directions and the sign directions of the k largest inputs "
             "(necessary for a minimiser of a convex objective; compared at the region's witness)")
    prog = A.prog
    n = 0
    XS = [(1.0, 0.9, 0.1), (3.0, -2.0, 0.5), (0.3, 0.2, -0.1), (-1.5, 1.4, 1.3), (0.07, 2.0, -0.65), (0.9, -1.0, 0.95)]
    for cls in prog.penalties:
        pv = cls.find_method("prox_vec")
        if pv is None or pv.cls.name == "BasePenalty" or cls.find_method("prox_1d") is not None \
                and cls.find_method("prox_1d").cls.name != "BasePenalty":
            continue
        spec = dict(prog.spec_of(cls) or [])
        if "alphas" not in spec:
            ctx.note(f"{rule}: {cls.name} skipped (no model of its attributes)")
            continue
        where = loc(pv, pv.node)
        for alphas in ((1.2, 0.1, 0.05), (0.8, 0.8, 0.8), (1.0, 0.6, 0.3)):
            for xs in XS:
                key = f"{cls.fq}::prox_vec::alphas={alphas}::x={xs}"
                try:
                    vals = {"s": 1.0, "t": 1e-6}
                    for i in range(3):
                        vals[f"a{i}"] = alphas[i]
                        vals[f"x{i}"] = xs[i]
                    rg = Region(vals)
                    L = RegionLifter(prog, rg, max_steps=20000)
                    obj = Obj(cls, {"alphas": Vec([sym("a0"), sym("a1"), sym("a2")])})
                    x = Vec([sym("x0"), sym("x1"), sym("x2")])
                    u = [R(v) for v in L.call_function(pv, [x, sym("s")], self_obj=obj)]
                    un = [rg.num(v) for v in u]
                    dirs = []
                    for i in range(3):
                        for sg in (1, -1):
                            d = [0, 0, 0]
                            d[i] = sg
                            dirs.append(d)
                    # clusters of equal |u|
                    for i in range(3):
                        for j in range(i + 1, 3):
                            if abs(abs(un[i]) - abs(un[j])) < 1e-12 and abs(un[i]) > 1e-12:
                                for sg in (1, -1):
                                    d = [0, 0, 0]
                                    d[i] = sg * (1 if un[i] > 0 else -1)
                                    d[j] = sg * (1 if un[j] > 0 else -1)
                                    dirs.append(d)
                    order = sorted(range(3), key=lambda i: -abs(xs[i]))
                    for k in (1, 2, 3):
                        d = [0, 0, 0]
                        for i in order[:k]:
                            d[i] = 1 if xs[i] > 0 else -1
                        dirs.append(d)
                    worst = None
                    for d in dirs:
                        rg2 = Region(dict(vals))
                        L2 = RegionLifter(prog, rg2, max_steps=20000)
                        pt = Vec([u[i] + sym("t") * const(d[i]) for i in range(3)])
                        val = R(L2.call_function(cls.find_method("value"), [pt], self_obj=obj))
                        dv = rg2.num(substitute(derivative(val, ("sym", "t")), {("sym", "t"): const(0)}))
                        slope = sum((un[i] - xs[i]) * d[i] for i in range(3)) + vals["s"] * dv
                        if worst is None or slope < worst[0]:
                            worst = (slope, d)
                    n += 1
                    ctx.ob(rule, key, worst[0] >= -1e-7,
                           what=f"{cls.name}.prox_vec({xs}) with alphas {alphas} returns "
                                f"({un[0]:.4g}, {un[1]:.4g}, {un[2]:.4g}) but the prox objective built from "
                                f"{cls.name}.value() decreases along {worst[1]} (slope {worst[0]:.4g}): the "
                                "output is not the minimiser", loc=where)
                except Raised as e:
                    n += 1
                    ctx.ob(rule, key, False, what=f"{cls.name}.prox_vec raises: {e}", loc=where)
                except (Unsupported, ZeroDivisionError) as e:
                    ctx.ob(rule, key, None, detail=f"not lifted: {e}")
    ctx.floor(rule, n, scope.get("floor", 12))


# ------------------------------------------------------------------- rounding hazards in closed forms
def r_rounding(A, ctx, scope, rule="R-ROUNDING"):
    ctx.rule(rule, "closed-form prox helpers: no square root is taken of a radicand that cancels to "
             "exactly zero on a region the helper itself visits (bracket end points, thresholds): the "
             "floating-point value of such a radicand has a random sign, the root is NaN and every "
             "later comparison is False (clip with max(., 0))")
    prog = A.prog
    m = prog.modules.get("skglm.utils.prox_funcs")
    if m is None:
        raise AnalysisError("skglm.utils.prox_funcs missing")
    n = 0
    cases = [("prox_log_sum", [("x", 1.7), ("alpha", 6.0), ("eps", 0.05)]),
             ("prox_log_sum", [("x", 0.4), ("alpha", 0.9), ("eps", 0.3)]),
             ("prox_log_sum", [("x", 3.0), ("alpha", 0.2), ("eps", 0.9)]),
             # exact tie of the regime test sqrt(alpha) == eps (constants, not symbols): the bisection
             # bracket is empty there
             ("prox_log_sum", [("x", 0.5), ("alpha", "=1"), ("eps", "=1")]),
             ("prox_log_sum", [("x", 2.5), ("alpha", "=1/4"), ("eps", "=1/2")]),
             ("prox_SCAD", [("value", 1.8), ("stepsize", 0.5), ("alpha", 1.0), ("gamma", 3.0)]),
             ("prox_MCP", [("value", 0.7), ("stepsize", 0.5), ("alpha", 1.0), ("gamma", 3.0)])]
    for fname, args in cases:
        f = m.functions.get(fname)
        if f is None:
            raise AnalysisError(f"prox helper {fname} missing")
        key = f"{f.fq}::{','.join(f'{k}={v}' for k, v in args)}"
        try:
            rg = Region({k: v for k, v in args if not isinstance(v, str)})
            L = RegionLifter(prog, rg, max_steps=60000)
            try:
                L.call_function(f, [const(Fraction(v[1:])) if isinstance(v, str) else sym(k) for k, v in args])
            except Unsupported as e:
                # a bisection is followed until its iterates are too close for the witness to
                # separate them: everything lifted up to there still counts
                if "region boundary" not in str(e):
                    raise
            n += 1
            hz = L.hazards
            ctx.ob(rule, key, not hz,
                   what=(f"{hz[0][0].name}: `{norm_src(hz[0][1])[:60]}`: {hz[0][2]} (reached from {fname} with "
                         f"{dict(args)})") if hz else "", loc=loc(hz[0][0], hz[0][1]) if hz else None)
        except Raised as e:
            n += 1
            ctx.ob(rule, key, False, what=f"{fname} raises: {e}", loc=loc(f, f.node))
        except (Unsupported, ZeroDivisionError) as e:
            ctx.ob(rule, key, None, detail=f"not lifted: {e}")
    ctx.floor(rule, n, scope.get("floor", 4))


# ------------------------------------------------------------------- fallback step on zero curvature
def _fallback_literal(A):
    """the step the epoch kernels use when the curvature of a coordinate is zero"""
    import ast as _ast
    vals = set()
    for m in A.prog.modules.values():
        if not m.name.startswith("skglm.solvers"):
            continue
        for n in _ast.walk(m.tree):
            if isinstance(n, _ast.IfExp) and isinstance(n.orelse, _ast.Constant) and isinstance(n.orelse.value, (int, float)) \
                    and isinstance(n.body, _ast.BinOp) and isinstance(n.body.op, _ast.Div) \
                    and isinstance(n.test, _ast.Compare):
                vals.add(float(n.orelse.value))
    return vals


def r_fallback_step(A, ctx, scope, rule="R-FALLBACK"):
    ctx.rule(rule, "zero-curvature coordinates: with the fallback step the epoch kernels use when a Lipschitz "
             "constant is 0 (far outside the usual step range, where a prox helper may take another "
             "branch), the prox of every penalty with positive=True still returns a non-negative value "
             "for negative inputs of any size")
    steps = _fallback_literal(A)
    if len(steps) != 1:
        ctx.ob(rule, "fallback-literal", None, detail=f"fallback steps found in the kernels: {sorted(steps)}")
        return
    S = steps.pop()
    n = 0
    for cls in A.prog.penalties:
        px = cls.find_method("prox_1d")
        if px is None or px.cls.name == "BasePenalty" or "positive" not in A.prog.init_params(cls):
            continue
        model = ScalarModel(A, cls, {"positive": True})
        try:
            obj = model.self_obj()
        except Unsupported:
            continue
        for ratio in (-S / 10.0, -S / 500.0, -3 * S):
            key = f"{cls.fq}::prox_1d::{model.tag}::x={ratio:g}*alpha,step={S:g}"
            try:
                L, rg = model.lifter({"x": ratio * HYP["alpha"], "s": S})
                u = R(L.call_function(px, [sym("x"), sym("s"), 1], self_obj=obj))
                un = rg.num(u)
            except Raised as e:
                n += 1
                ctx.ob(rule, key, False, what=f"{model.tag}.prox_1d raises at the fallback step {S}: {e}",
                       loc=loc(px, px.node))
                continue
            except (Unsupported, ZeroDivisionError) as e:
                ctx.ob(rule, key, None, detail=f"not lifted: {e}")
                continue
            n += 1
            ctx.ob(rule, key, un >= -1e-300,
                   what=f"{model.tag}: prox_1d({ratio:g} * alpha, step={S:g}) = {un:.4g} is negative although "
                        "positive=True: on a zero-curvature coordinate (fallback step) a negative warm-started "
                        "coefficient is returned as is", loc=loc(px, px.node))
    ctx.floor(rule, n, scope.get("floor", 9))


def r_nonneg_prox(A, ctx, scope, rule="R-NONNEG-PROX"):
    ctx.rule(rule, "sign constraint over the whole parameter range: with positive=True the lifted prox_1d of "
             "every separable penalty returns a non-negative, finite value on a grid of inputs of both signs "
             "and several magnitudes, for steps below and above the non-convexity parameter and for feature "
             "weights below and above gamma / step (where a piecewise formula can change sign in its "
             "middle branch) - every epoch of every solver returns what the prox returned")
    n = 0
    grid_x = (-30.0, -9.0, -2.0, -0.5, 0.5, 2.0, 4.5, 9.0, 14.0, 30.0)
    for cls in A.prog.penalties:
        px = cls.find_method("prox_1d")
        if px is None or px.cls.name == "BasePenalty" or "positive" not in A.prog.init_params(cls):
            continue
        model = ScalarModel(A, cls, {"positive": True})
        try:
            obj = model.self_obj()
        except Unsupported:
            continue
        has_w = any(name == "weights" for name, _ in (A.prog.spec_of(cls) or []))
        for wv in ((2.0 / 3.0, 5.0) if has_w else (2.0 / 3.0,)):
            for sv in (0.25, 1.0, 2.5):
                bad, und, cnt = None, None, 0
                for xv in grid_x:
                    try:
                        L, rg = model.lifter({"x": xv, "s": sv, "wt": wv})
                        un = rg.num(R(L.call_function(px, [sym("x"), sym("s"), 1], self_obj=obj)))
                    except Raised as e:
                        bad = bad or (xv, f"raises {e}")
                        cnt += 1
                        continue
                    except (Unsupported, ZeroDivisionError) as e:
                        und = str(e)
                        continue
                    cnt += 1
                    if not (un >= -1e-300) or un != un or abs(un) == float("inf"):
                        bad = bad or (xv, f"= {un:.4g}")
                if cnt == 0:
                    ctx.note(f"{rule}: {model.tag} step {sv} weight {wv:.3g}: not lifted ({und})")
                    continue
                n += 1
                ctx.ob(rule, f"{cls.fq}::prox_1d::{model.tag}::step={sv:g},weight={wv:.3g}", bad is None,
                       detail=f"{cnt} inputs",
                       what=(f"{model.tag}: prox_1d(x={bad[0]:g}, step={sv:g}) with weight {wv:.3g}, alpha=1, "
                             f"gamma=3 {bad[1]} although positive=True: a coordinate update returns an "
                             f"infeasible (negative / non-finite) coefficient at this stopping point") if bad else "",
                       loc=loc(px, px.node))
    ctx.floor(rule, n, scope.get("floor", 15))
