"""Property -> rules wiring.  Each function returns kwargs for Ctx.finish()."""
from . import control

TB = ["CPython ast", "role seeds: positional parameters of BaseSolver._solve and the "
      "fixed slot-method names of the datafit/penalty interface"]


def c01(A, ctx, tier):
    scope = dict(exempt=control.C01_SCOPE_EXEMPT)
    control.r_zero(A, ctx, dict(scope, floor=6))
    control.r_cert(A, ctx, dict(scope, floor=20))
    control.r_fresh(A, ctx, dict(scope, floor=12))
    control.r_retstop(A, ctx, dict(scope, floor=6))
    control.r_anderson(A, ctx, scope)
    control.r_lbfgs(A, ctx, scope)
    for k, v in control.C01_SCOPE_EXEMPT.items():
        ctx.note(f"out of scope {k}: {v}")
    ctx.assume("a score <= tol implies eps-stationarity numerically (not decided)")
    ctx.assume("the formulas inside subdiff_distance / gradients are decided under C06/C08")
    return dict(explanation="well-formedness of the convergence certificate on every "
                "CFG path of every solver: zero-budget value, max-reduction over all "
                "coordinates + intercept term, freshness w.r.t. in-place mutations, "
                "affine consistency of Anderson extrapolation, L-BFGS fun/jac pairing",
                trusted_base=TB)


PROPS = {
    "C01": c01,
}
