"""Property -> rules wiring.  Each function returns kwargs for Ctx.finish()."""
from . import control, history, descent, warm, degenerate, feasible, plumb, matrix, storage, formulas, penalgebra, misc, extents, blockpen, cox, reweight, critical, kernels, pairing, domain

TB = ["CPython ast", "role seeds: positional parameters of BaseSolver._solve and the "
      "fixed slot-method names of the datafit/penalty interface"]
EX01 = control.C01_SCOPE_EXEMPT
TBA = TB + ["identity list of sa/algebra.py (exp/sqrt/abs/sign/indicator rules, X*mask = X)",
            "attribute-extent table ATTR_DIMS, tabled Hessian suprema and documented bounds"]


def c01(A, ctx, tier):
    scope = dict(exempt=EX01)
    control.r_zero(A, ctx, dict(scope, floor=6))
    control.r_cert(A, ctx, dict(scope, floor=20))
    control.r_fresh(A, ctx, dict(scope, floor=12))
    control.r_retstop(A, ctx, dict(scope, floor=6))
    control.r_gradpoint(A, ctx, dict(scope, floor=10))
    control.r_anderson(A, ctx, scope)
    control.r_lbfgs(A, ctx, scope)
    formulas.r_cert_scale(A, ctx, dict(exempt=EX01, floor=3))
    misc.r_accreset(A, ctx, dict(floor=2))
    warm.r_path(A, ctx, dict(floor=8))
    kernels.r_fixpoint(A, ctx, dict(floor=5))
    storage.r_solverstate(A, ctx, dict(floor=25))
    descent.r_candidate(A, ctx, dict(floor=3))
    degenerate.r_nansafe(A, ctx, dict(floor=25))
    # a score below the tolerance certifies a feasible point only: under positive=True the subdifferential
    # distance of a negative coefficient is +inf (the penalty is +inf there)
    feasible.r_pos(A, ctx, dict(floor=5), rule="R-POS-SCORE", parts=("score",))
    for k, v in EX01.items():
        ctx.note(f"out of scope {k}: {v}")
    cox.r_istep_multitask(A, ctx, {})
    ctx.assume("a score <= tol implies eps-stationarity numerically (not decided)")
    ctx.assume("the formulas inside subdiff_distance / gradients are decided under C06/C08")
    return dict(explanation="well-formedness of the convergence certificate on every "
                "CFG path of every solver: zero-budget value, max-reduction over all "
                "coordinates + intercept term, freshness w.r.t. in-place mutations, "
                "affine consistency of Anderson extrapolation, L-BFGS fun/jac pairing",
                trusted_base=TB)


def c03(A, ctx, tier):
    descent.r_guard(A, ctx, dict(exempt={"FISTA", "PDCD_WS"}, floor=4))
    descent.r_step(A, ctx, dict(floor=12))
    descent.r_ls(A, ctx, dict(floor=12))
    formulas.r_istep_bound(A, ctx, dict(floor=9))
    reweight.r_reweight(A, ctx, dict(floor=9))
    warm.r_path(A, ctx, dict(floor=8))
    descent.r_candidate(A, ctx, dict(floor=3))
    degenerate.r_nansafe(A, ctx, dict(floor=25))
    degenerate.r_loopvar(A, ctx, dict(floor=40))
    ctx.note("backtracking exhaustion (`else: pass  # TODO` after 20 halvings) keeps the last "
             "trial step: informational, no rule can say what the right fallback is")
    ctx.assume("prox operators are exact and L_k bounds the curvature (C07/C09)")
    return dict(explanation="descent mechanisms: acceptance of extrapolated points is "
                "dominated by a strict objective decrease of sibling objective terms; "
                "every prox call is the majorisation step 1/L_k at the coordinate it "
                "updates; the three line searches follow one template", trusted_base=TB)


def c04(A, ctx, tier):
    feasible.r_inf(A, ctx, dict(floor=8))
    feasible.r_pos(A, ctx, dict(floor=10))
    feasible.r_write(A, ctx, dict(floor=15))
    misc.r_zerocol(A, ctx, dict(floor=10))
    blockpen.r_proxfoc_block(A, ctx, dict(floor=12), rule="R-NONNEG-BLOCK", parts=("nonneg",))
    blockpen.r_inf_block(A, ctx, dict(floor=10))
    blockpen.r_gsupp(A, ctx, dict(floor=80))
    blockpen.r_fallback_step(A, ctx, dict(floor=9))
    ctx.assume("finiteness under overflow/cancellation is not decided")
    blockpen.r_nonneg_prox(A, ctx, dict(floor=15))
    return dict(explanation="feasibility at every stopping point: only prox outputs, "
                "guarded extrapolations, line-search combinations and the intercept are "
                "ever written into w; constraint-bearing penalties expose the constraint "
                "in value() so the acceptance guard can reject infeasible candidates; the "
                "positive flag reaches every prox and score", trusted_base=TB)


def c05(A, ctx, tier):
    warm.r_none_ifexp(A, ctx, dict(floor=10))
    warm.r_pair(A, ctx, dict(floor=12))
    warm.r_path(A, ctx, dict(floor=8))
    warm.r_warmfit(A, ctx, dict(floor=5))
    warm.r_cache(A, ctx, {})
    misc.r_alias(A, ctx, dict(floor=10))
    pairing.r_pair_eq(A, ctx, dict(floor=30))
    misc.r_wssize(A, ctx, dict(floor=4))
    control.r_cert(A, ctx, dict(exempt=EX01, floor=6), rule="R-CERT-TOL", clauses=())
    ctx.assume("a consistent (w_init, Xw_init) pair is the caller's contract")
    return dict(explanation="warm starts and paths: optional-argument idiom, pairing of "
                "every coefficient store with its model-fit delta, path discipline "
                "(alpha set, copy of previous column, model-fit template), _glm_fit "
                "warm-start template, no cached solver state", trusted_base=TB)


def c17(A, ctx, tier):
    history.r_hist(A, ctx, dict(exempt={"LBFGS"}, floor=12))
    control.r_retstop(A, ctx, dict(floor=6))
    control.r_gradpoint(A, ctx, dict(floor=9))
    control.r_fresh(A, ctx, dict(exempt={k: v for k, v in EX01.items() if k != "FISTA"}, floor=12))
    control.r_lbfgs(A, ctx, {})
    warm.r_warmfit(A, ctx, dict(floor=5))
    history.r_niter(A, ctx, dict(floor=3))
    control.r_zero(A, ctx, dict(exempt={}, floor=7), rule="R-ZERO-BOUND", want="bound")
    return dict(explanation="diagnostics: one history entry per completed outer "
                "iteration, entry = objective of the current iterate (bound, fresh, "
                "intercept unpenalised), returned stop value is the tested one, n_iter_ = "
                "len(history)", trusted_base=TB)


def c19(A, ctx, tier):
    def where(A_):
        return [f for f in degenerate.reachable_functions(A_, degenerate.solver_roots(A_))
                if not (f.cls is not None and f.cls in A_.prog.penalties)
                and f.module.name != "skglm.utils.prox_funcs"]
    degenerate.r_div(A, ctx, dict(floor=15), where=where)
    degenerate.r_loop(A, ctx, dict(floor=100))
    misc.r_sibguard(A, ctx, dict(floor=8))
    misc.r_zerocol(A, ctx, dict(floor=10))
    misc.r_abseps(A, ctx, dict(floor=300))
    kernels.r_zeroblock(A, ctx, {})
    degenerate.r_nansafe(A, ctx, dict(floor=25))
    cox.r_istep_multitask(A, ctx, {})
    kernels.r_fixpoint(A, ctx, dict(floor=5), rule="R-FIXPOINT-ZEROGROUP")
    pairing.r_pair_eq(A, ctx, dict(only="zero task", floor=2), rule="R-PAIR-ZEROTASK")
    blockpen.r_proxfoc_block(A, ctx, dict(floor=12), rule="R-PROX-ZEROWEIGHT-BLOCK", parts=("nonneg",))
    domain.r_target_domain(A, ctx, dict(floor=2))
    ctx.assume("finiteness under overflow and rank-deficient non-zero designs are not decided")
    domain.r_blockbound(A, ctx, dict(floor=1))
    return dict(explanation="degenerate data: every division by a data-derived "
                "magnitude in solver code is dominated by a non-zero fact; every loop is "
                "bounded", trusted_base=TB)


def c11(A, ctx, tier):
    plumb.r_plumb(A, ctx, dict(floor=150))
    plumb.r_who(A, ctx, dict(floor=13))
    warm.r_none_deref(A, ctx, dict(floor=1))
    misc.r_grporder(A, ctx, dict(floor=6))
    plumb.r_rowfilter(A, ctx, dict(floor=10))
    misc.r_grppair(A, ctx, dict(floor=5))
    plumb.r_fitsets(A, ctx, dict(floor=3))
    plumb.r_weights_guard(A, ctx, dict(floor=6))
    # estimators' path() and warm-started fit() solve the documented problem only from a model fit that
    # belongs to the coefficients they start from (the problem solved is the one `Xw` says, not the one X says)
    warm.r_path(A, ctx, dict(floor=8))
    warm.r_warmfit(A, ctx, dict(floor=5))
    matrix.r_spec(A, ctx, dict(floor=150))
    ctx.assume("stationarity of the fitted coefficients is C01's business; the "
               "docstring-formula <-> class correspondence is not decided")
    return dict(explanation="constructor-argument plumbing of the 12 estimators: every "
                "documented argument is read on the fit and path paths, binds the formal of "
                "the same meaning, and is forwarded to every constructor that has it; all "
                "fits go through _glm_fit / solver.solve", trusted_base=TB)


def c12(A, ctx, tier):
    plumb.r_ovr(A, ctx, {})
    plumb.r_labelkind(A, ctx, {})
    plumb.r_classifkind(A, ctx, {})
    plumb.r_row0(A, ctx, {})
    plumb.r_classes(A, ctx, {})
    plumb.r_expstable(A, ctx, {})
    plumb.r_fitsets(A, ctx, dict(floor=3))
    plumb.r_squeeze(A, ctx, dict(floor=25))
    ctx.assume("probability normalisation/monotonicity (sklearn mix-ins, softmax) are "
               "runtime behaviour and not decided")
    warm.r_warmfit(A, ctx, dict(floor=5))
    return dict(explanation="one-vs-rest assembly gathers every fitted attribute from the "
                "per-class binary fits; encoded class indices are never compared with raw "
                "labels", trusted_base=TB)


def c18(A, ctx, tier):
    plumb.r_pure(A, ctx, dict(floor=25))
    misc.r_lazyset(A, ctx, dict(floor=10))
    misc.r_accessor_pure(A, ctx, dict(floor=190))
    plumb.r_state(A, ctx, dict(floor=8))
    warm.r_cache(A, ctx, {})
    storage.r_solverstate(A, ctx, dict(floor=25))
    warm.r_path(A, ctx, dict(floor=8), rule="R-PATH-PURE")
    warm.r_warmfit(A, ctx, dict(floor=5), rule="R-WARMFIT-STATE")
    misc.r_initialize(A, ctx, dict(floor=6))
    ctx.note("spectral_norm draws its start vector from Numba's process-wide generator "
             "(np.random.randn inside an njit function): sparse global Lipschitz constants "
             "depend on how many draws happened before; informational (the power method's "
             "limit does not depend on the start vector)")
    misc.r_lazyread(A, ctx, dict(floor=20))
    return dict(explanation="purity: effect summaries show no in-place mutation of X, y, "
                "CSC arrays, group structure or constructor arrays anywhere reachable from "
                "fit/path/solve; estimators never rebind constructor attributes, read "
                "fitted state only under warm_start; no process-wide mutable state except "
                "the class-factory cache", trusted_base=TB)


def c10(A, ctx, tier):
    matrix.r_csc(A, ctx, dict(floor=40))
    storage.r_dispatch(A, ctx, dict(floor=15))
    storage.r_convert(A, ctx, dict(floor=6))
    storage.r_solveformat(A, ctx, dict(floor=6))
    storage.r_storage_state(A, ctx, dict(floor=15))
    storage.r_f32spec(A, ctx, {})
    storage.r_solverstate(A, ctx, dict(floor=25))
    misc.r_sparsetest(A, ctx, dict(floor=15))
    misc.r_sibguard(A, ctx, dict(floor=8))
    kernels.r_kernel_eq(A, ctx, dict(floor=40))
    kernels.r_csc_helpers(A, ctx, dict(floor=16))
    kernels.r_accessor_eq(A, ctx, dict(floor=20))
    kernels.r_zeroblock(A, ctx, {})
    ctx.assume("equality 'up to solver tolerance' of converged results is numerical and not decided; "
               "kernel equality is decided on one 3x3 design with structural zeros (symbolic entries), "
               "one epoch, not for every sparsity pattern")
    domain.r_msgnames(A, ctx, dict(floor=1))
    return dict(explanation="storage independence: CSC triples are "
                "passed in (data, indptr, indices) order at every call site; every sparse/"
                "dense dispatch calls a sibling pair with corresponding arguments; inputs are "
                "converted to CSC/Fortran order before any kernel; solver objects carry no "
                "state between solves; the dense and CSC copies of every solver kernel and the CSC "
                "helper functions are equal terms on a small symbolic design", trusted_base=TBA)


def c13(A, ctx, tier):
    matrix.r_spec(A, ctx, dict(floor=150))
    matrix.r_matrix(A, ctx, dict(floor=12000), tier=tier)
    history.r_unbound(A, ctx, dict(floor=20))
    plumb.r_who(A, ctx, dict(floor=13))
    misc.r_sparsetest(A, ctx, dict(floor=15))
    misc.r_selfdiff(A, ctx, {})
    extents.r_fullarg(A, ctx, dict(floor=40))
    extents.r_likedtype(A, ctx, dict(floor=20))
    misc.r_wscut(A, ctx, dict(floor=1))
    ctx.assume("accepted cells returning finite certified values is numerical (C01/C19)")
    # an accepted composition must not fail inside compiled code: the datafit accessors every accepted
    # cell calls (Lipschitz constants, gradients; dense and CSC) stay inside their arrays on tall and wide designs
    kernels.r_accessor_eq(A, ctx, dict(floor=40), rule="R-ACCESSOR-BOUNDS")
    domain.r_msgnames(A, ctx, dict(floor=1))
    return dict(explanation="every cell of the solver x datafit x penalty x storage x knob "
                "matrix is classified statically: refused by validation, or accepted with "
                "every slot call / attribute read of compiled code resolving to a real member "
                "of matching arity and every attribute in the jitclass spec; no unbound local "
                "can reach a use", trusted_base=TB, exhaustive=True)


def c16(A, ctx, tier):
    def where(A_):
        out = []
        for f in A_.prog.all_functions():
            if f.name == "alpha_max" or f.name.startswith("_alpha_max"):
                out.append(f)
        return out
    degenerate.r_div(A, ctx, dict(floor=3, py_level_strict=True), where=where, rule="R-DIV-ALPHAMAX")
    control.r_cert(A, ctx, dict(exempt=EX01, floor=6), rule="R-CERT-INTERCEPT", clauses=("intercept",))
    control.r_retstop(A, ctx, dict(exempt=EX01, floor=6))
    penalgebra.r_alphamax(A, ctx, dict(floor=4))
    extents.r_idx(A, ctx, dict(floor=3, floor_typed=3), rule="R-IDX-ALPHAMAX",
                  select=lambda f: f.name == "alpha_max" or f.name.startswith("_alpha_max"))
    critical.r_critical(A, ctx, dict(floor=4))
    blockpen.r_alphamax_positive(A, ctx, dict(floor=20))
    misc.r_wssize(A, ctx, dict(floor=4))
    # "null coefficients with the loss-minimising intercept": the quantity the solvers drive to zero for the
    # intercept (|intercept_update_step|) must be a positive multiple of the intercept gradient of value()
    formulas.r_istep(A, ctx, dict(floor=5))
    ctx.assume("that a fit slightly below alpha_max is non-zero is numerical and not decided")
    return dict(explanation="critical strength: alpha_max helpers exclude zero weights "
                "before dividing; a solver that fits an intercept cannot exit at w = 0 "
                "before the intercept is optimal", trusted_base=TB)


def c06(A, ctx, tier):
    formulas.r_sib(A, ctx, dict(floor=40))
    formulas.r_deriv(A, ctx, dict(floor=18))
    formulas.r_istep(A, ctx, dict(floor=5))
    penalgebra.r_red(A, ctx, dict(floor=3), rule="R-SIB-GROUP", parts=("group",))
    ctx.assume("value() is compared with its own derivatives and siblings, not with the "
               "docstring formula (parsing maths out of prose would be a text match)")
    cox.r_cox(A, ctx, {}, parts=("grad", "adj", "risk"))
    kernels.r_kernel_eq(A, ctx, dict(floor=12), rule="R-GRAD-EQ",
                        select=lambda f: "construct_grad" in f.name)
    kernels.r_accessor_eq(A, ctx, dict(floor=40))
    blockpen.r_prox_datafit(A, ctx, dict(floor=15))
    cox.r_istep_multitask(A, ctx, {})
    misc.r_lazyset(A, ctx, dict(floor=10))
    misc.r_accessor_pure(A, ctx, dict(floor=190))
    matrix.r_spec(A, ctx, dict(floor=150))
    ctx.assume("Cox: the outer composition (gradient == gradient_sparse == X.T @ raw_grad) is decided "
               "for all shapes with the risk-set recursions as opaque operators; the recursions "
               "themselves are decided on six fixed tie / censoring patterns of 3-5 observations "
               "(symbolic linear predictor), not for every pattern")
    domain.r_piecewise_cont(A, ctx, dict(floor=5))
    return dict(explanation="every datafit accessor is lifted to a rational-function normal "
                "form over (X, y, Xw, hyper-parameters): sibling accessors (dense, CSC, scalar, "
                "full, X_j.raw_grad) are equal terms, raw_grad / raw_hessian / coordinate "
                "gradients are the syntactic derivatives of value(), lazy attributes agree "
                "between initialize and initialize_sparse", trusted_base=TBA)


def c07(A, ctx, tier):
    penalgebra.r_proxfoc(A, ctx, dict(floor=30))
    feasible.r_pos(A, ctx, dict(floor=8), rule="R-POS-PROX", parts=("prox",))

    def where(A_):
        out = [f for f in A_.prog.modules["skglm.utils.prox_funcs"].functions.values()]
        for c in A_.prog.penalties:
            for m in ("prox_1d", "prox_1feat", "prox_1group", "prox_vec"):
                if m in c.methods:
                    out.append(c.methods[m])
        return out
    degenerate.r_div(A, ctx, dict(floor=3), where=where, rule="R-DIV-PROX")
    blockpen.r_proxfoc_block(A, ctx, dict(floor=250))
    blockpen.r_proxfoc_scalar_region(A, ctx, dict(floor=60), only=blockpen.closed_form_classes())
    blockpen.r_prox_zero_weight(A, ctx, dict(floor=12))
    blockpen.r_proxvec(A, ctx, dict(floor=12))
    blockpen.r_rounding(A, ctx, dict(floor=4))
    matrix.r_spec(A, ctx, dict(floor=150))
    ctx.assume("global optimality (as opposed to stationarity) of the closed forms prox_SCAD, prox_05, "
               "prox_2_3, prox_log_sum, prox_block_2_05, prox_SLOPE is an analytic result without "
               "structural clause: not claimed")
    return dict(explanation="prox_1d of every convex / MCP-type separable penalty is checked "
                "against the penalty's own value(): first-order condition on every order region "
                "(witness-selected branch, symbolic identity), zero output exactly below the kink "
                "threshold, non-negative output under positive=True, box projection; the positive "
                "flag reaches every prox helper; divisions by input norms are guarded",
                trusted_base=TBA)


def c08(A, ctx, tier):
    penalgebra.r_deriv_pen(A, ctx, dict(floor=45))
    feasible.r_pos(A, ctx, dict(floor=5), rule="R-POS-SCORE", parts=("score",))

    def where(A_):
        out = []
        for c in A_.prog.penalties:
            if "subdiff_distance" in c.methods:
                out.append(c.methods["subdiff_distance"])
        for m in A_.prog.modules.values():
            for f in m.functions.values():
                if f.name.startswith("dist_fix_point"):
                    out.append(f)
        return out
    degenerate.r_div(A, ctx, dict(floor=8), where=where, rule="R-DIV-SCORE")
    blockpen.r_deriv_pen_block(A, ctx, dict(floor=180))
    kernels.r_fixpoint(A, ctx, dict(floor=5))
    blockpen.r_ispen(A, ctx, dict(floor=20))
    # penalties without subdiff_distance are scored by the fixed-point residual of their prox alone:
    # "zero exactly at stationary points" is then the first-order condition of that prox
    blockpen.r_proxfoc_block(A, ctx, dict(floor=4, select=lambda c: c.find_method("subdiff_distance") is None
                                          or c.find_method("subdiff_distance").cls.name == "BasePenalty"),
                             rule="R-PROX-SCORE", parts=("foc", "zero"))
    # the fixed-point score |w - prox(w - grad / L)| (ws_strategy / opt_strategy "fixpoint", available for every
    # penalty) is zero exactly at stationary points only if the prox satisfies the first-order condition of the
    # penalty's own value(): the same value() the subdifferential score is derived from
    penalgebra.r_proxfoc(A, ctx, dict(floor=30), rule="R-PROX-SCORE-SCALAR")
    extents.r_uninit(A, ctx, dict(floor=0))
    ctx.assume("that the regular subdifferential is the right notion at non-convex kinks is a "
               "mathematical fact, not decided")
    return dict(explanation="for every separable penalty and every order region of w_j the "
                "lifted subdiff_distance equals |grad + d value/d w_j| (smooth regions), "
                "max(0, |grad| - t) at the kink with t the one-sided limit of the derivative, +inf "
                "on negative coefficients under positive=True, the normal-cone template for "
                "indicator penalties", trusted_base=TBA)


def c09(A, ctx, tier):
    formulas.r_lipc(A, ctx, dict(floor=12))
    formulas.r_sib(A, ctx, dict(floor=12), only=("lipschitz",))
    extents.r_idx(A, ctx, dict(floor=10, floor_typed=10), rule="R-IDX-LIPSCHITZ",
                  select=lambda f: "lipschitz" in f.name)
    cox.r_cox(A, ctx, {}, rule_prefix="R-COX", parts=("hess",))
    misc.r_powerstart(A, ctx, {})
    cox.r_hessian_bound_sqrt(A, ctx, {})
    cox.r_cox_global(A, ctx, {})
    kernels.r_csc_helpers(A, ctx, dict(floor=16))
    kernels.r_accessor_eq(A, ctx, dict(floor=12), rule="R-LIPSCHITZ-EQ", select=lambda m: "lipschitz" in m)
    kernels.r_zeroblock(A, ctx, {})
    ctx.assume("accuracy of the power method in spectral_norm is numerical and not decided; "
               "spectral norms are opaque atoms keyed by the matrix they are taken of")
    domain.r_blockbound(A, ctx, dict(floor=1))
    return dict(explanation="coordinate / group / global Lipschitz constants are lifted and "
                "compared with sum_i X_ij^2 h_i, ||X_g||^2 h, ||diag(sqrt h) X||^2 where h is the "
                "lifted (constant) Hessian or its tabled supremum; larger constants are accepted, "
                "smaller ones are violations; dense and CSC variants are equal terms",
                trusted_base=TBA)


def c14(A, ctx, tier):
    penalgebra.r_red(A, ctx, dict(floor=35))
    plumb.r_who(A, ctx, dict(floor=13))
    misc.r_grporder(A, ctx, dict(floor=6))
    cox.r_cox_reduction(A, ctx, dict(floor=15))
    cox.r_replicated_rows(A, ctx, {})
    cox.r_singleton_groups(A, ctx, {})
    misc.r_inf_hyper(A, ctx, {})
    misc.r_abseps(A, ctx, dict(floor=300))
    ctx.assume("limit reductions (gamma -> inf, delta -> inf), SLOPE vs L1, Gram vs CD are not decided")
    misc.r_lazyread(A, ctx, dict(floor=20))
    feasible.r_pos(A, ctx, dict(floor=8), rule="R-POS-PROX", parts=("prox",))
    return dict(explanation="method-by-method equality of lifted terms under the substitution "
                "that makes the general component coincide with the special one (weights := 1, "
                "l1_ratio := 1, sample_weights := 1, group accessor at one feature); every "
                "estimator goes through the same _glm_fit as GeneralizedLinearEstimator",
                trusted_base=TBA)


def c15(A, ctx, tier):
    extents.r_idx(A, ctx, dict(floor=150, floor_typed=400))
    descent.r_step(A, ctx, dict(floor=12), rule="R-STEP-KIND")
    misc.r_grporder(A, ctx, dict(floor=6))
    misc.r_abseps(A, ctx, dict(floor=300))
    kernels.r_fixpoint(A, ctx, dict(floor=5), rule="R-FIXPOINT-ORDER")
    degenerate.r_loopvar(A, ctx, dict(floor=40))
    ctx.assume("equivariance of converged solutions and scaling laws are numerical; decided is "
               "the necessary condition that no subscript mixes a working-set position, a "
               "feature, a group, a task or a sample index, and that group specifications keep "
               "the caller's order")
    misc.r_wssize(A, ctx, dict(floor=4))
    return dict(explanation="index-kind inference over all kernels, datafits and penalties: "
                "every typed subscript uses an index of the axis' own domain; the coordinate "
                "handed to a prox is a feature/group, never a position; grp_converter preserves "
                "order", trusted_base=TB + ["attribute-domain table and slot signatures of sa/kinds.py"])


def c20(A, ctx, tier):
    extents.r_idx(A, ctx, dict(floor=150, floor_typed=400))
    extents.r_slotext(A, ctx, dict(floor=17))
    extents.r_slice(A, ctx, dict(floor=12))
    extents.r_bounds(A, ctx, dict(floor=30))
    extents.r_argkind(A, ctx, dict(floor=60))
    matrix.r_csc(A, ctx, dict(floor=40), rule="R-CSC-ORDER")
    kernels.r_fixpoint(A, ctx, dict(floor=4), rule="R-FIXPOINT-BOUNDS")
    kernels.r_kernel_eq(A, ctx, dict(floor=40), rule="R-KERNEL-BOUNDS")
    kernels.r_csc_helpers(A, ctx, dict(floor=16), rule="R-CSC-BOUNDS")
    kernels.r_accessor_eq(A, ctx, dict(floor=40), rule="R-ACCESSOR-BOUNDS")
    pairing.r_pair_eq(A, ctx, dict(floor=30), rule="R-PAIR-BOUNDS")
    extents.r_fullarg(A, ctx, dict(floor=40))
    misc.r_wscut(A, ctx, dict(floor=1))
    extents.r_uninit(A, ctx, dict(floor=0))
    misc.r_initialize(A, ctx, dict(floor=6))
    ctx.assume("value-dependent indices (entries of user-supplied grp_indices / CSC indices being "
               "in range) are an input contract and not decided")
    return dict(explanation="extent discipline of compiled kernels: index kinds match axis "
                "domains; the array returned by get_lipschitz ranges over the domain the solver "
                "indexes it by, for every accepted datafit; a[:-1] / a[-1] on coefficient arrays "
                "only under the intercept flag; offset subscripts of pointer arrays stay below "
                "their length", trusted_base=TB + ["attribute-domain table and slot signatures of sa/kinds.py"])


PROPS = {
    "C15": c15, "C20": c20,
    "C06": c06, "C07": c07, "C08": c08, "C09": c09, "C14": c14,
    "C10": c10, "C13": c13, "C16": c16,
    "C11": c11, "C12": c12, "C18": c18,
    "C01": c01, "C03": c03, "C04": c04, "C05": c05, "C17": c17, "C19": c19,
}
