"""Property -> rules wiring.  Each function returns kwargs for Ctx.finish()."""
from . import control, history, descent, warm, degenerate, feasible

TB = ["CPython ast", "role seeds: positional parameters of BaseSolver._solve and the "
      "fixed slot-method names of the datafit/penalty interface"]
EX01 = control.C01_SCOPE_EXEMPT


def c01(A, ctx, tier):
    scope = dict(exempt=EX01)
    control.r_zero(A, ctx, dict(scope, floor=6))
    control.r_cert(A, ctx, dict(scope, floor=20))
    control.r_fresh(A, ctx, dict(scope, floor=12))
    control.r_retstop(A, ctx, dict(scope, floor=6))
    control.r_anderson(A, ctx, scope)
    control.r_lbfgs(A, ctx, scope)
    for k, v in EX01.items():
        ctx.note(f"out of scope {k}: {v}")
    ctx.assume("a score <= tol implies eps-stationarity numerically (not decided)")
    ctx.assume("the formulas inside subdiff_distance / gradients are decided under C06/C08")
    return dict(explanation="well-formedness of the convergence certificate on every "
                "CFG path of every solver: zero-budget value, max-reduction over all "
                "coordinates + intercept term, freshness w.r.t. in-place mutations, "
                "affine consistency of Anderson extrapolation, L-BFGS fun/jac pairing",
                trusted_base=TB)


def c03(A, ctx, tier):
    descent.r_guard(A, ctx, dict(exempt={"FISTA", "PDCD_WS"}, floor=4))
    descent.r_step(A, ctx, dict(floor=12))
    descent.r_ls(A, ctx, dict(floor=12))
    ctx.note("backtracking exhaustion (`else: pass  # TODO` after 20 halvings) keeps the last "
             "trial step: informational, no rule can say what the right fallback is")
    ctx.assume("prox operators are exact and L_k bounds the curvature (C07/C09)")
    return dict(explanation="descent mechanisms: acceptance of extrapolated points is "
                "dominated by a strict objective decrease of sibling objective terms; "
                "every prox call is the majorisation step 1/L_k at the coordinate it "
                "updates; the three line searches follow one template", trusted_base=TB)


def c04(A, ctx, tier):
    feasible.r_inf(A, ctx, dict(floor=8))
    feasible.r_pos(A, ctx, dict(floor=10))
    feasible.r_write(A, ctx, dict(floor=15))
    ctx.assume("finiteness under overflow/cancellation is not decided")
    return dict(explanation="feasibility at every stopping point: only prox outputs, "
                "guarded extrapolations, line-search combinations and the intercept are "
                "ever written into w; constraint-bearing penalties expose the constraint "
                "in value() so the acceptance guard can reject infeasible candidates; the "
                "positive flag reaches every prox and score", trusted_base=TB)


def c05(A, ctx, tier):
    warm.r_none_ifexp(A, ctx, dict(floor=10))
    warm.r_pair(A, ctx, dict(floor=12))
    warm.r_path(A, ctx, dict(floor=8))
    warm.r_warmfit(A, ctx, dict(floor=5))
    warm.r_cache(A, ctx, {})
    ctx.assume("a consistent (w_init, Xw_init) pair is the caller's contract")
    return dict(explanation="warm starts and paths: optional-argument idiom, pairing of "
                "every coefficient store with its model-fit delta, path discipline "
                "(alpha set, copy of previous column, model-fit template), _glm_fit "
                "warm-start template, no cached solver state", trusted_base=TB)


def c17(A, ctx, tier):
    history.r_hist(A, ctx, dict(exempt={"LBFGS"}, floor=12))
    control.r_retstop(A, ctx, dict(floor=6))
    history.r_niter(A, ctx, dict(floor=3))
    control.r_zero(A, ctx, dict(exempt={}, floor=7), rule="R-ZERO-BOUND", want="bound")
    return dict(explanation="diagnostics: one history entry per completed outer "
                "iteration, entry = objective of the current iterate (bound, fresh, "
                "intercept unpenalised), returned stop value is the tested one, n_iter_ = "
                "len(history)", trusted_base=TB)


def c19(A, ctx, tier):
    def where(A_):
        return [f for f in degenerate.reachable_functions(A_, degenerate.solver_roots(A_))
                if not (f.cls is not None and f.cls in A_.prog.penalties)
                and f.module.name != "skglm.utils.prox_funcs"]
    degenerate.r_div(A, ctx, dict(floor=15), where=where)
    degenerate.r_loop(A, ctx, dict(floor=100))
    ctx.assume("finiteness under overflow and rank-deficient non-zero designs are not decided")
    return dict(explanation="degenerate data: every division by a data-derived "
                "magnitude in solver code is dominated by a non-zero fact; every loop is "
                "bounded", trusted_base=TB)


PROPS = {
    "C01": c01, "C03": c03, "C04": c04, "C05": c05, "C17": c17, "C19": c19,
}
