"""R-GUARD (extrapolation acceptance), R-STEP (prox-step consistency), R-LS (line
search template)."""
import ast
import copy

from ..model import norm_src, names_in, attr_chain, AnalysisError
from ..cfg import cfg_of
from .control import loc, _slot_call, _grad_like


# ------------------------------------------------------------------ helpers
def _terms(e, sign=1):
    """flatten top-level +/- into a sorted list of (sign, dump)"""
    if isinstance(e, ast.BinOp) and isinstance(e.op, ast.Add):
        return _terms(e.left, sign) + _terms(e.right, sign)
    if isinstance(e, ast.BinOp) and isinstance(e.op, ast.Sub):
        return _terms(e.left, sign) + _terms(e.right, -sign)
    if isinstance(e, ast.UnaryOp) and isinstance(e.op, ast.USub):
        return _terms(e.operand, -sign)
    return [(sign, ast.dump(e))]


class _Ren(ast.NodeTransformer):
    def __init__(self, m):
        self.m = m

    def visit_Name(self, node):
        if node.id in self.m:
            return ast.copy_location(ast.Name(self.m[node.id], node.ctx), node)
        return node


def _same_under(e_cur, e_acc, ren):
    t = _Ren(ren).visit(copy.deepcopy(e_cur))
    return sorted(_terms(t)) == sorted(_terms(e_acc))


def _full_slice_store(t):
    """target `V[:]` -> V"""
    if isinstance(t, ast.Subscript) and isinstance(t.value, ast.Name) \
            and isinstance(t.slice, ast.Slice) and t.slice.lower is None \
            and t.slice.upper is None and t.slice.step is None:
        return t.value.id
    return None


def _single_def_value(cfg, at, name):
    ds = [d for d in cfg.reaching_defs().get(at, {}).get(name, ()) if d >= 0]
    vals = []
    for d in ds:
        a = cfg.nodes[d].ast
        if isinstance(a, ast.Assign):
            vals.append((d, a.value, a))
    return vals


# ------------------------------------------------------------------- R-GUARD
def r_guard(A, ctx, scope, rule="R-GUARD"):
    ctx.rule(rule, "every bulk store of another array into the iterate / model fit / "
             "gradient inside a solver (acceptance of an extrapolated point) is "
             "dominated by the true branch of `obj(acc) < obj(cur)` where both objectives "
             "are the same term under {w->w_acc, Xw->Xw_acc}, contain a penalty value and "
             "a datafit value (or Gram quadratic form), were computed from the current "
             "arrays, exclude the intercept from the penalty when one is fitted, and both "
             "halves of the pair are stored together")
    n = 0
    flow = A.flow
    for name, sf in sorted(A.facts.items()):
        if name in scope.get("exempt", ()) or sf.loop is None:
            continue
        f, cfg = sf.f, sf.cfg
        grads = _grad_like(sf, flow)
        state = [x for x in (sf.W, sf.XW) if x]
        watch = set(state) | grads
        sites = []   # (node, {target var: source name})
        for nd in cfg.stmts():
            a = nd.ast
            if nd.kind != "stmt" or not isinstance(a, ast.Assign) or len(a.targets) != 1:
                continue
            t, v = a.targets[0], a.value
            pairs = []
            if isinstance(t, ast.Tuple) and isinstance(v, ast.Tuple) and len(t.elts) == len(v.elts):
                pairs = list(zip(t.elts, v.elts))
            else:
                pairs = [(t, v)]
            m = {}
            for tt, vv in pairs:
                tv = _full_slice_store(tt)
                if tv is not None and isinstance(vv, ast.Name):
                    m[tv] = vv.id
            if m:
                sites.append((nd, m))
        # an acceptance written as a rebinding of the iterate names (`w, Xw = w_acc, Xw_acc`) is no
        # bulk store at all: the caller's arrays are not updated (also reported by R-ALIAS)
        for nd in cfg.stmts():
            a = nd.ast
            if nd.kind != "stmt" or not isinstance(a, ast.Assign) or len(a.targets) != 1 or not nd.loops:
                continue
            t, v = a.targets[0], a.value
            tps = list(zip(t.elts, v.elts)) if isinstance(t, ast.Tuple) and isinstance(v, ast.Tuple) \
                and len(t.elts) == len(v.elts) else [(t, v)]
            reb = [(tt.id, vv.id) for tt, vv in tps if isinstance(tt, ast.Name) and isinstance(vv, ast.Name)
                   and tt.id in state and vv.id != tt.id]
            guarded = any(isinstance(tst, ast.Compare) and isinstance(tst.ops[0], (ast.Lt, ast.Gt)) and lab == "true"
                          for tst, lab, _ in cfg.facts_at(nd.id))
            if reb and guarded:
                n += 1
                ctx.ob(rule, f"{f.fq}::accept::{norm_src(a)}", False,
                       what=f"`{norm_src(a)}` accepts the extrapolated point by rebinding the names "
                            f"{[x for x, _ in reb]} instead of copying into the arrays: the arrays handed "
                            "in by the caller (warm start, path buffer) keep the rejected iterate",
                       loc=loc(f, a))
        # group sites that share the same innermost guard
        groups = {}
        for nd, m in sites:
            facts = [(t, lab, of) for t, lab, of in cfg.facts_at(nd.id)
                     if isinstance(t, ast.Compare)]
            g = facts[-1] if facts else None
            key = g[2] if g else None
            groups.setdefault(key, dict(guard=g, stores={}, nodes=[]))
            groups[key]["stores"].update(m)
            groups[key]["nodes"].append(nd)
        for key, grp in list(groups.items()):
            if not (set(grp["stores"]) & watch):
                del groups[key]      # bulk copies unrelated to the iterate
        for key, grp in groups.items():
            n += 1
            nd0 = grp["nodes"][0]
            ckey = f"{f.fq}::accept::{norm_src(nd0.ast)}"
            g = grp["guard"]
            if g is None:
                ctx.ob(rule, ckey, False, what="bulk overwrite of the iterate is not "
                       "guarded by an objective comparison", loc=loc(f, nd0.ast))
                continue
            test, lab, of = g
            ok_form = lab == "true" and len(test.ops) == 1 and \
                isinstance(test.ops[0], (ast.Lt, ast.Gt)) and \
                isinstance(test.left, ast.Name) and isinstance(test.comparators[0], ast.Name)
            if not ok_form:
                ctx.ob(rule, ckey, False,
                       what=f"acceptance guard `{norm_src(test)}` is not a strict "
                            "comparison `obj_acc < obj_cur` taken on its true branch "
                            "(a non-strict or inverted test accepts points that do not "
                            "decrease the objective)", loc=loc(f, test))
                continue
            lo, hi = (test.left.id, test.comparators[0].id) if isinstance(test.ops[0], ast.Lt) \
                else (test.comparators[0].id, test.left.id)
            dl = _single_def_value(cfg, of, lo)
            dh = _single_def_value(cfg, of, hi)
            if len(dl) != 1 or len(dh) != 1:
                ctx.ob(rule, ckey, False, what="objective operands of the acceptance guard "
                       "do not have a single reaching definition", loc=loc(f, test))
                continue
            (nl, el, al), (nh, eh, ah) = dl[0], dh[0]
            ren = dict(grp["stores"])      # cur var -> acc var
            # objective reads W through views like w[:n_features]; renaming names suffices
            same = _same_under(eh, el, ren)
            what = None
            if not same:
                what = (f"`{lo}` and `{hi}` are not the same objective evaluated at the "
                        f"extrapolated and the current point (substituting "
                        f"{ren} in `{norm_src(eh)[:80]}` does not give `{norm_src(el)[:80]}`)")
            calls = [c for c in ast.walk(eh) if isinstance(c, ast.Call)]
            pv = [c for c in calls if _slot_call(flow, f, c, "PENALTY", {"value"})]
            dv = [c for c in calls if _slot_call(flow, f, c, "DATAFIT", {"value"})]
            gram = any(isinstance(x, ast.BinOp) and isinstance(x.op, ast.MatMult) for x in ast.walk(eh))
            if what is None and not (pv and (dv or gram)):
                what = "acceptance objective lacks the penalty value or the datafit value"
            # both halves stored together
            need = set()
            if sf.W in ren or sf.XW in ren:
                need = {x for x in (sf.W, sf.XW) if x}
            if name == "GramCD" or (sf.XW is None):
                need = {sf.W} | (grads & set(ren) or set(list(grads)[:0]))
                if grads & names_in(ast.Module(body=[n2.ast for n2 in grp["nodes"]], type_ignores=[])):
                    need |= grads & set(ren)
            missing = [x for x in need if x not in ren]
            if what is None and missing:
                what = (f"accepts the extrapolated {sorted(ren)} without its paired "
                        f"{missing}: iterate and model fit (gradient) go out of sync")
            # a candidate that is recomputed from the candidate coefficients (matrix product
            # template) must not read the current iterate
            if what is None:
                cur_names = set(ren)
                for accv in set(ren.values()):
                    for dv_ in _defs_in(f.node, accv):
                        if any(isinstance(x, ast.BinOp) and isinstance(x.op, ast.MatMult) for x in ast.walk(dv_)):
                            bad = names_in(dv_) & cur_names
                            if bad:
                                what = (f"the candidate `{accv} = {norm_src(dv_)[:70]}` is built from the "
                                        f"current {sorted(bad)} instead of the extrapolated coefficients: "
                                        "after acceptance iterate and model fit disagree")
            # after `cur[:] = acc` the two arrays are equal: a later `acc - cur` in the same
            # block is identically zero (an increment computed from it leaves its target stale)
            if what is None:
                blk = None
                for parent in ast.walk(f.node):
                    for fld in ("body", "orelse"):
                        lst = getattr(parent, fld, None)
                        if isinstance(lst, list) and any(x is nd0.ast for x in lst):
                            blk = lst
                if blk is not None:
                    copied = set()
                    for st_ in blk:
                        for sub in ast.walk(st_):
                            if isinstance(sub, ast.BinOp) and isinstance(sub.op, ast.Sub) \
                                    and isinstance(sub.left, ast.Name) and isinstance(sub.right, ast.Name) \
                                    and (sub.left.id, sub.right.id) in copied | {(b, a) for a, b in copied}:
                                what = (f"`{norm_src(st_)[:70]}` uses `{norm_src(sub)}` after one was copied into "
                                        "the other: the difference is zero, the update is a no-op and its "
                                        "target keeps the values of the point before the extrapolation")
                        if isinstance(st_, ast.Assign):
                            tg = st_.targets[0]
                            tgs = tg.elts if isinstance(tg, ast.Tuple) else [tg]
                            vs = st_.value.elts if isinstance(st_.value, ast.Tuple) else [st_.value]
                            for t_, v_ in zip(tgs, vs):
                                if isinstance(t_, ast.Subscript) and isinstance(t_.value, ast.Name) \
                                        and isinstance(v_, ast.Name):
                                    copied.add((t_.value.id, v_.id))
            # objective of the current point computed from the current arrays (fresh)
            if what is None:
                for m_nd in cfg.stmts():
                    if m_nd.kind == "for" or m_nd.id in (nl, nh):
                        continue
                    mm = flow.stmt_mutates(f, m_nd.ast)
                    if isinstance(m_nd.ast, ast.Assign):
                        mm -= {t.id for t in m_nd.ast.targets if isinstance(t, ast.Name)}
                    if mm & set(state) and cfg.paths_exist(nh, m_nd.id, avoiding=[of]) \
                            and cfg.paths_exist(m_nd.id, of, avoiding=[nh]) \
                            and cfg.dominated_by(m_nd.id, nh):
                        what = (f"`{hi}` is computed before `{norm_src(m_nd.ast)[:60]}` "
                                "changes the iterate: the guard compares against a stale "
                                "objective")
                        break
            # intercept excluded from penalty
            if what is None and sf.sizes_with_fi:
                for c in pv:
                    arg = c.args[0] if c.args else None
                    okarg = isinstance(arg, ast.Subscript) and isinstance(arg.slice, ast.Slice) \
                        and arg.slice.upper is not None and "NF" in flow.roles(f, arg.slice.upper)
                    if not okarg:
                        what = (f"acceptance objective evaluates `{norm_src(c)}` with the "
                                "intercept inside the penalty (fit_intercept=True): the "
                                "guard compares the wrong objective")
            ctx.ob(rule, ckey, what is None, what=what, loc=loc(f, nd0.ast))
    ctx.floor(rule, n, scope.get("floor", 4))


# -------------------------------------------------------------------- R-STEP
PROX_SLOTS = {"prox_1d", "prox_1feat", "prox_1group"}


def _enum_partner(fnode):
    """{idx: j, j: idx} for `for idx, j in enumerate(..)` loops in fnode"""
    out = {}
    for st in ast.walk(fnode):
        if isinstance(st, ast.For) and isinstance(st.iter, ast.Call) \
                and ast.unparse(st.iter.func) == "enumerate" \
                and isinstance(st.target, ast.Tuple) and len(st.target.elts) == 2 \
                and all(isinstance(e, ast.Name) for e in st.target.elts):
            a, b = st.target.elts[0].id, st.target.elts[1].id
            out[a] = b
            out[b] = a
    return out


def _defs_in(fnode, name):
    out = []
    for st in ast.walk(fnode):
        if isinstance(st, ast.Assign) and len(st.targets) == 1 and isinstance(st.targets[0], ast.Name) \
                and st.targets[0].id == name:
            out.append(st.value)
    return out


def _recip_of(e, fnode, depth=0):
    """canonical step forms of expression e: set of ('name', txt) / ('recip', txt)"""
    out = set()
    if isinstance(e, ast.Name):
        out.add(("name", e.id))
        if depth < 2:
            for v in _defs_in(fnode, e.id):
                if isinstance(v, ast.IfExp):
                    out |= {x for x in _recip_of(v.body, fnode, depth + 1) if x[0] == "recip"}
                else:
                    out |= {x for x in _recip_of(v, fnode, depth + 1) if x[0] == "recip"}
    elif isinstance(e, ast.BinOp) and isinstance(e.op, ast.Div) \
            and isinstance(e.left, ast.Constant) and e.left.value in (1, 1.0):
        out.add(("recip", ast.dump(e.right)))
        out.add(("expr", ast.dump(e)))
    else:
        out.add(("expr", ast.dump(e)))
        if isinstance(e, ast.Subscript):
            out.add(("name", ast.dump(e)))
    return out


def _grad_step_forms(arg0, fnode):
    """arg0 = A - T ; returns (A, set of canonical step forms of T's non-gradient factor)"""
    if not (isinstance(arg0, ast.BinOp) and isinstance(arg0.op, ast.Sub)):
        return None, set()
    Aexp, T = arg0.left, arg0.right
    forms = set()
    def factors(e):
        if isinstance(e, ast.BinOp) and isinstance(e.op, (ast.Mult, ast.MatMult)):
            return factors(e.left) + factors(e.right)
        return [e]
    if isinstance(T, ast.BinOp) and isinstance(T.op, (ast.Mult, ast.MatMult)):
        for fac in factors(T):
            forms |= _recip_of(fac, fnode)
    elif isinstance(T, ast.BinOp) and isinstance(T.op, ast.Div):
        forms.add(("recip", ast.dump(T.right)))
    return Aexp, forms


def _index_names(e):
    out = set()
    for n in ast.walk(e):
        if isinstance(n, ast.Subscript):
            out |= names_in(n.slice)
    return out


def r_step(A, ctx, scope, rule="R-STEP"):
    ctx.rule(rule, "prox-step consistency at every `penalty.prox_*(a - g*s1, s2, k)` call "
             "site: s1 == s2; the step is the reciprocal of a per-coordinate constant "
             "indexed at the coordinate k that is read, proxed and written back (or its "
             "enumerate partner)")
    n = 0
    flow = A.flow
    mods = scope.get("modules")
    for f in A.prog.all_functions():
        if mods and not any(f.module.name.startswith(m) for m in mods):
            continue
        if f.cls is not None and (f.cls in A.prog.penalties or f.cls in A.prog.datafits):
            continue
        partner = _enum_partner(f.node)
        for st in ast.walk(f.node):
            calls = []
            if isinstance(st, (ast.Assign, ast.Expr, ast.Return)):
                for c in ast.walk(st):
                    if _slot_call(flow, f, c, "PENALTY", PROX_SLOTS) and len(c.args) >= 3:
                        calls.append(c)
            for c in calls:
                arg0, arg1, arg2 = c.args[:3]
                k = arg2.id if isinstance(arg2, ast.Name) else None
                Aexp, s1 = _grad_step_forms(arg0, f.node)
                ckey = f"{f.fq}::{norm_src(c)[:100]}"
                if Aexp is None:
                    # prox of a plain value (e.g. FISTA helper) - not a gradient step
                    continue
                n += 1
                s2 = _recip_of(arg1, f.node)
                what = None
                if not (s1 & s2):
                    what = (f"gradient step `{norm_src(arg0)}` and prox step "
                            f"`{norm_src(arg1)}` differ: the update is not the "
                            "prox-gradient (majorisation) step")
                # the step is a reciprocal of a constant indexed at k / partner
                recips = [x for x in (s1 & s2) if x[0] == "recip"] or \
                         [x for x in (s1 | s2) if x[0] == "recip"]
                okk = {k, partner.get(k)} - {None}
                if what is None and k is not None:
                    # denominators (through the step variable's definition)
                    den_idx = set()
                    have_den = False
                    for e in (arg1,) + tuple(_defs_in(f.node, arg1.id) if isinstance(arg1, ast.Name) else ()):
                        for d in ast.walk(e):
                            if isinstance(d, ast.BinOp) and isinstance(d.op, ast.Div) \
                                    and isinstance(d.left, ast.Constant) and d.left.value in (1, 1.0):
                                have_den = True
                                if isinstance(d.right, ast.Subscript):
                                    den_idx |= names_in(d.right.slice)
                                elif isinstance(d.right, ast.Name):
                                    for dv in _defs_in(f.node, d.right.id):
                                        if isinstance(dv, ast.Subscript):
                                            den_idx |= names_in(dv.slice)
                    if isinstance(arg1, ast.Subscript):     # primal_steps[j]
                        have_den = True
                        den_idx |= names_in(arg1.slice)
                    if have_den and den_idx and not den_idx <= okk:
                        what = (f"step size is built from a constant indexed by "
                                f"{sorted(den_idx)} while the coordinate updated is `{k}`")
                # value proxed reads coordinate k
                if what is None and k is not None:
                    src = Aexp
                    if isinstance(src, ast.Name):
                        dv = _defs_in(f.node, src.id)
                        src = dv[0] if dv else src
                    if isinstance(src, ast.Call) and isinstance(src.func, ast.Attribute) \
                            and src.func.attr == "copy":
                        src = src.func.value
                    if isinstance(src, ast.Subscript):
                        idxn = names_in(src.slice)
                        derived, frontier = set(), set(idxn)
                        for _ in range(4):
                            nxt = set()
                            for nm in frontier:
                                for dv in _defs_in(f.node, nm):
                                    nxt |= names_in(dv)
                            nxt -= derived
                            derived |= nxt
                            frontier = nxt
                        if idxn and not (idxn & okk) and not (derived & okk) \
                                and not isinstance(src.slice, ast.Slice):
                            what = (f"value being proxed `{norm_src(src)}` is not read at "
                                    f"the coordinate `{k}` passed to the prox")
                    # written back at the same place it was read from
                    if what is None and isinstance(st, ast.Assign) and isinstance(st.targets[0], ast.Subscript) \
                            and isinstance(src, ast.Subscript):
                        if names_in(st.targets[0].slice) != names_in(src.slice) \
                                and isinstance(st.value, ast.Call) and st.value is c:
                            what = (f"prox result stored at `{norm_src(st.targets[0])}` but "
                                    f"read from `{norm_src(src)}`")
                # the coordinate handed to the prox must be an element of the working set
                # (second variable of `for idx, j in enumerate(ws)` / `for j in ws`), never
                # the position inside it: penalties index per-feature weights with it
                if what is None and k is not None:
                    first_vars = set()
                    for lp in ast.walk(f.node):
                        if isinstance(lp, ast.For) and isinstance(lp.iter, ast.Call) \
                                and ast.unparse(lp.iter.func) == "enumerate" \
                                and isinstance(lp.target, ast.Tuple) and isinstance(lp.target.elts[0], ast.Name):
                            first_vars.add(lp.target.elts[0].id)
                    if k in first_vars:
                        what = (f"`{norm_src(c)[:80]}` passes `{k}`, the *position* in the working "
                                f"set, as the coordinate: weighted penalties then use the weight "
                                f"of feature number `{k}` instead of feature `{partner.get(k)}`")
                ctx.ob(rule, ckey, what is None, what=what, loc=loc(f, c))
    ctx.floor(rule, n, scope.get("floor", 12))


# ---------------------------------------------------------------------- R-LS
def _is_line_search(fn):
    has_halving = has_break = False
    for st in ast.walk(fn.node):
        if isinstance(st, ast.AugAssign) and isinstance(st.op, ast.Div) \
                and isinstance(st.value, ast.Constant) and st.value.value == 2:
            has_halving = True
        if isinstance(st, ast.Break):
            has_break = True
    return has_halving and has_break and fn.njit


def r_ls(A, ctx, scope, rule="R-LS"):
    ctx.rule(rule, "backtracking line-search template (siblings): the loop is left only "
             "when `crit < 0`; crit = pen(new) - pen(old) + step*<grad, delta> "
             "(+ step*delta_intercept*sum(raw_grad) under the intercept flag); on failure "
             "prev_step = step, step /= 2; iterate and model fit move by the same "
             "(step - prev_step); pen(new) and pen(old) take arguments of the same extent")
    flow = A.flow
    n = 0
    found = [f for f in A.prog.all_functions() if f.cls is None and _is_line_search(f)]
    for f in found:
        cfg = cfg_of(f)
        loops = [st for st in f.node.body if isinstance(st, ast.For)]
        if not loops:
            continue
        lp = loops[-1]
        # break guard
        brks = [nd for nd in cfg.stmts() if isinstance(nd.ast, ast.Break)]
        n += 1
        ok = bool(brks)
        crit = None
        for b in brks:
            facts = [(t, lab) for t, lab, _ in cfg.facts_at(b.id) if isinstance(t, ast.Compare)]
            if not facts:
                ok = False
                continue
            t, lab = facts[-1]
            good = lab == "true" and isinstance(t.ops[0], ast.Lt) and isinstance(t.left, ast.Name) \
                and isinstance(t.comparators[0], ast.Constant) and t.comparators[0].value == 0
            ok = ok and good
            if good:
                crit = t.left.id
        ctx.ob(rule, f"{f.fq}::exit", ok, what="line search is left on a condition other "
               "than `crit < 0` (sufficient-decrease test)", loc=loc(f, lp))
        if crit is None:
            continue
        # crit definition: pen(new) - pen(old)
        pen_new = pen_old = None
        dot_ok = fi_ok = False
        old_name = None
        for st in ast.walk(lp):
            if isinstance(st, ast.Assign) and isinstance(st.targets[0], ast.Name) \
                    and st.targets[0].id == crit and isinstance(st.value, ast.BinOp) \
                    and isinstance(st.value.op, ast.Sub):
                for c in ast.walk(st.value.left):
                    if _slot_call(flow, f, c, "PENALTY", {"value"}):
                        pen_new = c
                if isinstance(st.value.right, ast.Name):
                    old_name = st.value.right.id
            if isinstance(st, ast.AugAssign) and isinstance(st.target, ast.Name) \
                    and st.target.id == crit and isinstance(st.op, ast.Add):
                txt = names_in(st.value)
                calls = [c for c in ast.walk(st.value) if isinstance(c, ast.Call)]
                if any(_slot_call(flow, f, c, "DATAFIT", {"raw_grad"}) for c in calls):
                    fi_facts = cfg.facts_at(cfg.node_of(st))
                    fi_ok = any(lab == "true" and "FI" in _test_roles(flow, f, t)
                                for t, lab, _ in fi_facts)
                else:
                    dot_ok = True
        if old_name:
            for v in _defs_in(f.node, old_name):
                for c in ast.walk(v):
                    if _slot_call(flow, f, c, "PENALTY", {"value"}):
                        pen_old = c
        n += 1
        ctx.ob(rule, f"{f.fq}::crit-terms", bool(pen_new is not None and pen_old is not None and dot_ok),
               what="sufficient-decrease criterion is not pen(new) - pen(old) + "
                    "step * <grad, delta>", loc=loc(f, lp))
        if pen_new is not None and pen_old is not None:
            n += 1
            a_new = ast.dump(pen_new.args[0]) if pen_new.args else None
            a_old = ast.dump(pen_old.args[0]) if pen_old.args else None
            ctx.ob(rule, f"{f.fq}::pen-args", a_new == a_old,
                   what=f"pen(new) is evaluated on `{norm_src(pen_new.args[0])}` but "
                        f"pen(old) on `{norm_src(pen_old.args[0])}`: different extents "
                        "(one includes / drops the last entry), so the criterion "
                        "compares penalties of different vectors",
                   loc=loc(f, pen_new))
        # intercept term present iff function has an FI parameter
        has_fi = any("FI" in flow.env[f].get(p, ()) for p in f.params)
        if has_fi:
            n += 1
            ctx.ob(rule, f"{f.fq}::intercept-term", fi_ok,
                   what="line search ignores the intercept direction in the "
                        "directional derivative although an intercept is moved",
                   loc=loc(f, lp))
        # failure branch
        n += 1
        halve = prev = False
        for st in ast.walk(lp):
            if isinstance(st, ast.AugAssign) and isinstance(st.op, ast.Div) \
                    and isinstance(st.value, ast.Constant) and st.value.value == 2:
                halve = st.target.id if isinstance(st.target, ast.Name) else False
        if halve:
            for st in ast.walk(lp):
                if isinstance(st, ast.Assign) and isinstance(st.value, ast.Name) \
                        and st.value.id == halve and isinstance(st.targets[0], ast.Name):
                    prev = st.targets[0].id
        order_ok = False
        if halve and prev:
            # the save must precede the halving in the same statement list
            for blk in ast.walk(lp):
                for body in (getattr(blk, "body", None), getattr(blk, "orelse", None)):
                    if not isinstance(body, list):
                        continue
                    i_save = [k for k, st in enumerate(body) if isinstance(st, ast.Assign)
                              and isinstance(st.value, ast.Name) and st.value.id == halve
                              and isinstance(st.targets[0], ast.Name) and st.targets[0].id == prev]
                    i_half = [k for k, st in enumerate(body) if isinstance(st, ast.AugAssign)
                              and isinstance(st.op, ast.Div) and isinstance(st.target, ast.Name)
                              and st.target.id == halve]
                    if i_save and i_half and max(i_save) < min(i_half):
                        order_ok = True
        ctx.ob(rule, f"{f.fq}::backtrack", bool(halve and prev and order_ok),
               what="on failure the step is not halved after saving it as the previous "
                    "step (saving after the halving makes every later move zero: the search "
                    "never damps the step)", loc=loc(f, lp))
        # same coefficient for iterate and model fit
        if halve and prev:
            coefs = []
            for st in ast.walk(lp):
                if isinstance(st, ast.AugAssign) and isinstance(st.op, ast.Add) \
                        and isinstance(st.value, ast.BinOp) and isinstance(st.value.op, ast.Mult):
                    # every in-place move that depends on the step (not only those already
                    # written with both names): `w[-1] += step * d` after a halving moves the
                    # intercept by more than the model fit
                    for fac in (st.value.left, st.value.right):
                        if halve in names_in(fac) and not (names_in(fac) - {halve, prev}):
                            coefs.append((ast.dump(fac), st))
                            break
            n += 1
            wrole = [c for c in coefs if "W0" in flow.roles(f, c[1].target)
                     or "W" in flow.roles(f, c[1].target)]
            xrole = [c for c in coefs if "XW0" in flow.roles(f, c[1].target)
                     or "XW" in flow.roles(f, c[1].target)]
            same = len({c[0] for c in wrole + xrole}) == 1 and bool(wrole) and bool(xrole)
            ctx.ob(rule, f"{f.fq}::pair", same,
                   what="iterate and model fit are not moved by the same "
                        "(step - prev_step) multiple of the direction",
                   loc=loc(f, lp))
    ctx.floor(rule, len(found), 3)
    ctx.floor(rule + "/obligations", n, scope.get("floor", 12))


def _test_roles(flow, f, t):
    r = set()
    for nm in ast.walk(t):
        if isinstance(nm, (ast.Name, ast.Attribute)):
            r |= flow.roles(f, nm)
    return r


def r_candidate(A, ctx, scope, rule="R-CANDIDATE"):
    ctx.rule(rule, "the extrapolated pair is judged and accepted as produced: between "
             "`a, b, flag = accelerator.extrapolate(w, Xw)` and the end of the iteration no statement stores "
             "into one half of the pair (clipping, projecting or rescaling the coefficients) - the two halves "
             "are one affine combination of past iterates, changing one breaks Xw = X w for the point that is "
             "compared with the current one and copied into the iterate")
    n = 0
    for name, sf in sorted(A.facts.items()):
        f = sf.f
        for st in ast.walk(f.node):
            if not (isinstance(st, ast.Assign) and len(st.targets) == 1 and isinstance(st.targets[0], ast.Tuple)
                    and isinstance(st.value, ast.Call) and isinstance(st.value.func, ast.Attribute)
                    and st.value.func.attr == "extrapolate" and len(st.targets[0].elts) >= 2):
                continue
            halves = []
            for e in st.targets[0].elts[:2]:
                while isinstance(e, ast.Subscript):
                    e = e.value
                if isinstance(e, ast.Name):
                    halves.append(e.id)
            if len(halves) != 2:
                continue
            n += 1
            bad = None
            for x in ast.walk(f.node):
                if getattr(x, "lineno", 0) <= st.lineno or x is st:
                    continue
                tgs = x.targets if isinstance(x, ast.Assign) else [x.target] if isinstance(x, ast.AugAssign) else []
                if isinstance(x, ast.Assign) and isinstance(x.value, ast.Call) and isinstance(x.value.func, ast.Attribute) \
                        and x.value.func.attr == "extrapolate":
                    continue
                for t in tgs:
                    for e in (t.elts if isinstance(t, ast.Tuple) else [t]):
                        base = e
                        while isinstance(base, ast.Subscript):
                            base = base.value
                        if isinstance(base, ast.Name) and base.id in halves:
                            bad = x
            ctx.ob(rule, f"{f.fq}::{'/'.join(halves)}", bad is None,
                   what=(f"`{norm_src(bad)[:70]}` changes `{halves[0]}` / `{halves[1]}` after the pair came back from "
                         "extrapolate(): the other half is not recomputed, so the objective test and the accepted "
                         "point use a model fit that is not X @ w (the objective can increase; the solver then runs "
                         "on an inconsistent pair)") if bad is not None else "", loc=loc(f, bad) if bad is not None else None)
    ctx.floor(rule, n, scope.get("floor", 3))
