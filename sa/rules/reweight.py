"""R-REWEIGHT (C03): iterative reweighting majorises the concave penalty.

The estimator solves weighted-L1 problems whose weights are refreshed from the current
coefficients.  The reweighted objective decreases iff  alpha_P * weights_j  is the slope of
the penalty in |w_j| at the current point (tangent majoriser of a concave function of |w|):
non-negative, equal to sign(w_j) * d value/d w_j where w_j != 0, and the one-sided slope at
0 (possibly infinite) where w_j == 0.  The statements of the reweighting loop that update
the inner penalty are lifted on a three-coefficient vector (negative, positive, zero) for
every penalty class offering `derivative`, and compared with that penalty's own value().
Numerical regularisers (constants below 1e-9) are named infinitesimals and set to 0 in
the comparison.
"""
import ast

from ..algebra import Unsupported, const, sym, derivative, substitute
from ..region import Region, RegionLifter, Vec, Mat, Obj, R, Raised
from ..model import AnalysisError, names_in
from .control import loc

W = (-0.7, 1.9, 0.0)
HYP = {"alpha": 0.8, "eps": 0.5, "gamma": 3.0}


def _sites(A):
    out = []
    for cls in A.prog.estimators:
        f = cls.methods.get("fit")
        if f is None:
            continue
        if any(isinstance(c, ast.Call) and isinstance(c.func, ast.Attribute) and c.func.attr == "derivative"
               for c in ast.walk(f.node)):
            out.append((cls, f))
    return out


def _root(t):
    while isinstance(t, (ast.Attribute, ast.Subscript)):
        t = t.value
    return t.id if isinstance(t, ast.Name) else None


def r_reweight(A, ctx, scope, rule="R-REWEIGHT"):
    ctx.rule(rule, "reweighting loops: after the update, alpha * weights_j of the inner weighted-L1 "
             "penalty is the slope in |w_j| of the outer penalty's own value() at the current "
             "coefficients (non-negative; one-sided slope, possibly infinite, at w_j = 0)")
    n = 0
    sites = _sites(A)
    for cls, f in sites:
        # inner penalty variable: assigned from a constructor call of a repo penalty
        inner = None
        for st in f.node.body:
            if isinstance(st, ast.Assign) and isinstance(st.targets[0], ast.Name):
                for c in ast.walk(st.value):
                    if isinstance(c, ast.Call):
                        r = A.prog.resolve(f.module, ast.unparse(c.func))
                        if r in A.prog.penalties:
                            inner = (st.targets[0].id, st)
        loops = [st for st in ast.walk(f.node) if isinstance(st, ast.For)]
        loop = None
        for lp in loops:
            for st in lp.body:
                tg = st.targets[0] if isinstance(st, ast.Assign) else getattr(st, "target", None)
                if inner and tg is not None and _root(tg) == inner[0]:
                    loop = lp
        if inner is None or loop is None:
            ctx.ob(rule, f"{f.fq}::reweighting-loop", None,
                   detail="no inner penalty / update statement recognised in a fit that calls .derivative")
            continue
        coef = None
        for st in loop.body:
            if isinstance(st, ast.Assign) and ".solve(" in ast.unparse(st.value):
                t = st.targets[0]
                coef = t.id if isinstance(t, ast.Name) else None
        if coef is None:
            ctx.ob(rule, f"{f.fq}::coefficients", None, detail="solve() result not recognised")
            continue
        # statements of the loop body the update depends on (backward slice on names)
        need = set()
        chosen = []
        for st in reversed(loop.body):
            tg = st.targets[0] if isinstance(st, ast.Assign) else getattr(st, "target", None)
            if tg is None or (isinstance(st, ast.Assign) and ".solve(" in ast.unparse(st.value)):
                continue
            root = _root(tg)
            if root == inner[0] or root in need:
                chosen.append(st)
                need |= names_in(st.value) | (names_in(tg) - {root} if not isinstance(tg, ast.Name) else set())
        chosen.reverse()
        for pen in A.prog.penalties:
            d = pen.find_method("derivative")
            if d is None or d.cls.name == "BasePenalty":
                continue
            key = f"{f.fq}::{pen.name}"
            try:
                n += _check(A, ctx, rule, key, cls, f, inner, coef, chosen, pen)
            except (Unsupported, Raised, ZeroDivisionError) as e:
                ctx.ob(rule, key, None, detail=f"not lifted: {e}")
    ctx.floor(rule, n, scope.get("floor", 9))


def _check(A, ctx, rule, key, cls, f, inner, coef, chosen, pen):
    vals = dict(HYP, w0=W[0], w1=W[1])
    rg = Region(vals)
    L = RegionLifter(A.prog, rg)
    spec = A.prog.spec_of(pen) or []
    pobj = Obj(pen, {nm: sym(nm) for nm, t in spec if "[" not in t and "bool" not in t})
    sobj = Obj(cls, {"penalty": pobj})
    params = f.call_params()
    Xd = Mat(Vec(sym(f"xr{i}{j}") for j in range(3)) for i in range(2))
    for i in range(2):
        for j in range(3):
            rg.values[f"xr{i}{j}"] = 0.3 + 0.2 * i - 0.1 * j
    env = {"self": sobj}
    if params:
        env[params[0]] = Xd
    if len(params) > 1:
        env[params[1]] = Vec([sym("yr0"), sym("yr1")])
        rg.values.update(yr0=0.7, yr1=-0.4)
    # the statements before the loop, as far as they can be lifted (sizes, the inner penalty):
    # whatever the locals are called
    for st in f.node.body:
        if isinstance(st, (ast.For, ast.While)):
            break
        if isinstance(st, ast.Assign):
            try:
                L.block([st], env, f)
            except (Unsupported, Raised):
                pass
    env[coef] = Vec([sym("w0"), sym("w1"), const(0)])
    if inner[0] not in env:
        raise Unsupported("inner penalty not constructible from the statements before the loop")
    P = env[inner[0]]
    if not isinstance(P, Obj) or "weights" not in P.attrs or "alpha" not in P.attrs:
        raise Unsupported("inner penalty has no alpha / weights")
    L.block(chosen, env, f)
    P = env[inner[0]]
    wts = P.attrs["weights"]
    if not isinstance(wts, (Vec, list)) or len(wts) != 3:
        raise Unsupported("weights shape after the update")
    where = loc(f, chosen[-1]) if chosen else loc(f, f.node)
    n = 0
    zero = {("sym", "TINY"): const(0)}
    for i, wv in enumerate(W):
        got = R(P.attrs["alpha"]) * R(wts[i])
        gnum = rg.num(got)
        # slope of the outer penalty in |w_i|
        pt = wv if wv != 0 else 1e-5
        rg2 = Region(dict(HYP, w0=W[0], w1=W[1], wz=pt))
        L2 = RegionLifter(A.prog, rg2)
        names = ["w0", "w1", "wz"]
        wvec = Vec([sym("w0"), sym("w1"), sym("wz")])
        val = R(L2.call_function(pen.find_method("value"), [wvec], self_obj=pobj))
        dv = derivative(val, ("sym", names[i]))
        n += 1
        if wv != 0:
            exp = dv * const(1 if wv > 0 else -1)
            try:
                g0 = substitute(got, zero)
            except ZeroDivisionError:
                g0 = None
            ok = g0 is not None and g0.equals(exp)
            en = rg2.num(exp)
            bad = abs(gnum - en) > 1e-6 * max(1.0, abs(en))
            ctx.ob(rule, f"{key}::w={wv}", True if ok else (False if bad else None),
                   what=f"{cls.name} with {pen.name}: after reweighting, alpha * weight of a coefficient "
                        f"equal to {wv} is {gnum:.4g}, the slope of {pen.name}.value() in |w| there is "
                        f"{en:.4g}: the weighted-L1 problem does not majorise the penalty and the "
                        "reweighted objective can increase",
                   detail="" if ok else "normal forms differ", loc=where)
        else:
            try:
                lim = substitute(dv, {("sym", "wz"): const(0)})
                ln = rg2.num(lim)
                finite = ln == ln and abs(ln) < 1e20
            except (ZeroDivisionError, Unsupported):
                finite = False
            if finite:
                try:
                    g0 = substitute(got, zero)
                    ok = g0.equals(lim)
                except ZeroDivisionError:
                    ok = False
                bad = abs(gnum - ln) > 1e-6 * max(1.0, abs(ln))
                ctx.ob(rule, f"{key}::w=0", True if ok else (False if bad else None),
                       what=f"{cls.name} with {pen.name}: after reweighting, alpha * weight of a zero "
                            f"coefficient is {gnum:.4g}, the slope of {pen.name}.value() at 0+ is {ln:.4g}",
                       detail="" if ok else "normal forms differ", loc=where)
            else:
                ctx.ob(rule, f"{key}::w=0", gnum > 1e6,
                       what=f"{cls.name} with {pen.name}: the slope of {pen.name}.value() at 0+ is infinite "
                            f"but after reweighting alpha * weight of a zero coefficient is {gnum:.4g}: "
                            "zero coefficients are not kept at zero by the majoriser", loc=where)
    return n
