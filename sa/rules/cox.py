"""Cox datafit on small concrete risk-set structures (sa.region): the O(n) risk-set
recursions are lifted for fixed observation times / censoring patterns (ties, censoring,
both tie conventions) with a symbolic linear predictor, and compared with each other:

R-COX-GRAD   raw_grad == d value / d Xw  (symbolic identity in exp(Xw_i))
R-COX-ADJ    <B u, v> == <u, B^T v>  and  <A u, v> == <u, A^T v>  (bilinear identities)
R-COX-RISK   (B u)_i == sum of u_j over the risk set {j : tm_j >= tm_i}; Efron: A u is
             (l/|H|) * sum_H u within each group H of tied uncensored observations
R-COX-HESS   raw_hessian - diag of the Hessian of value is a sum of positive terms
             (documented bound, C09)
"""
from fractions import Fraction

from ..algebra import RF, Unsupported, const, sym, derivative, substitute
from ..region import Region, RegionLifter, Vec, Mat, Obj, R, Raised
from ..model import AnalysisError
from .control import loc

# (observation times, censoring indicators): no ties, ties + censoring, heavy ties,
# everything tied, censoring at both ends, tied group made only of censored observations
PATTERNS = [
    ((3, 1, 2, 5, 4), (1, 1, 1, 1, 1)),
    ((2, 1, 2, 3, 1), (1, 1, 0, 1, 1)),
    ((1, 1, 1, 2, 2), (1, 0, 1, 1, 1)),
    ((2, 2, 2, 2), (1, 1, 1, 1)),
    ((1, 2, 3), (0, 1, 0)),
    ((4, 2, 2, 4, 1), (0, 0, 1, 1, 1)),
]
XW_VALUES = [0.3, -0.7, 1.1, 0.2, -0.4]
U_VALUES = [0.9, -1.3, 0.4, 2.1, -0.6]
V_VALUES = [-0.2, 0.8, 1.7, -1.1, 0.5]


def _cox(A):
    for c in A.prog.datafits:
        if c.name == "Cox":
            return c
    raise AnalysisError("datafit Cox not found")


def _setup(A, cls, tm, s, efron):
    n = len(tm)
    vals = {f"v{i}": XW_VALUES[i] for i in range(n)}
    vals.update({f"u{i}": U_VALUES[i] for i in range(n)})
    vals.update({f"z{i}": V_VALUES[i] for i in range(n)})
    rg = Region(vals)
    L = RegionLifter(A.prog, rg, max_steps=20000)
    y = Mat(Vec([const(Fraction(t)), const(Fraction(c))]) for t, c in zip(tm, s))
    so = Obj(cls, {"use_efron": efron})
    L.call_function(cls.find_method("initialize"), [None, y], self_obj=so)
    Xw = Vec(sym(f"v{i}") for i in range(n))
    return L, rg, so, y, Xw


def r_cox(A, ctx, scope, rule_prefix="R-COX", parts=("grad", "adj", "risk")):
    cls = _cox(A)
    ctx.rule(rule_prefix + "-GRAD", "Cox: raw_grad is the derivative of value() with respect to the "
             "linear predictor, for fixed tie / censoring patterns and both tie conventions "
             "(risk-set recursions lifted on concrete structures, symbolic identity in exp(Xw))")
    ctx.rule(rule_prefix + "-ADJ", "Cox: _B_T_dot_vec / _AT_dot_vec are the transposes of _B_dot_vec / "
             "_A_dot_vec (bilinear identity with symbolic vectors)")
    ctx.rule(rule_prefix + "-RISK", "Cox: (_B_dot_vec u)_i is the sum of u over the risk set "
             "{j : tm_j >= tm_i}")
    counts = dict(grad=0, adj=0, risk=0, hess=0)
    for tm, s in PATTERNS:
        n = len(tm)
        for efron in (False, True):
            tag = f"tm={tm},s={s},efron={efron}"
            try:
                L, rg, so, y, Xw = _setup(A, cls, tm, s, efron)
            except (Unsupported, Raised) as e:
                ctx.ob(rule_prefix + "-GRAD", f"{cls.fq}::initialize::{tag}", None, detail=f"not lifted: {e}")
                continue
            if "grad" in parts or "hess" in parts:
                try:
                    val = R(L.call_function(cls.find_method("value"), [y, None, Xw], self_obj=so))
                    g = L.call_function(cls.find_method("raw_grad"), [y, Xw], self_obj=so)
                    h = L.call_function(cls.find_method("raw_hessian"), [y, Xw], self_obj=so) \
                        if "hess" in parts else None
                except (Unsupported, Raised) as e:
                    ctx.ob(rule_prefix + "-GRAD", f"{cls.fq}::value/raw_grad::{tag}", None,
                           detail=f"not lifted: {e}")
                    continue
                for i in range(n):
                    d = derivative(val, ("sym", f"v{i}"))
                    if "grad" in parts:
                        counts["grad"] += 1
                        ok = R(g[i]).equals(d)
                        res = rg.num(R(g[i]) - d)
                        ctx.ob(rule_prefix + "-GRAD", f"{cls.fq}::raw_grad[{i}]::{tag}",
                               True if ok else (False if abs(res) > 1e-9 else None),
                               what=f"Cox(use_efron={efron}).raw_grad[{i}] is not d value/d Xw[{i}] for "
                                    f"times {tm}, censoring {s} (difference {res:.3g} at Xw={XW_VALUES[:n]})",
                               detail="" if ok else "normal forms differ",
                               loc=loc(cls.find_method("raw_grad"), cls.find_method("raw_grad").node))
                    if "hess" in parts:
                        counts["hess"] += 1
                        d2 = derivative(d, ("sym", f"v{i}"))
                        gap = R(h[i]) - d2
                        ok = _positive_sum(gap)
                        res = rg.num(gap)
                        ctx.ob(rule_prefix + "-HESS", f"{cls.fq}::raw_hessian[{i}]::{tag}",
                               True if ok else (False if res < -1e-9 else None),
                               what=f"Cox(use_efron={efron}).raw_hessian[{i}] is below the Hessian diagonal "
                                    f"of value() for times {tm}, censoring {s} (gap {res:.3g})",
                               detail="" if ok else "gap not recognised as a sum of positive terms",
                               loc=loc(cls.find_method("raw_hessian"), cls.find_method("raw_hessian").node))
            u = Vec(sym(f"u{i}") for i in range(n))
            z = Vec(sym(f"z{i}") for i in range(n))
            if "adj" in parts:
                pairs = [("_B_dot_vec", "_B_T_dot_vec")] + ([("_A_dot_vec", "_AT_dot_vec")] if efron else [])
                for fwd, adj in pairs:
                    try:
                        bu = L.call_function(cls.find_method(fwd), [Vec(u)], self_obj=so)
                        bz = L.call_function(cls.find_method(adj), [Vec(z)], self_obj=so)
                    except (Unsupported, Raised) as e:
                        ctx.ob(rule_prefix + "-ADJ", f"{cls.fq}::{fwd}::{tag}", None, detail=f"not lifted: {e}")
                        continue
                    lhs = L.dot(Vec(bu), z)
                    rhs = L.dot(u, Vec(bz))
                    counts["adj"] += 1
                    ctx.ob(rule_prefix + "-ADJ", f"{cls.fq}::{adj}::{tag}", lhs.equals(rhs),
                           what=f"Cox.{adj} is not the transpose of Cox.{fwd} for times {tm}, censoring {s}: "
                                "gradient and value use different risk-set operators",
                           loc=loc(cls.find_method(adj), cls.find_method(adj).node))
            if "risk" in parts and not efron:
                try:
                    bu = L.call_function(cls.find_method("_B_dot_vec"), [Vec(u)], self_obj=so)
                except (Unsupported, Raised) as e:
                    ctx.ob(rule_prefix + "-RISK", f"{cls.fq}::_B_dot_vec::{tag}", None, detail=f"not lifted: {e}")
                    continue
                for i in range(n):
                    exp = const(0)
                    for j in range(n):
                        if tm[j] >= tm[i]:
                            exp = exp + u[j]
                    counts["risk"] += 1
                    ctx.ob(rule_prefix + "-RISK", f"{cls.fq}::_B_dot_vec[{i}]::{tag}", R(bu[i]).equals(exp),
                           what=f"Cox._B_dot_vec: entry {i} is not the sum over the risk set "
                                f"{{j : tm_j >= tm_{i}}} for times {tm}",
                           loc=loc(cls.find_method("_B_dot_vec"), cls.find_method("_B_dot_vec").node))
            if "risk" in parts and efron:
                # Efron's correction: within a group H of tied uncensored observations the
                # entries of A u are (l / |H|) * sum_H u for l = 0..|H|-1, zero elsewhere
                try:
                    au = L.call_function(cls.find_method("_A_dot_vec"), [Vec(u)], self_obj=so)
                except (Unsupported, Raised) as e:
                    ctx.ob(rule_prefix + "-RISK", f"{cls.fq}::_A_dot_vec::{tag}", None, detail=f"not lifted: {e}")
                    continue
                groups = {}
                for i in range(n):
                    if s[i]:
                        groups.setdefault(tm[i], []).append(i)
                for i in range(n):
                    if not s[i]:
                        counts["risk"] += 1
                        ctx.ob(rule_prefix + "-RISK", f"{cls.fq}::_A_dot_vec[{i}]::{tag}", R(au[i]).is_zero(),
                               what=f"Cox._A_dot_vec: entry {i} (censored observation) is not 0 for times {tm}, "
                                    f"censoring {s}",
                               loc=loc(cls.find_method("_A_dot_vec"), cls.find_method("_A_dot_vec").node))
                for t, H in sorted(groups.items()):
                    tot = const(0)
                    for j in H:
                        tot = tot + u[j]
                    want = sorted((const(Fraction(l, len(H))) * tot).key() for l in range(len(H)))
                    got = sorted(R(au[i]).key() for i in H)
                    counts["risk"] += 1
                    ctx.ob(rule_prefix + "-RISK", f"{cls.fq}::_A_dot_vec[H(t={t})]::{tag}", want == got,
                           what=f"Cox._A_dot_vec: on the tied uncensored group at time {t} the entries are not "
                                f"(l/|H|) * sum_H u, l = 0..|H|-1, for times {tm}, censoring {s}",
                           loc=loc(cls.find_method("_A_dot_vec"), cls.find_method("_A_dot_vec").node))
    for k, fl in (("grad", 40), ("adj", 15), ("risk", 20), ("hess", 40)):
        if k in parts:
            ctx.floor(rule_prefix + "-" + k.upper(), counts[k], scope.get("floor_" + k, fl))


def _positive_sum(rf):
    """numerator and denominator are sums of monomials with positive coefficients over
    atoms that are positive (exp) or appear with even exponents"""
    def ok(p):
        if not p:
            return True
        for m, c in p.items():
            if c < 0:
                return False
            for a, e in m:
                if a[0] == "fn" and a[1] == "exp":
                    continue
                if e % 2 == 0:
                    continue
                return False
        return True
    rf = R(rf)
    return ok(rf.num) and ok(rf.den)


def r_cox_reduction(A, ctx, scope, rule="R-COX-RED"):
    """C14: without tied event times Efron's convention is Breslow's"""
    cls = _cox(A)
    ctx.rule(rule, "Cox: on patterns without tied event times value / raw_grad / raw_hessian lifted "
             "with use_efron=True are the terms lifted with use_efron=False")
    n_ob = 0
    for tm, s in PATTERNS:
        ev = [t for t, c in zip(tm, s) if c]
        if len(set(ev)) != len(ev):
            continue
        out = {}
        for efron in (False, True):
            try:
                L, rg, so, y, Xw = _setup(A, cls, tm, s, efron)
                out[efron] = [R(L.call_function(cls.find_method("value"), [y, None, Xw], self_obj=so))] + \
                    [R(x) for x in L.call_function(cls.find_method("raw_grad"), [y, Xw], self_obj=so)] + \
                    [R(x) for x in L.call_function(cls.find_method("raw_hessian"), [y, Xw], self_obj=so)]
            except (Unsupported, Raised) as e:
                ctx.ob(rule, f"{cls.fq}::tm={tm},s={s},efron={efron}", None, detail=f"not lifted: {e}")
                out = None
                break
        if out is None:
            continue
        names = ["value"] + [f"raw_grad[{i}]" for i in range(len(tm))] + [f"raw_hessian[{i}]" for i in range(len(tm))]
        for nm, a, b in zip(names, out[False], out[True]):
            n_ob += 1
            ctx.ob(rule, f"{cls.fq}::{nm}::tm={tm},s={s}", a.equals(b),
                   what=f"Cox.{nm} differs between use_efron=True and use_efron=False although no two "
                        f"events share a time (times {tm}, censoring {s})",
                   loc=loc(cls.find_method("value"), cls.find_method("value").node))
    ctx.floor(rule, n_ob, scope.get("floor", 15))


def r_replicated_rows(A, ctx, scope, rule="R-RED-REPL"):
    """C14: integer sample weights are replicated rows"""
    from .kernels import make_obj
    prog = A.prog
    wq = next((c for c in prog.datafits if c.name == "WeightedQuadratic"), None)
    q = next((c for c in prog.datafits if c.name == "Quadratic"), None)
    if wq is None or q is None:
        raise AnalysisError("WeightedQuadratic / Quadratic missing")
    ctx.rule(rule, "WeightedQuadratic with integer sample weights (2, 1) on a two-row design is Quadratic "
             "on the design with the first row replicated: value, coordinate gradients, coordinate "
             "Lipschitz constants and the intercept step are equal terms")
    vals = {"x00": 0.9, "x01": -0.4, "x10": 0.3, "x11": 1.2, "y0": 1.1, "y1": -0.6, "w0": 0.35, "w1": -0.2}
    rg = Region(vals)
    L = RegionLifter(prog, rg)
    X = Mat([Vec([sym("x00"), sym("x01")]), Vec([sym("x10"), sym("x11")])])
    y = Vec([sym("y0"), sym("y1")])
    Xr = Mat([Vec(X[0]), Vec(X[0]), Vec(X[1])])
    yr = Vec([y[0], y[0], y[1]])
    w = Vec([sym("w0"), sym("w1")])
    wobj = Obj(wq, {"sample_weights": Vec([const(2), const(1)])})
    qobj = Obj(q, {})
    n = 0
    try:
        L.call_function(wq.find_method("initialize"), [X, y], self_obj=wobj)
        L.call_function(q.find_method("initialize"), [Xr, yr], self_obj=qobj)
        Xw, Xrw = L.dot(X, w), L.dot(Xr, w)
        pairs = [("value", L.call_function(wq.find_method("value"), [y, w, Xw], self_obj=wobj),
                  L.call_function(q.find_method("value"), [yr, w, Xrw], self_obj=qobj)),
                 ("intercept_update_step",
                  L.call_function(wq.find_method("intercept_update_step"), [y, Xw], self_obj=wobj),
                  L.call_function(q.find_method("intercept_update_step"), [yr, Xrw], self_obj=qobj))]
        # accessors w.r.t. the linear predictor, compared through X^T (the replicated design has
        # one more row)
        Xt, Xrt = Mat(Vec(c) for c in zip(*X)), Mat(Vec(c) for c in zip(*Xr))
        for acc in ("raw_grad", "raw_hessian"):
            mw, mq = wq.find_method(acc), q.find_method(acc)
            if mw is None or mq is None:
                continue
            a = L.dot(Xt, Vec(L.call_function(mw, [y, Xw], self_obj=wobj)))
            b = L.dot(Xrt, Vec(L.call_function(mq, [yr, Xrw], self_obj=qobj)))
            for j in range(2):
                pairs.append((f"{acc}", a[j], b[j]))
        lw = L.call_function(wq.find_method("get_lipschitz"), [X, y], self_obj=wobj)
        lq = L.call_function(q.find_method("get_lipschitz"), [Xr, yr], self_obj=qobj)
        for j in range(2):
            pairs.append((f"gradient_scalar[{j}]",
                          L.call_function(wq.find_method("gradient_scalar"), [X, y, w, Xw, j], self_obj=wobj),
                          L.call_function(q.find_method("gradient_scalar"), [Xr, yr, w, Xrw, j], self_obj=qobj)))
            pairs.append((f"get_lipschitz[{j}]", lw[j], lq[j]))
    except (Unsupported, Raised) as e:
        ctx.ob(rule, f"{wq.fq}::replicated-rows", None, detail=f"not lifted: {e}")
        return
    for nm, a, b in pairs:
        n += 1
        ok = R(a).equals(R(b))
        ctx.ob(rule, f"{wq.fq}::{nm}", ok,
               what=f"WeightedQuadratic.{nm} with sample weights (2, 1) = {rg.num(a):.5g} differs from "
                    f"Quadratic.{nm} on the replicated design = {rg.num(b):.5g}",
               loc=loc(wq.find_method(nm.split('[')[0]), wq.find_method(nm.split('[')[0]).node))
    ctx.floor(rule, n, 6)


def r_singleton_groups(A, ctx, scope, rule="R-RED-SINGLETON"):
    """C14: a group penalty on groups of one feature is the weighted L1 penalty"""
    prog = A.prog
    g2 = next((c for c in prog.penalties if c.name == "WeightedGroupL2"), None)
    w1 = next((c for c in prog.penalties if c.name == "WeightedL1"), None)
    if g2 is None or w1 is None:
        raise AnalysisError("WeightedGroupL2 / WeightedL1 missing")
    ctx.rule(rule, "WeightedGroupL2 on singleton groups is WeightedL1 with the same weights: value, prox "
             "and subdiff_distance are equal terms on every sign region (both values of positive, "
             "coefficients and inputs of both signs and zero)")
    n = 0
    for positive in (False, True):
        for wv, xv, gv in ((1.3, 2.0, -0.7), (-1.3, -2.0, 0.4), (0.0, 0.05, -2.0), (0.0, -0.05, 0.3),
                           (0.6, -0.1, 1.5)):
            key = f"{g2.fq}::positive={positive}::w={wv},x={xv},g={gv}"
            try:
                rg = Region({"alpha": 0.8, "s": 0.25, "wt0": 1.3, "wt1": 0.7, "wa": 0.37, "w0": wv, "x": xv,
                             "g0": gv})
                L = RegionLifter(prog, rg)
                wts = Vec([sym("wt0"), sym("wt1")])
                gobj = Obj(g2, {"alpha": sym("alpha"), "weights": wts, "grp_ptr": Vec([0, 1, 2]),
                                "grp_indices": Vec([0, 1]), "positive": positive})
                lobj = Obj(w1, {"alpha": sym("alpha"), "weights": wts, "positive": positive})
                wsym = sym("w0") if wv != 0 else const(0)
                coef = Vec([sym("wa"), wsym])
                pairs = [("value", L.call_function(g2.find_method("value"), [coef], self_obj=gobj),
                          L.call_function(w1.find_method("value"), [coef], self_obj=lobj)),
                         ("prox", L.call_function(g2.find_method("prox_1group"), [Vec([sym("x")]), sym("s"), 1],
                                                  self_obj=gobj)[0],
                          L.call_function(w1.find_method("prox_1d"), [sym("x"), sym("s"), 1], self_obj=lobj)),
                         ("subdiff_distance",
                          L.call_function(g2.find_method("subdiff_distance"), [coef, Vec([sym("g0")]), Vec([1])],
                                          self_obj=gobj)[0],
                          L.call_function(w1.find_method("subdiff_distance"), [coef, Vec([sym("g0")]), Vec([1])],
                                          self_obj=lobj)[0])]
            except (Unsupported, Raised) as e:
                ctx.ob(rule, key, None, detail=f"not lifted: {e}")
                continue
            for nm, a, b in pairs:
                n += 1
                ok = R(a).equals(R(b))
                try:
                    na, nb = rg.num(a), rg.num(b)
                    desc = f"{na:.5g} vs {nb:.5g}"
                except Unsupported:
                    desc = "terms differ"
                ctx.ob(rule, key + f"::{nm}", ok,
                       what=f"WeightedGroupL2(positive={positive}) on singleton groups: {nm} = {desc} for "
                            f"WeightedL1 (w_j = {wv}, prox input {xv}, gradient {gv})",
                       loc=loc(g2.find_method("value"), g2.find_method("value").node))
    ctx.floor(rule, n, 20)


def r_hessian_bound_sqrt(A, ctx, scope, rule="R-HESS-BOUND"):
    """C09: diagonal accessor documented as a bound (square-root loss)"""
    prog = A.prog
    sq = next((c for c in prog.datafits if c.name == "SqrtQuadratic"), None)
    if sq is None:
        raise AnalysisError("SqrtQuadratic missing")
    ctx.rule(rule, "SqrtQuadratic.raw_hessian, documented as an upper bound of the Hessian: on a "
             "two-sample problem diag(raw_hessian) - Hessian(value) (second derivatives of the "
             "lifted value) is positive semi-definite at every witness, the nearly interpolating "
             "one included (a comparison at witnesses: refutation only)")
    n = 0
    m = sq.find_method("raw_hessian")
    for tag, (y0, y1, v0, v1) in (("generic", (1.3, -0.6, 0.4, 0.5)), ("other signs", (-0.8, 0.9, 0.3, -1.2)),
                                   ("nearly interpolating", (1.3, -0.6, 1.3 - 0.004, -0.6 + 0.003))):
        key = f"{sq.fq}::raw_hessian::{tag}"
        try:
            rg = Region({"y0": y0, "y1": y1, "v0": v0, "v1": v1})
            L = RegionLifter(prog, rg)
            dobj = Obj(sq, {})
            y = Vec([sym("y0"), sym("y1")])
            v = Vec([sym("v0"), sym("v1")])
            val = R(L.call_function(sq.find_method("value"), [y, None, v], self_obj=dobj))
            h = L.call_function(m, [y, v], self_obj=dobj)
            g = [derivative(val, ("sym", f"v{i}")) for i in range(2)]
            H = [[derivative(g[i], ("sym", f"v{j}")) for j in range(2)] for i in range(2)]
            M = [[(R(h[i]) if i == j else const(0)) - H[i][j] for j in range(2)] for i in range(2)]
            det = M[0][0] * M[1][1] - M[0][1] * M[1][0]
            nd = [[rg.num(x) for x in row] for row in M]
            detn = nd[0][0] * nd[1][1] - nd[0][1] * nd[1][0]
            scale = max(1.0, abs(nd[0][0]), abs(nd[1][1])) ** 2
            n += 1
            psd = nd[0][0] >= -1e-9 and nd[1][1] >= -1e-9 and detn >= -1e-7 * scale
            ctx.ob(rule, key, psd,
                   what=f"SqrtQuadratic.raw_hessian does not dominate the Hessian of value() at the {tag} "
                        f"point (y, Xw) = ({y0}, {y1}; {v0}, {v1}): diag - H = {nd} is not positive "
                        "semi-definite, the prox-Newton model underestimates the curvature",
                   loc=loc(m, m.node))
        except Raised as e:
            n += 1
            ctx.ob(rule, key, False, what=f"SqrtQuadratic.raw_hessian raises at the {tag} point: {e}",
                   loc=loc(m, m.node))
        except (Unsupported, ZeroDivisionError) as e:
            ctx.ob(rule, key, None, detail=f"not lifted: {e}")
    ctx.floor(rule, n, 3)


def r_cox_global(A, ctx, scope, rule="R-COX-GLIP"):
    """C09: Cox global Lipschitz constant against a curvature the loss actually reaches"""
    cls = _cox(A)
    ctx.rule(rule, "Cox (Breslow): get_global_lipschitz(X, y) = c * |X|_2^2 with c at least the curvature of "
             "the lifted value() along d = (e_i - e_j) / sqrt(2) at a linear predictor where the two "
             "longest-surviving subjects i, j dominate every risk set (second derivatives of the lifted "
             "value, evaluated at that witness): with the orthonormal design [d, (e_i + e_j) / sqrt(2)] "
             "this curvature is an eigenvalue bound of X^T H X, so a smaller c is not a global bound")
    n_ob = 0
    for tm, s in PATTERNS:
        tag = f"tm={tm},s={s}"
        n = len(tm)
        order = sorted(range(n), key=lambda k: -tm[k])
        i, j = order[0], order[1]
        try:
            L, rg, so, y, Xw = _setup(A, cls, tm, s, False)
            for a in range(n):
                for b in range(2):
                    rg.values[f"q{a}{b}"] = 0.3 + 0.1 * a - 0.07 * b
            X = Mat(Vec(sym(f"q{a}{b}") for b in range(2)) for a in range(n))
            glob = R(L.call_function(cls.find_method("get_global_lipschitz"), [X, y], self_obj=so))
            spec = L.spectral(X)
            coef = glob / (spec * spec)
            if any(a[0] == "sym" and str(a[1]).startswith(("SPEC_", "q")) for a in coef.all_atoms()):
                raise Unsupported("global constant is not a multiple of the squared spectral norm")
            got = rg.num(coef)
            val = R(L.call_function(cls.find_method("value"), [y, None, Xw], self_obj=so))
            gi = derivative(val, ("sym", f"v{i}"))
            gj = derivative(val, ("sym", f"v{j}"))
            hii, hjj, hij = derivative(gi, ("sym", f"v{i}")), derivative(gj, ("sym", f"v{j}")), \
                derivative(gi, ("sym", f"v{j}"))
            wit = Region({f"v{k}": (12.0 if k in (i, j) else 0.0) for k in range(n)})
            curv = 0.5 * (wit.num(hii) + wit.num(hjj) - 2 * wit.num(hij))
            n_ob += 1
            ctx.ob(rule, f"{cls.fq}::get_global_lipschitz::{tag}", got >= curv - 1e-9,
                   what=f"Cox.get_global_lipschitz = {got:.4g} * |X|^2 for times {tm}, censoring {s}, but the "
                        f"loss has curvature {curv:.4g} along (e_{i} - e_{j}) / sqrt(2) where subjects {i} and {j} "
                        "dominate the risk sets (orthonormal two-column design): the constant is not a global "
                        "bound and FISTA's step 1/L is too long",
                   loc=loc(cls.find_method("get_global_lipschitz"), cls.find_method("get_global_lipschitz").node))
        except (Unsupported, Raised, ZeroDivisionError) as e:
            ctx.ob(rule, f"{cls.fq}::get_global_lipschitz::{tag}", None, detail=f"not lifted: {e}")
    ctx.floor(rule, n_ob, 5)


def r_istep_multitask(A, ctx, scope, rule="R-ISTEP-TASKS"):
    """C06 / C01: per-task intercept steps of multitask datafits"""
    prog = A.prog
    ctx.rule(rule, "multitask datafits: intercept_update_step returns one entry per task, each a positive "
             "multiple (the same for every task) of d value / d intercept_t, with value() lifted on a "
             "3-sample, 2-task problem where the intercept of task t is added to column t of XW")
    n = 0
    for dcls in prog.datafits:
        if not dcls.is_subclass_of(prog.BaseMultitaskDatafit):
            continue
        m = dcls.find_method("intercept_update_step")
        if m is None or m.cls.name.startswith("Base"):
            continue
        key = f"{dcls.fq}::intercept_update_step"
        try:
            vals = {"b0": 0.0, "b1": 0.0}
            for i in range(3):
                for t in range(2):
                    vals[f"Y{i}{t}"] = 0.4 * (t + 1) - 0.3 * i
                    vals[f"XW{i}{t}"] = 0.25 * (t + 1) + 0.2 * i - 0.1 * t * i
            rg = Region(vals)
            L = RegionLifter(prog, rg)
            from .kernels import make_obj
            dobj = make_obj(prog, dcls)
            Y = Mat(Vec(sym(f"Y{i}{t}") for t in range(2)) for i in range(3))
            XW = Mat(Vec(sym(f"XW{i}{t}") for t in range(2)) for i in range(3))
            XWb = Mat(Vec(sym(f"XW{i}{t}") + sym(f"b{t}") for t in range(2)) for i in range(3))
            step = L.call_function(m, [Y, XW], self_obj=dobj)
            val = R(L.call_function(dcls.find_method("value"), [Y, None, XWb], self_obj=dobj))
            n += 1
            if not isinstance(step, (Vec, list)) or len(step) != 2:
                ctx.ob(rule, key, False,
                       what=f"{dcls.name}.intercept_update_step does not return one step per task (got "
                            f"{'a scalar' if not isinstance(step, (Vec, list)) else len(step)} for 2 tasks): every "
                            "task's intercept is moved by the same amount and the intercept part of the "
                            "stopping test is a single number", loc=loc(m, m.node))
                continue
            dv = [substitute(derivative(val, ("sym", f"b{t}")), {("sym", "b0"): const(0), ("sym", "b1"): const(0)})
                  for t in range(2)]
            prop = (R(step[0]) * dv[1]).equals(R(step[1]) * dv[0])
            ratio = rg.num(R(step[0])) / rg.num(dv[0]) if rg.num(dv[0]) else float("nan")
            ctx.ob(rule, key, prop and ratio > 0,
                   what=f"{dcls.name}.intercept_update_step is not a positive multiple of the intercept "
                        f"gradient of value() task by task (ratio on task 0: {ratio:.4g})", loc=loc(m, m.node))
        except (Unsupported, Raised, ZeroDivisionError) as e:
            ctx.ob(rule, key, None, detail=f"not lifted: {e}")
    ctx.floor(rule, n, 1)
