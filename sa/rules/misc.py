"""Small repo-specific rules added after the seeded-defect campaign: R-GRPORDER,
R-SPARSETEST, R-ACCRESET, R-ALIAS, R-SIBGUARD."""
import ast

from ..model import norm_src, names_in, attr_chain, AnalysisError, is_inf
from ..cfg import cfg_of
from .control import loc, _slot_call, _grad_like

ORDER_DESTROYING = {"unique", "sort", "sorted", "set", "argsort", "frozenset", "union1d",
                    "intersect1d", "setdiff1d", "shuffle", "permutation"}


def r_grporder(A, ctx, scope, rule="R-GRPORDER"):
    ctx.rule(rule, "group specification conversion preserves the caller's order: the data "
             "flow from `groups` to the returned grp_indices / grp_ptr goes only through "
             "order-preserving operations (array construction, comprehension, cumsum, hstack, "
             "astype); sorting / de-duplicating calls (np.unique, sorted, set, ...) re-attach "
             "features to other groups")
    m = A.prog.modules.get("skglm.utils.data")
    if m is None or "grp_converter" not in m.functions:
        raise AnalysisError("anchor skglm.utils.data.grp_converter missing")
    f = m.functions["grp_converter"]
    rets = [r for r in ast.walk(f.node) if isinstance(r, ast.Return) and r.value is not None]
    if not rets:
        raise AnalysisError("grp_converter has no return")
    # backward data-flow closure (flow-insensitive) from the returned names
    deps = set()
    for r in rets:
        deps |= names_in(r.value)
    changed = True
    assigns = [st for st in ast.walk(f.node) if isinstance(st, ast.Assign)]
    while changed:
        changed = False
        for st in assigns:
            tn = set()
            for t in st.targets:
                tn |= {x.id for x in ast.walk(t) if isinstance(x, ast.Name)}
            if tn & deps:
                new = names_in(st.value) - deps
                if new:
                    deps |= new
                    changed = True
    n = 0
    for st in assigns + rets:
        tn = set()
        if isinstance(st, ast.Assign):
            for t in st.targets:
                tn |= {x.id for x in ast.walk(t) if isinstance(x, ast.Name)}
            if not (tn & deps):
                continue
        for c in ast.walk(st.value):
            if isinstance(c, ast.Call):
                n += 1
                nm = ast.unparse(c.func).split(".")[-1]
                ctx.ob(rule, f"{f.fq}::{norm_src(c)[:60]}", nm not in ORDER_DESTROYING,
                       what=f"`{norm_src(c)[:60]}` reorders / de-duplicates the group indices: "
                            "group g no longer owns the features listed in groups[g] (weights "
                            "and group membership are attached to other features)",
                       loc=loc(f, c))
    # in-place reordering through an alias: `c = np.asarray(grp_indices); c.sort()` sorts grp_indices itself
    # (np.asarray / asanyarray / ravel / reshape / view / a plain name do not copy)
    alias = set(deps)
    changed = True
    while changed:
        changed = False
        for st in assigns:
            if len(st.targets) == 1 and isinstance(st.targets[0], ast.Name) and st.targets[0].id not in alias:
                v = st.value
                src = None
                if isinstance(v, ast.Name):
                    src = v.id
                elif isinstance(v, ast.Call) and ast.unparse(v.func) in ("np.asarray", "np.asanyarray", "np.ascontiguousarray") \
                        and v.args and isinstance(v.args[0], ast.Name):
                    src = v.args[0].id
                elif isinstance(v, ast.Call) and isinstance(v.func, ast.Attribute) and v.func.attr in ("ravel", "reshape", "view") \
                        and isinstance(v.func.value, ast.Name):
                    src = v.func.value.id
                if src in alias:
                    alias.add(st.targets[0].id)
                    changed = True
    for c in ast.walk(f.node):
        if isinstance(c, ast.Call) and isinstance(c.func, ast.Attribute) and c.func.attr in ("sort", "partition", "shuffle"):
            tgt = c.func.value.id if isinstance(c.func.value, ast.Name) else (
                c.args[0].id if c.args and isinstance(c.args[0], ast.Name) and ast.unparse(c.func).startswith("np.random") else None)
            if tgt in alias:
                n += 1
                ctx.ob(rule, f"{f.fq}::{norm_src(c)[:60]}", False,
                       what=f"`{norm_src(c)[:60]}` reorders in place an array that is (an alias of) the group indices being "
                            "returned: group g no longer owns the features listed in groups[g]", loc=loc(f, c))
    ctx.floor(rule, n, scope.get("floor", 6))


def r_sparsetest(A, ctx, scope, rule="R-SPARSETEST"):
    ctx.rule(rule, "one storage predicate: every test of the storage of X in solver / "
             "estimator code is scipy's issparse(X) - the predicate validation uses; a "
             "narrower test (isspmatrix_csc, isinstance) sends inputs that validation treated "
             "as sparse down the dense branch")
    n = 0
    for f in A.prog.all_functions():
        if not f.module.name.startswith(("skglm.solvers", "skglm.estimators", "skglm.experimental")):
            continue
        for c in ast.walk(f.node):
            if isinstance(c, ast.Call):
                nm = ast.unparse(c.func).split(".")[-1]
                if nm.startswith("issp") or nm.startswith("isspmatrix"):
                    n += 1
                    ctx.ob(rule, f"{f.fq}::{norm_src(c)[:50]}", nm == "issparse",
                           what=f"`{norm_src(c)}` is not the predicate used by validation "
                                "(issparse): sparse arrays / other formats take the dense path",
                           loc=loc(f, c))
                if nm == "isinstance" and len(c.args) == 2 and "X" in A.flow.roles(f, c.args[0]) \
                        and "sparse" in ast.unparse(c.args[1]).lower():
                    n += 1
                    ctx.ob(rule, f"{f.fq}::{norm_src(c)[:50]}", False,
                           what=f"`{norm_src(c)}` tests the storage with isinstance instead of issparse",
                           loc=loc(f, c))
    ctx.floor(rule, n, scope.get("floor", 15))


def r_accreset(A, ctx, scope, rule="R-ACCRESET"):
    ctx.rule(rule, "no stale extrapolation buffer: an array that is bulk-copied into the "
             "iterate on acceptance and that receives partial (indexed) stores inside the "
             "budget loop is fully reset / rebuilt in the same outer iteration before those "
             "stores (entries outside the current working set would otherwise carry values of "
             "a previous working set into w without their model-fit counterpart)")
    n = 0
    for name, sf in sorted(A.facts.items()):
        if sf.loop is None:
            continue
        f, cfg = sf.f, sf.cfg
        state = {x for x in (sf.W, sf.XW) if x}
        srcs = set()
        for nd in cfg.stmts():
            a = nd.ast
            if nd.kind == "stmt" and isinstance(a, ast.Assign) and len(a.targets) == 1:
                t, v = a.targets[0], a.value
                pairs = list(zip(t.elts, v.elts)) if isinstance(t, ast.Tuple) and isinstance(v, ast.Tuple) else [(t, v)]
                for tt, vv in pairs:
                    if isinstance(tt, ast.Subscript) and isinstance(tt.value, ast.Name) and tt.value.id in state \
                            and isinstance(tt.slice, ast.Slice) and tt.slice.lower is None and tt.slice.upper is None \
                            and isinstance(vv, ast.Name):
                        srcs.add(vv.id)
        for src in sorted(srcs):
            partial, resets = [], []
            for nd in cfg.stmts():
                a = nd.ast
                if nd.kind != "stmt" or sf.loop_header not in nd.loops:
                    continue
                if isinstance(a, ast.Assign):
                    for t in a.targets:
                        for tt in (t.elts if isinstance(t, ast.Tuple) else [t]):
                            if isinstance(tt, ast.Name) and tt.id == src:
                                resets.append(nd.id)
                            if isinstance(tt, ast.Subscript) and isinstance(tt.value, ast.Name) and tt.value.id == src:
                                full = isinstance(tt.slice, ast.Slice) and tt.slice.lower is None and tt.slice.upper is None
                                (resets if full else partial).append(nd.id)
            for p in partial:
                n += 1
                ok = any(cfg.dominated_by(p, r) for r in resets)
                ctx.ob(rule, f"{f.fq}::{src}::{norm_src(cfg.nodes[p].ast)[:60]}", ok,
                       what=f"`{src}` is copied wholesale into the iterate on acceptance but only "
                            f"partially rewritten (`{norm_src(cfg.nodes[p].ast)[:50]}`) without a full "
                            "reset in the same outer iteration: stale entries outside the working set "
                            "end up in w, inconsistent with Xw", loc=loc(f, cfg.nodes[p].ast))
    ctx.floor(rule, n, scope.get("floor", 2))


def r_alias(A, ctx, scope, rule="R-ALIAS"):
    ctx.rule(rule, "in-place contract: in every solver whose effect summary mutates its "
             "w_init / Xw_init parameters, the working arrays are the caller's arrays "
             "themselves (`x = fresh if p is None else p`), not a possibly-copying conversion "
             "of them - otherwise the caller's buffer silently stops following the iterate")
    n = 0
    flow = A.flow
    for name, sf in sorted(A.facts.items()):
        f = sf.f
        mut = flow.mut.get(f, set())
        for p, a in ((sf.pW0, sf.w_init_assign), (sf.pXW0, sf.xw_init_assign)):
            if a is None:
                continue
            inplace = p in mut or any(p in names_in(x.value) and isinstance(x.value, ast.IfExp)
                                      for x in [a])
            v = a.value
            if not isinstance(v, ast.IfExp):
                continue
            given = v.orelse if "is None" in ast.unparse(v.test) and "not" not in ast.unparse(v.test) else v.body
            if ".copy()" in ast.unparse(given):
                continue       # documented copying solver (FISTA): not in-place by design
            n += 1
            ok = isinstance(given, ast.Name) and given.id == p
            ctx.ob(rule, f"{f.fq}::{p}", ok,
                   what=f"`{norm_src(a)[:80]}`: the array used by the solver may be a copy of "
                        f"`{p}` (conversion call), so the caller's `{p}` is no longer updated in "
                        "place while its sibling buffer is", loc=loc(f, a))
            # ... and the name bound to the caller's array is never rebound inside the budget
            # loop (`w, Xw = w_acc, Xw_acc` returns the right coefficients but the caller's
            # buffers stop following the iterate)
            if ok and p in mut:
                local = a.targets[0].id if isinstance(a.targets[0], ast.Name) else None
                for st in ast.walk(f.node):
                    if not isinstance(st, ast.Assign) or st is a or getattr(st, "lineno", 0) <= a.lineno:
                        continue
                    for t in st.targets:
                        names = [x.id for x in (t.elts if isinstance(t, ast.Tuple) else [t]) if isinstance(x, ast.Name)]
                        if local in names:
                            n += 1
                            ctx.ob(rule, f"{f.fq}::rebind::{local}", False,
                                   what=f"`{norm_src(st)[:70]}` rebinds `{local}` after it was bound to the caller's array: "
                                        f"the solver works in place on the caller's `{p}` (pair (w, Xw) handed "
                                        "over by path() and warm starts); after this statement the caller's "
                                        "buffer no longer follows the iterate", loc=loc(f, st))
    for k, v in CALLER_INITIALISED.items():
        ctx.note(f"{rule}: {k} exempt: {v}")
    ctx.floor(rule, n, scope.get("floor", 10))


def r_sibguard(A, ctx, scope, rule="R-SIBGUARD"):
    ctx.rule(rule, "dense / CSC sibling kernels agree on their control skeleton: the tests "
             "that do not compare old and new coefficient values (zero-curvature guards, knob "
             "tests, convergence tests, periodic checks) and the loop bounds are the same "
             "multiset in `f` and `f_sparse` / `f_s`")
    n = 0
    flow = A.flow
    for m in A.prog.modules.values():
        if not m.name.startswith(("skglm.solvers",)):
            continue
        for nm, f in m.functions.items():
            sib = m.functions.get(nm + "_sparse") or m.functions.get(nm + "_s")
            if sib is None:
                continue

            def skeleton(fn):
                out = []
                wnames = {x for x, r in flow.env[fn].items() if r & {"W", "W0"}}
                olds = set()
                for st in ast.walk(fn.node):
                    if isinstance(st, ast.Assign) and isinstance(st.targets[0], ast.Name):
                        if names_in(st.value) & (wnames | olds) and not isinstance(st.value, ast.Call):
                            olds.add(st.targets[0].id)
                        elif isinstance(st.value, ast.Call) and isinstance(st.value.func, ast.Attribute) \
                                and st.value.func.attr == "copy" and names_in(st.value) & wnames:
                            olds.add(st.targets[0].id)
                csc = {x for x, r in flow.env[fn].items() if r & {"CSC_DATA", "CSC_INDPTR", "CSC_INDICES", "X"}}
                for st in ast.walk(fn.node):
                    if isinstance(st, (ast.If, ast.IfExp, ast.While)):
                        nm_ = names_in(st.test)
                        if nm_ & (wnames | olds) or nm_ & csc:
                            continue
                        out.append("if " + norm_src(st.test))
                    if isinstance(st, ast.For):
                        it = norm_src(st.iter)
                        nmi = names_in(st.iter)
                        if nmi & csc:
                            continue
                        is_const = any(x in fn.module.consts for x in nmi)
                        is_ws = any(flow.env[fn].get(x, set()) & {"WS", "ALL"} for x in nmi)
                        if is_const or is_ws:
                            out.append("for " + it)
                return sorted(out)
            a, b = skeleton(f), skeleton(sib)
            n += 1
            only_a = [x for x in a if x not in b]
            only_b = [x for x in b if x not in a]
            ctx.ob(rule, f"{f.fq}<->{sib.name}", not only_a and not only_b,
                   what=f"{f.name} and {sib.name} drifted apart: only in dense {only_a[:3]}, only "
                        f"in sparse {only_b[:3]}", loc=loc(sib, sib.node))
    ctx.floor(rule, n, scope.get("floor", 8))


def r_zerocol(A, ctx, scope, rule="R-ZEROCOL"):
    ctx.rule(rule, "zero-curvature coordinates are still proxed: in every epoch kernel, each "
             "iteration of the loop over the working set reaches the prox store (a zero "
             "Lipschitz constant selects a fallback step, it does not skip the coordinate) - "
             "a skipped coordinate keeps a warm-started value on an all-zero column / group: "
             "non-zero penalised coefficient, infeasible under positive=True, criterion stuck "
             "at alpha")
    flow = A.flow
    n = 0
    for f in A.prog.all_functions():
        if not f.module.name.startswith(("skglm.solvers", "skglm.experimental", "skglm.utils.prox")):
            continue
        if f.cls is not None and f.cls not in A.prog.solvers:
            continue
        cfg = None
        for st in ast.walk(f.node):
            if not (isinstance(st, ast.Assign) and isinstance(st.targets[0], ast.Subscript)
                    and _slot_call(flow, f, st.value, "PENALTY", {"prox_1d", "prox_1feat", "prox_1group"})):
                continue          # scores wrap the prox call (|w - prox(..)|): not an update
            cfg = cfg or cfg_of(f)
            s = cfg.node_of(st)
            if s is None or not cfg.nodes[s].loops:
                continue
            header = cfg.nodes[s].loops[-1]
            it, ex = cfg.loop_edges(header)
            n += 1
            skip = cfg.paths_exist(it, header, avoiding=[s])
            ctx.ob(rule, f"{f.fq}::{norm_src(st)[:70]}", not skip,
                   what=f"in {f.name} an iteration over the working set can reach the next one "
                        f"without executing `{norm_src(st)[:60]}` (zero-curvature `continue`): a "
                        "warm-started coefficient on an all-zero column / group is never shrunk",
                   loc=loc(f, st))
    for k, v in CALLER_INITIALISED.items():
        ctx.note(f"{rule}: {k} exempt: {v}")
    ctx.floor(rule, n, scope.get("floor", 10))


RANDOM_DRAWS = {"randn", "rand", "normal", "standard_normal", "random", "random_sample", "uniform"}


def r_powerstart(A, ctx, scope, rule="R-POWER"):
    """C09: the power iteration behind the sparse global Lipschitz constants"""
    ctx.rule(rule, "power method (spectral_norm): the start vector is drawn from a continuous "
             "distribution (a fixed start vector is orthogonal to the dominant singular vector "
             "for some designs - centred columns for the constant vector - and the iteration "
             "then returns a smaller singular value, i.e. a constant below the curvature)")
    m = A.prog.modules.get("skglm.utils.sparse_ops")
    f = m.functions.get("spectral_norm") if m else None
    if f is None:
        raise AnalysisError("skglm.utils.sparse_ops.spectral_norm missing")
    loops = [st for st in f.node.body if isinstance(st, ast.For)]
    n = 0
    if not loops:
        ctx.ob(rule, f"{f.fq}::loop", None, detail="no iteration loop found")
        return
    lp = loops[0]
    # the vector the operator is applied to inside the loop
    vec = None
    prod = None
    for st in lp.body:
        if isinstance(st, ast.Assign) and isinstance(st.value, ast.Call):
            r = A.prog.resolve(f.module, ast.unparse(st.value.func))
            if r is not None and getattr(r, "name", "") == "_XXT_dot_vec":
                names = [a.id for a in st.value.args if isinstance(a, ast.Name)]
                cands = [x for x in names if x not in f.params]
                vec = cands[0] if cands else None
                prod = st.targets[0].id if isinstance(st.targets[0], ast.Name) else None
    if vec is None or prod is None:
        ctx.ob(rule, f"{f.fq}::operator", None, detail="application of X X^T not recognised")
        return
    # start vector: definitions of `vec` before the loop, closed over the names they use
    pre = [st for st in f.node.body if st.lineno < lp.lineno]
    need, seen_random = {vec}, False
    for st in reversed(pre):
        tg = st.targets[0] if isinstance(st, ast.Assign) else getattr(st, "target", None)
        if tg is None or not isinstance(tg, ast.Name) or tg.id not in need:
            continue
        val = st.value
        need |= names_in(val)
        for c in ast.walk(val):
            if isinstance(c, ast.Call) and isinstance(c.func, ast.Attribute) and c.func.attr in RANDOM_DRAWS \
                    and "random" in ast.unparse(c.func):
                seen_random = True
    n += 1
    ctx.ob(rule, f"{f.fq}::start-vector", seen_random,
           what="spectral_norm starts the power iteration from a fixed vector: for designs whose "
                "dominant left singular vector is orthogonal to it (e.g. centred columns and the "
                "constant vector) the iteration converges to a smaller singular value and the "
                "sparse global Lipschitz constant is below the curvature", loc=loc(f, pre[0] if pre else f.node))
    ctx.floor(rule, n, 1)


def _abs_eps_compares(tree):
    """comparisons one of whose operands is a literal constant c with 0 < |c| < 1e-3 (not
    scaled by any data-dependent factor)"""
    out = []
    for n in ast.walk(tree):
        if not isinstance(n, ast.Compare):
            continue
        for c in [n.left] + list(n.comparators):
            v = c
            if isinstance(v, ast.UnaryOp) and isinstance(v.op, (ast.USub, ast.UAdd)):
                v = v.operand
            if isinstance(v, ast.Constant) and isinstance(v.value, (int, float)) \
                    and not isinstance(v.value, bool) and 0 < abs(v.value) < 1e-3:
                out.append(n)
                break
    # np.isclose / np.allclose / math.isclose carry built-in thresholds (rtol 1e-5, atol 1e-8): deciding
    # structure with them (ties, zero tests, group membership) is the same absolute-epsilon guard
    for n in ast.walk(tree):
        if isinstance(n, ast.Call) and ast.unparse(n.func) in ("np.isclose", "np.allclose", "numpy.isclose",
                                                                "numpy.allclose", "math.isclose"):
            out.append(n)
    return out


def r_abseps(A, ctx, scope, rule="R-ABSEPS"):
    ctx.rule(rule, "no absolute epsilon: library code never compares a quantity with a small "
             "literal threshold (0 < |c| < 1e-3) that is not scaled by the data - such a guard "
             "changes behaviour when a feature (and its weight) is rescaled, and treats small "
             "but meaningful curvatures / updates as zero")
    # the matcher must see its positive example on every run
    probe = ast.parse("def f(lc, j, t):\n    a = np.isclose(t[1:], t[:-1])\n    return 1 / lc[j] if lc[j] > 1e-10 else 1000\n")
    if len(_abs_eps_compares(probe)) != 2:
        raise AnalysisError("R-ABSEPS matcher lost its positive example")
    n = 0
    for m in A.prog.modules.values():
        if ".tests" in m.name or m.name.endswith("conftest"):
            continue
        for f in list(m.functions.values()) + [x for c in m.classes.values() for x in c.methods.values()]:
            n += 1
            hits = _abs_eps_compares(f.node)
            for h in hits:
                ctx.ob(rule, f"{f.fq}::{norm_src(h)[:60]}", False,
                       what=f"`{norm_src(h)[:80]}` compares with an absolute threshold: rescaling a "
                            "feature together with its weight (or the whole problem) changes which "
                            "branch is taken; exactly-zero tests or thresholds relative to the data "
                            "are the repository's idiom", loc=loc(f, h))
            if not hits:
                ctx.ob(rule, f"{f.fq}", True)
    ctx.floor(rule, n, scope.get("floor", 300))


def r_initialize(A, ctx, scope, rule="R-INITIALIZE"):
    """C20 / C18: typestate of the datafit object inside a solve"""
    ctx.rule(rule, "datafit typestate: in every solver that initialises the datafit, the call to "
             "initialize / initialize_sparse is control-dependent on nothing but the storage "
             "dispatch (`issparse(X)`): a solve on new data never reads the lazy attributes "
             "(X^T y, ...) computed for the data of an earlier call - stale values of the same "
             "extent give a wrong gradient, of a different extent an out-of-range read")
    flow = A.flow
    n = 0
    for name, sf in sorted(A.facts.items()):
        f = sf.f
        cfg = cfg_of(f)
        for nd in cfg.stmts():
            st = nd.ast
            if nd.kind != "stmt" or not isinstance(st, ast.Expr) or not isinstance(st.value, ast.Call):
                continue
            c = st.value
            if not _slot_call(flow, f, c, "DATAFIT", {"initialize", "initialize_sparse"}):
                continue
            n += 1
            bad = []
            ifs = {id(x.test): x for x in ast.walk(f.node) if isinstance(x, ast.If)}
            for t, lab, _ in cfg.facts_at(nd.id):
                if not isinstance(t, ast.expr):
                    continue
                ifst = ifs.get(id(t))
                if ifst is not None:
                    other = ifst.body if lab == "false" else ifst.orelse
                    if other and isinstance(other[-1], ast.Raise):
                        continue          # the other branch refuses the call: no solve without init
                txt = ast.unparse(t)
                names = names_in(t)
                sparse_test = "issparse" in txt or any(
                    isinstance(a, ast.Assign) and isinstance(a.targets[0], ast.Name) and a.targets[0].id in names
                    and "issparse" in ast.unparse(a.value) for a in ast.walk(f.node))
                if not sparse_test:
                    bad.append(txt)
            ctx.ob(rule, f"{f.fq}::{norm_src(c)[:50]}", not bad,
                   what=f"{f.qualname}: `{norm_src(c)[:50]}` is only executed when `{' and '.join(bad)[:80]}`: "
                        "on the other paths the datafit keeps the lazy attributes of an earlier call "
                        "(other data: wrong gradient; other width: out-of-range read in compiled code)",
                   loc=loc(f, st))
    ctx.floor(rule, n, scope.get("floor", 8))


def r_selfdiff(A, ctx, scope, rule="R-SELFDIFF"):
    ctx.rule(rule, "no stopping quantity is the difference of an array and an alias of itself: when a "
             "helper writes its result into its first argument and returns it, `x - helper(x, ...)` is "
             "identically zero (and x has been overwritten): a fixed-point residual computed that way "
             "certifies any point")
    flow = A.flow
    # helpers that return one of their (mutated) parameters
    ret_alias = {}
    for f in A.prog.all_functions():
        rets = [r for r in ast.walk(f.node) if isinstance(r, ast.Return) and isinstance(r.value, ast.Name)]
        if not rets:
            continue
        names = {r.value.id for r in rets}
        if len(names) == 1:
            nm = names.pop()
            params = f.call_params()
            if nm in params and nm in flow.mut.get(f, ()):
                ret_alias[f] = params.index(nm)
    n = 0
    for f in A.prog.all_functions():
        if f not in flow.env:
            continue
        alias = {}
        for st in ast.walk(f.node):
            if isinstance(st, ast.Assign) and len(st.targets) == 1 and isinstance(st.targets[0], ast.Name) \
                    and isinstance(st.value, ast.Call):
                kind, callees = flow.resolve_call(f, st.value)
                for c in callees or ():
                    if c in ret_alias and len(st.value.args) > ret_alias[c] \
                            and isinstance(st.value.args[ret_alias[c]], ast.Name):
                        src = st.value.args[ret_alias[c]].id
                        if src != st.targets[0].id:
                            alias[st.targets[0].id] = (src, c, st)
        if not alias:
            continue
        n += 1
        bad = None
        for sub in ast.walk(f.node):
            if isinstance(sub, ast.BinOp) and isinstance(sub.op, ast.Sub) and isinstance(sub.left, ast.Name) \
                    and isinstance(sub.right, ast.Name):
                for v, (src, c, st) in alias.items():
                    if {sub.left.id, sub.right.id} == {v, src}:
                        bad = (sub, v, src, c)
        ctx.ob(rule, f"{f.fq}", bad is None,
               what=(f"{f.qualname}: `{norm_src(bad[0])}` - `{bad[1]}` is what {bad[3].name} returned, i.e. its "
                     f"argument `{bad[2]}` itself, overwritten in place: the difference is identically zero "
                     f"and `{bad[2]}` no longer holds the iterate") if bad else "",
               loc=loc(f, bad[0]) if bad else None)
    ctx.extra["returns_alias_helpers"] = sorted(x.fq for x in ret_alias)
    ctx.floor(rule + "/helpers", len(ret_alias), 1)


def r_wssize(A, ctx, scope, rule="R-WSSIZE"):
    """C05 / C01: the working set contains the generalized support"""
    ctx.rule(rule, "working-set size: the value used to cut the working set (`argpartition(opt, -k)[-k:]`) is "
             "bounded below by a multiple of the current support size and capped only by the total "
             "number of coordinates: a cap by anything else (n_samples, a constant) can leave support "
             "coordinates outside the working set, where an accepted extrapolation zeroes them without "
             "updating the model fit")
    flow = A.flow
    n = 0
    for name, sf in sorted(A.facts.items()):
        f = sf.f
        use = None
        for c in ast.walk(f.node):
            if isinstance(c, ast.Call) and ast.unparse(c.func).endswith("argpartition") and len(c.args) >= 2:
                k = c.args[1]
                if isinstance(k, ast.UnaryOp) and isinstance(k.operand, ast.Name):
                    use = (k.operand.id, c)
        if use is None:
            continue
        var, call = use
        cfg = cfg_of(f)
        nid = None
        for nd in cfg.stmts():
            if nd.ast is not None and any(x is call for x in ast.walk(nd.ast)):
                nid = nd.id
        defs = [d for d in cfg.reaching_defs().get(nid, {}).get(var, ()) if d >= 0] if nid is not None else []

        def inline(e, depth=0):
            """names replaced by their (single) defining expressions, two levels deep"""
            out = [e]
            if depth < 2:
                for nm in names_in(e):
                    vs = [st.value for st in ast.walk(f.node) if isinstance(st, ast.Assign)
                          and len(st.targets) == 1 and isinstance(st.targets[0], ast.Name) and st.targets[0].id == nm]
                    for v in vs:
                        out += inline(v, depth + 1)
            return out

        def is_total(e):
            return isinstance(e, ast.Name) and bool(set(flow.env[f].get(e.id, ())) & {"NF", "NG", "NFEAT", "NGRP"}) \
                or (isinstance(e, ast.Name) and e.id in ("n_features", "n_groups"))

        def has_support(e):
            for x in inline(e):
                for sub in ast.walk(x):
                    if isinstance(sub, ast.Call) and isinstance(sub.func, ast.Attribute) and sub.func.attr == "sum" \
                            and ("generalized_support" in ast.unparse(sub) or "!= 0" in ast.unparse(sub)):
                        return True
            return False

        def bounded_below(e):
            """e >= min(total, support term)"""
            if isinstance(e, ast.Call) and ast.unparse(e.func) in ("max", "np.maximum"):
                return any(bounded_below(a) or has_support(a) for a in e.args)
            if isinstance(e, ast.Call) and ast.unparse(e.func) in ("min", "np.minimum"):
                others = [a for a in e.args if not is_total(a)]
                return bool(others) and all(bounded_below(a) or has_support(a) for a in others)
            return False
        # unpenalised coordinates are forced into the working set (`opt[unpen] = np.inf`): the size
        # must leave room for all of them on top of the p0 scored ones
        unpen_count = None
        for st in ast.walk(f.node):
            if isinstance(st, ast.Assign) and len(st.targets) == 1 and isinstance(st.targets[0], ast.Name) \
                    and isinstance(st.value, ast.Call) and isinstance(st.value.func, ast.Attribute) \
                    and st.value.func.attr == "sum" and isinstance(st.value.func.value, ast.Name):
                src = st.value.func.value.id
                forced = any(isinstance(x, ast.Assign) and isinstance(x.targets[0], ast.Subscript)
                             and isinstance(x.targets[0].slice, ast.Name) and x.targets[0].slice.id == src
                             and is_inf(x.value) for x in ast.walk(f.node))
                if forced:
                    unpen_count = st.targets[0].id

        def room_for_unpen(e):
            if unpen_count is None:
                return True
            for sub in ast.walk(e):
                if isinstance(sub, ast.BinOp) and isinstance(sub.op, ast.Add) and unpen_count in names_in(sub) \
                        and not any(isinstance(x, ast.BinOp) and isinstance(x.op, ast.Sub) for x in ast.walk(sub)):
                    return True
            return False
        for d in defs:
            a = cfg.nodes[d].ast
            if not isinstance(a, ast.Assign):
                continue
            n += 1
            if bounded_below(a.value) and not room_for_unpen(a.value):
                ctx.ob(rule, f"{f.fq}::{norm_src(a)[:70]}", False,
                       what=f"`{norm_src(a)[:80]}`: the unpenalised coordinates are forced into the working set "
                            f"(`{unpen_count}` of them) but the size has no `+ {unpen_count}` term: with more "
                            "unpenalised coordinates than p0 some of them are never updated",
                       loc=loc(f, a))
                continue
            ctx.ob(rule, f"{f.fq}::{norm_src(a)[:70]}", bounded_below(a.value),
                   what=f"`{norm_src(a)[:80]}` is the size the working set is cut to, and it is not bounded "
                        "below by the support size up to the total number of coordinates: coordinates of the "
                        "current support can be left out of the working set (a warm start with a large support, "
                        "more features than the cap)", loc=loc(f, a))
    ctx.floor(rule, n, scope.get("floor", 4))


def r_inf_hyper(A, ctx, scope, rule="R-INFPARAM"):
    """C14 / C19: hyper-parameters whose documented range includes +inf"""
    ctx.rule(rule, "gamma = +inf is a documented value of the MCP family (it is the L1 limit): no expression "
             "of its penalties and prox helpers divides a term that is multiplied by gamma by a term that "
             "contains gamma - at gamma = inf that is inf / inf = NaN although the two gammas cancel on "
             "paper (w / gamma, comparisons with alpha * gamma and gamma / (gamma - stepsize)-free forms "
             "are fine)")
    targets = []
    for cls in A.prog.penalties:
        if "gamma" in A.prog.init_params(cls) and "MCP" in cls.name.upper():
            targets += [m for m in cls.methods.values() if m.name not in ("__init__", "get_spec", "params_to_dict")]
    m = A.prog.modules.get("skglm.utils.prox_funcs")
    if m:
        targets += [f for f in m.functions.values() if "gamma" in f.params and "MCP" in f.name]
    n = 0

    def mult_by_gamma(e):
        """gamma occurs as a factor of a product inside e"""
        for sub in ast.walk(e):
            if isinstance(sub, ast.BinOp) and isinstance(sub.op, ast.Mult):
                for side in (sub.left, sub.right):
                    txt = ast.unparse(side)
                    if txt in ("gamma", "self.gamma"):
                        return True
        return False
    for f in targets:
        n += 1
        bad = None
        for node in ast.walk(f.node):
            if isinstance(node, ast.BinOp) and isinstance(node.op, ast.Div):
                den = ast.unparse(node.right)
                if ("gamma" in den) and mult_by_gamma(node.left):
                    bad = node
        ctx.ob(rule, f"{f.fq}", bad is None,
               what=(f"{f.qualname}: `{norm_src(bad)[:80]}` multiplies by gamma and divides by gamma: with the "
                     "documented value gamma = np.inf this is inf / inf = NaN (score, stopping criterion NaN; "
                     "the solver uses its whole budget) although MCP with gamma = inf is the L1 penalty") if bad else "",
               loc=loc(f, bad) if bad else None)
    ctx.floor(rule, n, scope.get("floor", 6))


def r_wscut(A, ctx, scope, rule="R-WSCUT"):
    """C20 / C13: the working set and the size used for buffers derived from it stay in step"""
    ctx.rule(rule, "working set and working-set size in step: wherever the size variable the working set was "
             "cut with (`argpartition(opt, -k)[-k:]`) is read again (Anderson buffers, reshapes, the `== "
             "n_features` exit), the working set that reaches that point is the `[-k:]` cut by the same "
             "definition of k - or k was recomputed as the length of the working set after it; a working set "
             "filtered or extended afterwards leaves buffers sized for another length")
    n = 0
    for name, sf in sorted(A.facts.items()):
        f = sf.f
        cut = None
        for st in ast.walk(f.node):
            if isinstance(st, ast.Assign) and len(st.targets) == 1 and isinstance(st.targets[0], ast.Name):
                for c in ast.walk(st.value):
                    if isinstance(c, ast.Call) and ast.unparse(c.func).endswith("argpartition") and len(c.args) >= 2 \
                            and isinstance(c.args[1], ast.UnaryOp) and isinstance(c.args[1].operand, ast.Name):
                        cut = (st.targets[0].id, c.args[1].operand.id)
        if cut is None:
            continue
        ws, k = cut
        cfg = cfg_of(f)
        rd = cfg.reaching_defs()

        def defs_at(nid, var):
            return frozenset(d for d in rd.get(nid, {}).get(var, ()) if d >= 0)

        def is_cut(a):
            """ws = <...>[-k:]"""
            if not (isinstance(a, ast.Assign) and isinstance(a.value, ast.Subscript)):
                return False
            sl = a.value.slice
            return isinstance(sl, ast.Slice) and sl.upper is None and isinstance(sl.lower, ast.UnaryOp) \
                and isinstance(sl.lower.op, ast.USub) and isinstance(sl.lower.operand, ast.Name) \
                and sl.lower.operand.id == k

        def is_len_of_ws(a):
            return isinstance(a, ast.Assign) and ast.unparse(a.value) in (f"len({ws})", f"{ws}.shape[0]", f"{ws}.size")
        for nd in cfg.stmts():
            root = nd.ast.iter if nd.kind == "for" else (nd.ast.test if nd.kind in ("if", "while") else nd.ast)
            if root is None:
                continue
            # only reads that size something: allocation shapes and reshapes
            shaped = [c for c in ast.walk(root) if isinstance(c, ast.Call) and (
                ast.unparse(c.func) in ("np.zeros", "np.empty", "np.ones", "np.full")
                or (isinstance(c.func, ast.Attribute) and c.func.attr in ("reshape", "resize")))]
            if not any(isinstance(x, ast.Name) and x.id == k and isinstance(x.ctx, ast.Load)
                       for c in shaped for x in ast.walk(c)):
                continue
            wdefs = defs_at(nd.id, ws)
            kdefs = defs_at(nd.id, k)
            if not wdefs:
                continue            # the size is read before any working set exists (its own cut)
            bad = None
            for d in sorted(wdefs):
                a = cfg.nodes[d].ast
                if d == nd.id:
                    continue
                if is_cut(a) and defs_at(d, k) == kdefs:
                    continue
                if all(is_len_of_ws(cfg.nodes[kd].ast) and defs_at(kd, ws) == frozenset([d]) for kd in kdefs) and kdefs:
                    continue
                bad = a
            n += 1
            ctx.ob(rule, f"{f.fq}::{norm_src(root)[:60]}", bad is None,
                   what=(f"`{norm_src(root)[:70]}` reads `{k}`, but the working set reaching it was defined by "
                         f"`{norm_src(bad)[:70]}`, which is not the `[-{k}:]` cut (nor is `{k}` recomputed from "
                         f"its length): buffers and reshapes sized with `{k}` no longer match `{ws}`") if bad is not None else "",
                   loc=loc(f, root))
    ctx.floor(rule, n, scope.get("floor", 3))


def r_grppair(A, ctx, scope, rule="R-GRPPAIR"):
    """C11: the group structure the user gave is the one the penalty and the datafit receive"""
    ctx.rule(rule, "group structure plumbing: the pair (grp_indices, grp_ptr) returned by grp_converter reaches "
             "the penalty and datafit constructors as returned - neither name is rebound in between, and every "
             "`grp_ptr=` / `grp_indices=` constructor argument is one of the two names; the user's per-group "
             "`weights` are positionally tied to the groups of that pair (dropping or merging groups on one "
             "side pairs weights[g] with another group)")
    n = 0
    for f in A.prog.all_functions():
        if not f.module.name.startswith("skglm.") or ".tests" in f.module.name:
            continue
        for st in ast.walk(f.node):
            if not (isinstance(st, ast.Assign) and isinstance(st.value, ast.Call)
                    and ast.unparse(st.value.func).endswith("grp_converter")
                    and isinstance(st.targets[0], ast.Tuple) and len(st.targets[0].elts) == 2
                    and all(isinstance(e, ast.Name) for e in st.targets[0].elts)):
                continue
            gi, gp = (e.id for e in st.targets[0].elts)
            n += 1
            bad = None
            for x in ast.walk(f.node):
                if x is st:
                    continue
                tg = []
                if isinstance(x, ast.Assign):
                    for t in x.targets:
                        tg += [e for e in ast.walk(t) if isinstance(e, ast.Name) and isinstance(e.ctx, ast.Store)]
                        tg += [t.value for t in [t] if isinstance(t, ast.Subscript) and isinstance(t.value, ast.Name)]
                elif isinstance(x, ast.AugAssign):
                    t = x.target
                    tg += [t] if isinstance(t, ast.Name) else ([t.value] if isinstance(t, ast.Subscript) and isinstance(t.value, ast.Name) else [])
                if any(e.id in (gi, gp) for e in tg):
                    bad = x
            ctx.ob(rule, f"{f.fq}::rebinding", bad is None,
                   what=(f"{f.qualname}: `{norm_src(bad)[:70]}` changes one side of the (grp_indices, grp_ptr) "
                         "pair after grp_converter returned it: per-group weights and the other array still "
                         "describe the original groups, so a group is penalised with another group's weight") if bad is not None else "",
                   loc=loc(f, bad) if bad is not None else None)
            for c in ast.walk(f.node):
                if isinstance(c, ast.Call):
                    for kw in c.keywords:
                        if kw.arg in ("grp_ptr", "grp_indices"):
                            want = gp if kw.arg == "grp_ptr" else gi
                            n += 1
                            ctx.ob(rule, f"{f.fq}::{ast.unparse(c.func)}({kw.arg}=)", isinstance(kw.value, ast.Name) and kw.value.id == want,
                                   what=f"{f.qualname}: `{ast.unparse(c.func)}({kw.arg}={norm_src(kw.value)[:30]})` does not "
                                        f"receive `{want}`, the array grp_converter returned for that role",
                                   loc=loc(f, c))
    ctx.floor(rule, n, scope.get("floor", 5))


def r_lazyset(A, ctx, scope, rule="R-LAZYSET"):
    """C06 / C18: lazy attributes of datafits are (re)assigned by every initialisation that can use them"""
    ctx.rule(rule, "lazy attributes are assigned on every path of the initialisation that assigns them at all: "
             "for each `self.a = ...` in initialize / initialize_sparse, no path from the innermost "
             "hyper-parameter guard around it (`if self.use_efron:`), or from the entry when there is none, "
             "reaches a return without passing through an assignment of `self.a` - an early return leaves the "
             "attribute of the previous initialisation (other data) in place, and the accessors read it")
    n = 0
    for cls in A.prog.datafits + A.prog.penalties:
        init = cls.find_method("__init__")
        knobs = set(A.prog.init_params(cls)) if init is not None else set()
        for mname in ("initialize", "initialize_sparse"):
            m = cls.methods.get(mname)
            if m is None:
                continue
            cfg = cfg_of(m)
            assigns = {}
            for nd in cfg.stmts():
                a = nd.ast
                if isinstance(a, ast.Assign):
                    for t in a.targets:
                        for e in (t.elts if isinstance(t, ast.Tuple) else [t]):
                            if isinstance(e, ast.Attribute) and isinstance(e.value, ast.Name) and e.value.id == "self":
                                assigns.setdefault(e.attr, []).append(nd.id)
            for attr, nodes in sorted(assigns.items()):
                n += 1
                # innermost knob guard dominating every assignment of the attribute
                starts = None
                for nid in nodes:
                    gs = [(t, lab, tid) for t, lab, tid in cfg.facts_at(nid)
                          if isinstance(t, ast.expr) and any(
                              isinstance(x, ast.Attribute) and isinstance(x.value, ast.Name) and x.value.id == "self"
                              and x.attr in knobs for x in ast.walk(t))]
                    key = tuple((ast.unparse(t), lab) for t, lab, _ in gs)
                    starts = key if starts is None or starts == key else ()
                # start nodes: the edge nodes of the innermost guard (same label), else the entry
                start_nodes = [cfg.entry]
                if starts:
                    txt, lab = starts[-1]
                    cand = [x.id for x in cfg.nodes if x.kind == "edge" and x.label == lab and x.ast is not None
                            and isinstance(x.ast, ast.expr) and ast.unparse(x.ast) == txt]
                    if cand:
                        start_nodes = cand
                blocked = set(nodes)
                seen, todo, leak = set(), list(start_nodes), None
                while todo:
                    x = todo.pop()
                    if x in seen or x in blocked:
                        continue
                    seen.add(x)
                    if x == cfg.exit:
                        leak = x
                        break
                    if x in cfg.raises:
                        continue
                    todo += cfg.succ[x]
                how = ""
                if leak is not None:
                    rets = [r for r in cfg.returns if r in seen]
                    how = (f"`return` at line {cfg.nodes[rets[0]].ast.lineno}" if rets else "the end of the method")
                ctx.ob(rule, f"{m.fq}::self.{attr}", leak is None,
                       what=f"{m.qualname} assigns `self.{attr}` but a path "
                            f"{'under `' + starts[-1][0] + '` ' if starts else ''}reaches {how} without assigning it: "
                            "when the same (compiled) object is initialised again on other data the attribute still "
                            "describes the previous data, and value / gradient accessors read it",
                       loc=loc(m, cfg.nodes[nodes[0]].ast))
    for k, v in CALLER_INITIALISED.items():
        ctx.note(f"{rule}: {k} exempt: {v}")
    ctx.floor(rule, n, scope.get("floor", 10))


def r_accessor_pure(A, ctx, scope, rule="R-ACCESSOR-PURE"):
    """C06 / C18: accessors of datafits and penalties leave the object unchanged"""
    ctx.rule(rule, "accessors do not write the object: outside __init__ / initialize / initialize_sparse no method "
             "of a datafit or penalty stores into `self.<attr>` - neither by assignment, nor elementwise, nor "
             "through a local alias (`buf = self.a; buf[i] = ...`).  A result written into a buffer attribute "
             "and returned is overwritten by the next call (two gradients held at once are the same array), "
             "and the value depends on the call history")
    n = 0
    for cls in A.prog.datafits + A.prog.penalties:
        for m in cls.methods.values():
            if m.name in ("__init__", "initialize", "initialize_sparse", "get_spec", "params_to_dict"):
                continue
            n += 1
            alias = set()
            for st in ast.walk(m.node):
                if isinstance(st, ast.Assign) and len(st.targets) == 1 and isinstance(st.targets[0], ast.Name) \
                        and isinstance(st.value, ast.Attribute) and isinstance(st.value.value, ast.Name) \
                        and st.value.value.id == "self":
                    alias.add(st.targets[0].id)
            bad = None
            for st in ast.walk(m.node):
                tgs = st.targets if isinstance(st, ast.Assign) else [st.target] if isinstance(st, ast.AugAssign) else []
                for t in tgs:
                    for e in (t.elts if isinstance(t, ast.Tuple) else [t]):
                        sub = False
                        while isinstance(e, ast.Subscript):
                            e, sub = e.value, True
                        if isinstance(e, ast.Attribute) and isinstance(e.value, ast.Name) and e.value.id == "self":
                            bad = st
                        if sub and isinstance(e, ast.Name) and e.id in alias:
                            bad = st
                if isinstance(st, ast.Call) and isinstance(st.func, ast.Attribute) and st.func.attr in ("fill", "sort", "resize") \
                        and isinstance(st.func.value, ast.Attribute) and isinstance(st.func.value.value, ast.Name) \
                        and st.func.value.value.id == "self":
                    bad = st
            ctx.ob(rule, f"{m.fq}", bad is None,
                   what=(f"{m.qualname}: `{norm_src(bad)[:70]}` writes into the object's own state inside an accessor: "
                         "the array handed out by one call is overwritten by the next (results held across calls "
                         "alias each other) and accessor values depend on earlier calls") if bad is not None else "",
                   loc=loc(m, bad) if bad is not None else None)
    ctx.floor(rule, n, scope.get("floor", 200))


# datafits whose initialisation is the caller's documented duty (the solver cannot do it: the
# attributes are derived from a two-column target the solver treats as opaque)
CALLER_INITIALISED = {
    "Cox": "tie / risk-set matrices are built by the caller: CoxEstimator.fit and the documented usage call "
           "datafit.initialize(X, y) before solver.solve",
}


def r_lazyread(A, ctx, scope, rule="R-LAZYREAD"):
    """C14 / C18: a solver that never initialises the datafit must not reach its lazy attributes"""
    ctx.rule(rule, "datafit typestate, solvers without initialisation: a solver module that contains no call to "
             "initialize / initialize_sparse calls only datafit methods that do not read (directly or through "
             "`self.<method>()`) an attribute assigned by initialize / initialize_sparse alone - such an "
             "attribute holds the cache of whatever data the object was last initialised on (or does not "
             "exist), so the solver would silently optimise another problem than the (X, y) it was given")
    n = 0
    solver_mods = {}
    for cls in A.prog.solvers:
        solver_mods.setdefault(cls.module, []).append(cls)
    for mod, classes in sorted(solver_mods.items(), key=lambda kv: kv[0].relpath):
        called, inits = {}, False
        for node in ast.walk(mod.tree):
            if isinstance(node, ast.Call) and isinstance(node.func, ast.Attribute) \
                    and isinstance(node.func.value, ast.Name) and node.func.value.id == "datafit":
                if node.func.attr in ("initialize", "initialize_sparse"):
                    inits = True
                called.setdefault(node.func.attr, node)
        if inits or not called:
            continue
        for D in A.prog.datafits:
            if D.name in CALLER_INITIALISED:
                continue
            lazy = set()
            for iname in ("initialize", "initialize_sparse"):
                m = D.find_method(iname)
                if m is None:
                    continue
                for a in ast.walk(m.node):
                    if isinstance(a, (ast.Assign, ast.AugAssign, ast.AnnAssign)):
                        tg = a.targets if isinstance(a, ast.Assign) else [a.target]
                        for t in tg:
                            for e in (t.elts if isinstance(t, ast.Tuple) else [t]):
                                if isinstance(e, ast.Attribute) and isinstance(e.value, ast.Name) and e.value.id == "self":
                                    lazy.add(e.attr)
            ctor = D.find_method("__init__")
            if ctor is not None:
                for a in ast.walk(ctor.node):
                    if isinstance(a, ast.Attribute) and isinstance(a.ctx, ast.Store) \
                            and isinstance(a.value, ast.Name) and a.value.id == "self":
                        lazy.discard(a.attr)
            if not lazy:
                continue

            def reads(m, seen):
                out = {}
                if m is None or m.name in seen:
                    return out
                seen.add(m.name)
                for x in ast.walk(m.node):
                    if isinstance(x, ast.Attribute) and isinstance(x.value, ast.Name) and x.value.id == "self":
                        if isinstance(x.ctx, ast.Load) and x.attr in lazy:
                            out.setdefault(x.attr, (m, x))
                        elif isinstance(x.ctx, ast.Load) and D.find_method(x.attr) is not None:
                            for k, v in reads(D.find_method(x.attr), seen).items():
                                out.setdefault(k, v)
                return out
            for mname, site in sorted(called.items()):
                m = D.find_method(mname)
                if m is None or m.cls.name.startswith("Base"):
                    continue
                n += 1
                r = reads(m, set())
                names = ", ".join(c.name for c in classes)
                ctx.ob(rule, f"{mod.relpath}::{D.name}.{mname}", not r,
                       what=f"{names} never calls datafit.initialize but calls datafit.{mname} "
                            f"({mod.relpath}:{site.lineno}); {D.name}.{mname} reads "
                            f"{', '.join('self.' + k for k in sorted(r))}, assigned only by {D.name}.initialize"
                            f"[_sparse]: the value cached for the data of an earlier initialisation (or nothing) "
                            f"is used instead of the (X, y) of this solve",
                       loc=(f"{r[sorted(r)[0]][0].module.relpath}:{r[sorted(r)[0]][1].lineno}" if r else None))
    for k, v in CALLER_INITIALISED.items():
        ctx.note(f"{rule}: {k} exempt: {v}")
    ctx.floor(rule, n, scope.get("floor", 10))
