"""R-TARGET-DOMAIN: target-domain guards of datafits.

A datafit method that evaluates `np.log(e)` or divides by `e`, where `e` is an expression of the
target `y` alone, is undefined (inf / NaN) for targets outside the domain of that operation.  Zero
and constant targets are legitimate input (C19): the datafit must then *refuse* them with an
explanatory error in `initialize` and `initialize_sparse` (the two entry points every solver
calls before the first evaluation), for every sign of y that leaves the domain.

Decision procedure (no execution of repository code): the domain expression and the test of every
raising `if` of the initialisers are evaluated on the three sign witnesses y in {-1, 0, 1} by a
small interpreter over comparisons / boolean operators / arithmetic / np.any / np.all / np.min /
np.max (reductions are the identity on a witness that stands for "some entry of y has this sign").
A construct outside that fragment is undecided (exit 2 through the floor), never a verdict.
"""
import ast
import math

from ..model import AnalysisError  # noqa: F401

WITNESSES = (-1.0, 0.0, 1.0)
REDUCTIONS = {"any", "all", "min", "max", "amin", "amax"}


class _Undecided(Exception):
    pass


def _ev(node, env):
    if isinstance(node, ast.Constant) and isinstance(node.value, (int, float, bool)):
        return node.value
    if isinstance(node, ast.Name):
        if node.id in env:
            return env[node.id]
        raise _Undecided(node.id)
    if isinstance(node, ast.UnaryOp):
        v = _ev(node.operand, env)
        if isinstance(node.op, ast.Not):
            return not v
        if isinstance(node.op, ast.USub):
            return -v
        if isinstance(node.op, ast.UAdd):
            return +v
        if isinstance(node.op, ast.Invert) and isinstance(v, bool):
            return not v
        raise _Undecided(ast.dump(node.op))
    if isinstance(node, ast.BoolOp):
        vals = [_ev(v, env) for v in node.values]
        return all(vals) if isinstance(node.op, ast.And) else any(vals)
    if isinstance(node, ast.BinOp):
        a, b = _ev(node.left, env), _ev(node.right, env)
        if isinstance(node.op, ast.Add):
            return a + b
        if isinstance(node.op, ast.Sub):
            return a - b
        if isinstance(node.op, ast.Mult):
            return a * b
        if isinstance(node.op, ast.BitOr) and isinstance(a, bool) and isinstance(b, bool):
            return a or b
        if isinstance(node.op, ast.BitAnd) and isinstance(a, bool) and isinstance(b, bool):
            return a and b
        raise _Undecided(ast.dump(node.op))
    if isinstance(node, ast.Compare):
        left = _ev(node.left, env)
        for op, r in zip(node.ops, node.comparators):
            right = _ev(r, env)
            ok = {ast.Lt: left < right, ast.LtE: left <= right, ast.Gt: left > right,
                  ast.GtE: left >= right, ast.Eq: left == right, ast.NotEq: left != right}.get(type(op))
            if ok is None:
                raise _Undecided(ast.dump(op))
            if not ok:
                return False
            left = right
        return True
    if isinstance(node, ast.Call):
        fn = node.func
        name = fn.attr if isinstance(fn, ast.Attribute) else (fn.id if isinstance(fn, ast.Name) else None)
        if name in REDUCTIONS and len(node.args) == 1 and not node.keywords:
            return _ev(node.args[0], env)
        if isinstance(fn, ast.Attribute) and fn.attr in REDUCTIONS and not node.args:
            return _ev(fn.value, env)          # y.min(), (y <= 0).any()
        if name in ("abs", "fabs") and len(node.args) == 1:
            return abs(_ev(node.args[0], env))
        raise _Undecided(ast.unparse(node)[:40])
    raise _Undecided(type(node).__name__)


def _names(node):
    return {n.id for n in ast.walk(node) if isinstance(n, ast.Name)} - {"np", "numpy", "math"}


def _raises(body):
    return any(isinstance(n, ast.Raise) for st in body for n in ast.walk(st))


def guard_fires(func, yname, yval):
    """True if some top-level raising `if` of the initialiser fires on the witness; None when a
    raising test is outside the evaluated fragment."""
    fired = False
    undecided = None
    for st in func.node.body:
        if not isinstance(st, ast.If):
            continue
        for test, body in ((st.test, st.body), (ast.UnaryOp(op=ast.Not(), operand=st.test), st.orelse)):
            if not body or not _raises(body):
                continue
            try:
                if _ev(test, {yname: yval}):
                    fired = True
            except _Undecided as e:
                undecided = str(e)
    if fired:
        return True
    return None if undecided else False


def domain_sites(cls):
    """(method FuncInfo, node, kind, expr) for log / division sites whose operand depends on the
    target parameter alone."""
    out = []
    for name, f in cls.all_methods().items():
        if name in ("initialize", "initialize_sparse", "__init__", "get_spec", "params_to_dict"):
            continue
        ycands = [p for p in f.params if p in ("y", "Y")]
        if not ycands:
            continue
        yname = ycands[0]
        for node in ast.walk(f.node):
            if isinstance(node, ast.Call) and isinstance(node.func, ast.Attribute) \
                    and node.func.attr in ("log", "log2", "log10", "sqrt") and len(node.args) == 1:
                e = node.args[0]
                if _names(e) == {yname}:
                    out.append((f, node, node.func.attr, e, yname))
            elif isinstance(node, ast.BinOp) and isinstance(node.op, ast.Div):
                e = node.right
                if _names(e) == {yname} and not (isinstance(e, ast.Call) and ast.unparse(e.func) == "len"):
                    out.append((f, node, "div", e, yname))
    return out


def _outside(kind, v):
    if kind == "div":
        return v == 0
    if kind == "sqrt":
        return v < 0
    return v <= 0          # log family


def r_target_domain(A, ctx, scope, rule="R-TARGET-DOMAIN"):
    ctx.rule(rule, "a datafit that takes log / sqrt of, or divides by, an expression of the target y "
             "alone must refuse (raise in initialize and initialize_sparse) every sign of y that leaves "
             "the domain: zero and constant targets are legitimate input and must not yield inf / NaN")
    n = 0
    for cls in A.prog.datafits:
        sites = domain_sites(cls)
        if not sites:
            continue
        for f, node, kind, e, yname in sites:
            bad = []
            try:
                for v in WITNESSES:
                    ev = _ev(e, {yname: v})
                    if _outside(kind, ev):
                        bad.append(v)
            except _Undecided as u:
                ctx.note(f"{rule}: {f.fq}: operand `{ast.unparse(e)[:40]}` outside the evaluated fragment ({u})")
                continue
            if not bad:
                continue
            for init in ("initialize", "initialize_sparse"):
                g = cls.find_method(init)
                if g is None:
                    continue
                gy = [p for p in g.params if p in ("y", "Y")]
                if not gy:
                    continue
                missing, und = [], False
                for v in bad:
                    r = guard_fires(g, gy[0], v)
                    if r is None:
                        und = True
                    elif not r:
                        missing.append(v)
                if und and not missing:
                    ctx.note(f"{rule}: {g.fq}: a raising test is outside the evaluated fragment")
                    continue
                n += 1
                sign = {-1.0: "negative", 0.0: "zero", 1.0: "positive"}
                ctx.ob(rule, f"{cls.fq}::{init}::{f.name}::{kind}({ast.unparse(e)[:30]})", not missing,
                       detail=f"{kind} of `{ast.unparse(e)[:30]}` in {f.name}: undefined for "
                              f"{'/'.join(sign[v] for v in bad)} targets; {init} refuses "
                              f"{'all of them' if not missing else 'not all'}",
                       what=f"{cls.name}.{f.name} evaluates {kind}({ast.unparse(e)[:40]}) on the target, "
                            f"undefined for {'/'.join(sign[v] for v in missing)} entries of y, and "
                            f"{cls.name}.{init} does not refuse such targets: a "
                            f"{'zero' if 0.0 in missing else 'negative'} target yields inf / NaN "
                            f"objective values instead of an explanatory error",
                       loc=f"{g.module.relpath}:{g.node.lineno}")
    ctx.floor(rule, n, scope.get("floor", 2))


# ----------------------------------------------------------------------- R-PIECEWISE-CONT
def _num(node, env):
    """numeric evaluation of a branch increment on a witness environment (keys: source text)"""
    key = ast.unparse(node)
    if key in env:
        return env[key]
    if isinstance(node, ast.Constant) and isinstance(node.value, (int, float)):
        return float(node.value)
    if isinstance(node, ast.UnaryOp) and isinstance(node.op, (ast.USub, ast.UAdd)):
        v = _num(node.operand, env)
        return -v if isinstance(node.op, ast.USub) else v
    if isinstance(node, ast.BinOp):
        a, b = _num(node.left, env), _num(node.right, env)
        if isinstance(node.op, ast.Add):
            return a + b
        if isinstance(node.op, ast.Sub):
            return a - b
        if isinstance(node.op, ast.Mult):
            return a * b
        if isinstance(node.op, ast.Div):
            if b == 0:
                raise _Undecided("division by zero on the witness")
            return a / b
        if isinstance(node.op, ast.Pow):
            return a ** b
        raise _Undecided(ast.dump(node.op))
    if isinstance(node, ast.Call) and len(node.args) == 1 and not node.keywords:
        fn = node.func
        name = fn.attr if isinstance(fn, ast.Attribute) else (fn.id if isinstance(fn, ast.Name) else None)
        v = _num(node.args[0], env)
        if name in ("abs", "fabs"):
            return abs(v)
        if name == "sign":
            return (v > 0) - (v < 0)
        if name == "sqrt" and v >= 0:
            return math.sqrt(v)
        if name == "exp":
            return math.exp(v)
        raise _Undecided(ast.unparse(node)[:40])
    if isinstance(node, (ast.Name, ast.Subscript, ast.Attribute)):
        # any other quantity (data entries, sizes): one fixed non-special witness per source text
        h = sum((i + 1) * ord(c) for i, c in enumerate(key)) % 97
        return 0.37 + h / 53.0
    raise _Undecided(type(node).__name__)


def _increment(body):
    """(target text, value expr) of a one-statement branch `t += e` / `t = t + e` / `t -= e`"""
    if len(body) != 1:
        return None
    st = body[0]
    if isinstance(st, ast.AugAssign) and isinstance(st.op, (ast.Add, ast.Sub)):
        v = st.value if isinstance(st.op, ast.Add) else ast.UnaryOp(op=ast.USub(), operand=st.value)
        return ast.unparse(st.target), v
    if isinstance(st, ast.Assign) and len(st.targets) == 1:
        return ast.unparse(st.targets[0]), st.value
    return None


def r_piecewise_cont(A, ctx, scope, rule="R-PIECEWISE-CONT"):
    ctx.rule(rule, "piecewise datafits are continuous where their pieces meet: for every two-armed "
             "`if |r| < t` (or `r < t`) inside a datafit accessor whose arms add a term to the same "
             "accumulator, both terms are equal at r = t (and r = -t under abs) for three witness values "
             "of t and of every other quantity - the documented piecewise losses (Huber) and their "
             "derivatives are continuous at the junction; a constant slip in one arm (delta for delta^2) "
             "breaks the value without touching the gradient")
    n = 0
    for cls in A.prog.datafits:
        for name, f in sorted(cls.methods.items()):
            for node in ast.walk(f.node):
                if not (isinstance(node, ast.If) and node.orelse):
                    continue
                test = node.test
                while isinstance(test, ast.UnaryOp) and isinstance(test.op, ast.Not):
                    test = test.operand          # `if not (c): B else: A` has the same junction
                if not (isinstance(test, ast.Compare) and len(test.ops) == 1
                        and isinstance(test.ops[0], (ast.Lt, ast.LtE, ast.Gt, ast.GtE))):
                    continue
                a, b = _increment(node.body), _increment(node.orelse)
                if a is None or b is None or a[0] != b[0]:
                    continue
                lhs, rhs = test.left, test.comparators[0]
                if isinstance(test.ops[0], (ast.Gt, ast.GtE)):
                    lhs, rhs = rhs, lhs
                    # `t > |r|` is `|r| < t` with the arms in the same order
                under_abs = isinstance(lhs, ast.Call) and len(lhs.args) == 1 and \
                    ast.unparse(lhs.func) in ("abs", "np.abs", "np.fabs", "math.fabs")
                var = lhs.args[0] if under_abs else lhs
                if not isinstance(var, ast.Name) or var.id in _names(rhs):
                    continue
                bad, und = None, None
                tvals = (0.5, 2.0, 3.25)
                if isinstance(rhs, ast.Constant) and isinstance(rhs.value, (int, float)):
                    tvals = (float(rhs.value),)      # a literal junction is its own witness
                for tval in tvals:
                    for sgn in ((1, -1) if under_abs else (1,)):
                        env = {ast.unparse(rhs): tval, var.id: sgn * tval}
                        try:
                            va, vb = _num(a[1], env), _num(b[1], env)
                        except (_Undecided, OverflowError, ZeroDivisionError) as e:
                            und = str(e)
                            continue
                        if abs(va - vb) > 1e-9 * (1 + abs(va) + abs(vb)):
                            bad = (tval, sgn * tval, va, vb)
                if und and bad is None:
                    ctx.note(f"{rule}: {f.fq}: `{ast.unparse(node.test)}` arms outside the evaluated fragment ({und})")
                    continue
                n += 1
                ctx.ob(rule, f"{f.fq}::{ast.unparse(node.test)[:40]}", bad is None,
                       detail="arms agree at the junction on 3 witnesses",
                       what=(f"{cls.name}.{name}: the arms of `if {ast.unparse(node.test)}` add "
                             f"`{ast.unparse(a[1])[:50]}` and `{ast.unparse(b[1])[:60]}`, which differ at the "
                             f"junction ({ast.unparse(rhs)} = {bad[0]}, {var.id} = {bad[1]}: {bad[2]:.6g} vs "
                             f"{bad[3]:.6g}): the piecewise function jumps where its pieces meet, it is not the "
                             f"documented (continuous) loss / derivative") if bad else "",
                       loc=f"{f.module.relpath}:{node.lineno}")
    ctx.floor(rule, n, scope.get("floor", 3))


# --------------------------------------------------------------------------- R-MSGNAMES
def r_msgnames(A, ctx, scope, rule="R-MSGNAMES"):
    ctx.rule(rule, "an explanatory refusal names what was looked up: in the validation helpers, when a "
             "`for a in names: if hasattr(obj, KEY(a, v...)): break / else: record(...)` lookup fails, the "
             "recorded text is built from every variable v the looked-up key depends on (the storage "
             "suffix): otherwise the error for CSC input names the dense method, which exists")
    n = 0
    mod = A.prog.modules.get("skglm.utils.validation")
    if mod is None:
        raise AnalysisError("skglm.utils.validation vanished")
    for f in mod.functions.values():
        for loop in ast.walk(f.node):
            if not (isinstance(loop, ast.For) and loop.orelse):
                continue
            keys = [c for c in ast.walk(loop) if isinstance(c, ast.Call) and isinstance(c.func, ast.Name)
                    and c.func.id == "hasattr" and len(c.args) == 2]
            if not keys:
                continue
            tgt = {x.id for x in ast.walk(loop.target) if isinstance(x, ast.Name)}
            need = set()
            for k in keys:
                need |= _names(k.args[1]) - tgt
            for st in loop.orelse:
                for call in ast.walk(st):
                    if isinstance(call, ast.Call) and isinstance(call.func, ast.Attribute) and call.func.attr == "append":
                        n += 1
                        have = set()
                        for a in call.args:
                            have |= _names(a)
                        # a recorded name may have been built beforehand: follow local definitions
                        for _ in range(4):
                            more = set()
                            for st2 in ast.walk(f.node):
                                if isinstance(st2, ast.Assign):
                                    tn = {x.id for t in st2.targets for x in ast.walk(t) if isinstance(x, ast.Name)}
                                    if tn & have:
                                        more |= _names(st2.value)
                            if more <= have:
                                break
                            have |= more
                        miss = sorted(need - have)
                        ctx.ob(rule, f"{f.fq}::{ast.unparse(call)[:60]}", not miss,
                               what=f"{f.name}: the failed lookup `{ast.unparse(keys[0])}` depends on "
                                    f"`{', '.join(miss)}` but the recorded missing name "
                                    f"`{ast.unparse(call)[:70]}` does not: for sparse input the error names the "
                                    f"dense method (which exists) instead of the missing `*_sparse` one - the "
                                    f"refusal is no longer explanatory",
                               loc=f"{f.module.relpath}:{call.lineno}")
    ctx.floor(rule, n, scope.get("floor", 1))


# --------------------------------------------------------------------------- R-BLOCKBOUND
def r_blockbound(A, ctx, scope, rule="R-BLOCKBOUND"):
    ctx.rule(rule, "block curvature constants computed inside solver kernels: an array whose entries are used "
             "as `1 / L[k]` step sizes and that is filled inside a loop over the indices of a block must be an "
             "upper bound of the block's largest eigenvalue - a squared spectral norm (`norm(.., ord=2) ** 2`), "
             "a squared Frobenius norm or a running sum (trace); combining per-column terms with `max` gives the "
             "largest diagonal entry, a LOWER bound of the largest eigenvalue (equal only for orthogonal "
             "columns): on duplicated / collinear columns the block step is too long and the iterates diverge")
    n = 0
    for mname, mod in sorted(A.prog.modules.items()):
        if not mname.startswith("skglm.solvers"):
            continue
        for f in mod.functions.values():
            steps = set()
            for x in ast.walk(f.node):
                if isinstance(x, ast.BinOp) and isinstance(x.op, ast.Div) and isinstance(x.right, ast.Subscript) \
                        and isinstance(x.right.value, ast.Name) and isinstance(x.left, ast.Constant):
                    steps.add(x.right.value.id)
            for st in ast.walk(f.node):
                if not (isinstance(st, ast.Assign) and len(st.targets) == 1 and isinstance(st.targets[0], ast.Subscript)
                        and isinstance(st.targets[0].value, ast.Name) and st.targets[0].value.id in steps):
                    continue
                L = st.targets[0].value.id
                rhs = st.value
                is_max = isinstance(rhs, ast.Call) and ast.unparse(rhs.func) in ("max", "np.maximum", "np.max") \
                    and any(isinstance(a, ast.Subscript) and isinstance(a.value, ast.Name) and a.value.id == L
                            for a in rhs.args)
                is_max = is_max or (isinstance(rhs, ast.Call) and ast.unparse(rhs.func) in ("np.max", "max")
                                    and len(rhs.args) == 1 and not isinstance(rhs.args[0], ast.Name))
                n += 1
                ctx.ob(rule, f"{f.fq}::{ast.unparse(st)[:60]}", not is_max,
                       detail="spectral / Frobenius / trace form" if not is_max else "max of per-column terms",
                       what=f"{f.name}: `{ast.unparse(st)[:90]}` fills the block step constants `{L}` (used as "
                            f"`1 / {L}[k]`) with the largest per-column term: that is the largest diagonal entry of "
                            f"the block Hessian, a lower bound of its spectral norm - on duplicated or collinear "
                            f"columns of one block the step 1 / {L}[k] exceeds 1 / lambda_max by up to the block "
                            f"size and the solver diverges (NaN) instead of converging",
                       loc=f"{f.module.relpath}:{st.lineno}")
    ctx.floor(rule, n, scope.get("floor", 1))
