"""Estimator plumbing and state rules: R-PLUMB, R-WHO, R-OVR, R-LABELKIND, R-PURE,
R-STATE."""
import ast

from ..model import norm_src, names_in, attr_chain, AnalysisError, FuncInfo, ClassInfo
from ..cfg import cfg_of
from .control import loc
from .degenerate import reachable_functions, solver_roots

# reviewed aliases estimator parameter -> constructor formal (one reason each)
ALIAS = {
    ("max_epochs", "max_pn_iter"): "SparseLogisticRegression documents max_epochs as the "
                                   "number of prox-Newton iterations per subproblem",
    ("C", "alpha"): "LinearSVC: the dual box constraint [0, C] is IndicatorBox(alpha=C)",
}


def _self_reads(prog, cls, fn, seen=None):
    """attribute names read as self.<a> in fn and in self.helper() calls (transitive)"""
    seen = seen or set()
    if fn in seen:
        return set()
    seen.add(fn)
    out = set()
    for n in ast.walk(fn.node):
        if isinstance(n, ast.Attribute) and isinstance(n.value, ast.Name) and n.value.id == "self" \
                and isinstance(n.ctx, ast.Load):
            out.add(n.attr)
        if isinstance(n, ast.Call) and isinstance(n.func, ast.Attribute):
            ch = attr_chain(n.func)
            if ch and ch[0] == "self" and len(ch) == 2:
                m = cls.find_method(ch[1])
                if m is not None:
                    out |= _self_reads(prog, cls, m, seen)
            # super().fit(...)
            if isinstance(n.func.value, ast.Call) and ast.unparse(n.func.value.func) == "super":
                for b in cls.bases:
                    m = b.find_method(n.func.attr)
                    if m is not None:
                        out |= _self_reads(prog, b, m, seen)
    return out


def _forwarded_params(flow, prog, cls, fit_m, params):
    out = set()
    todo, seen = [fit_m], set()
    while todo:
        fn = todo.pop()
        if fn in seen:
            continue
        seen.add(fn)
        for call in [c for c in ast.walk(fn.node) if isinstance(c, ast.Call)]:
            kind, callees = flow.resolve_call(fn, call)
            if kind == "self" and callees:
                todo.extend(callees)
            if kind == "ctor":
                for x in ast.walk(call):
                    if isinstance(x, ast.Attribute) and isinstance(x.value, ast.Name) and x.value.id == "self":
                        out.add(x.attr)
                    # locals derived from self.p and then passed on
                    if isinstance(x, ast.Name):
                        for st in ast.walk(fn.node):
                            if isinstance(st, ast.Assign) and any(
                                    isinstance(t, ast.Name) and t.id == x.id for t in st.targets):
                                for y in ast.walk(st.value):
                                    if isinstance(y, ast.Attribute) and isinstance(y.value, ast.Name) \
                                            and y.value.id == "self":
                                        out.add(y.attr)
    return out & set(params)


def _own_init_params(cls):
    init = cls.methods.get("__init__")
    if init is None:
        for c in cls.mro()[1:]:
            if "__init__" in c.methods:
                init = c.methods["__init__"]
                break
    return init.params[1:] if init else []


def r_plumb(A, ctx, scope, rule="R-PLUMB"):
    ctx.rule(rule, "constructor-argument plumbing: (read) every __init__ parameter of an "
             "estimator is read on the fit path and on the path() path; (bind) a bare "
             "`self.p` handed to a repo constructor binds the formal named p or a reviewed "
             "alias; (forward) every repo constructor called in fit/path that has a formal "
             "named like an estimator parameter receives self.<that parameter>; (f32) "
             "datafit clones in estimators.py with float fields pass the float32 flag")
    prog, flow = A.prog, A.flow
    n = 0
    for cls in prog.estimators:
        params = _own_init_params(cls)
        for mname in ("fit", "path"):
            m = cls.find_method(mname)
            if m is None or m.cls not in cls.mro():
                continue
            if mname == "path" and m.cls is not cls and "path" not in cls.methods:
                continue
            reads = _self_reads(prog, cls, m)
            fit_m = cls.find_method("fit")
            fwd = _forwarded_params(flow, prog, cls, fit_m, params) if fit_m is not None else set(params)
            for p in params:
                if mname == "path" and (p == "alpha" or p not in fwd):
                    # path() takes the grid of strengths as an argument and only builds
                    # (datafit, penalty, solver): parameters that fit() does not forward
                    # to a constructor (copy_X, ...) are not its business
                    continue
                n += 1
                ctx.ob(rule, f"{cls.fq}.{mname}::read::{p}", p in reads,
                       what=f"{cls.name}({p}=...) is documented but `self.{p}` is never "
                            f"read by {mname}(): the argument has no effect",
                       loc=loc(m, m.node))
            # constructor calls in this method (+ helpers of the same class)
            todo, seen = [m], set()
            while todo:
                fn = todo.pop()
                if fn in seen:
                    continue
                seen.add(fn)
                for call in [c for c in ast.walk(fn.node) if isinstance(c, ast.Call)]:
                    kind, callees = flow.resolve_call(fn, call)
                    if kind == "self" and callees:
                        todo.extend(callees)
                    if kind != "ctor" or not callees:
                        continue
                    init = callees[0]
                    kcls = init.cls
                    if not (kcls in prog.solvers or kcls in prog.penalties or kcls in prog.datafits):
                        continue
                    bnd, _ = flow.bind(fn, call, init)
                    # (bind)
                    for formal, arg in bnd.items():
                        ch = attr_chain(arg) if isinstance(arg, ast.Attribute) else None
                        if ch and ch[0] == "self" and len(ch) == 2 and ch[1] in params:
                            n += 1
                            ok = formal == ch[1] or (ch[1], formal) in ALIAS
                            ctx.ob(rule, f"{cls.fq}.{fn.name}::bind::{kcls.name}({formal}=self.{ch[1]})", ok,
                                   what=f"`{norm_src(call)[:60]}` binds estimator argument "
                                        f"`{ch[1]}` to `{kcls.name}.{formal}`: a different "
                                        "meaning (e.g. a string option used as a boolean flag "
                                        "is always true)", loc=loc(fn, call))
                    # (forward)
                    for formal in init.call_params():
                        if formal == "alpha" and fn.name == "path":
                            continue     # rewritten from the grid (R-PATH alpha-set)
                        if formal in params:
                            n += 1
                            arg = bnd.get(formal)
                            ok = arg is not None and f"self.{formal}" in ast.unparse(arg)
                            # local variable derived from self.<formal> (weights = ones if None)
                            if not ok and isinstance(arg, ast.Name):
                                for st in ast.walk(fn.node):
                                    if isinstance(st, ast.Assign) and isinstance(st.targets[0], ast.Name) \
                                            and st.targets[0].id == arg.id and f"self.{formal}" in ast.unparse(st.value):
                                        ok = True
                            ctx.ob(rule, f"{cls.fq}.{fn.name}::forward::{kcls.name}.{formal}", ok,
                                   what=f"{cls.name}.{fn.name} builds `{norm_src(call)[:50]}` "
                                        f"without forwarding its own `{formal}` argument "
                                        f"({'passes ' + norm_src(arg) if arg is not None else 'default used'}): "
                                        f"{cls.name}({formal}=...) is ignored on this branch",
                                   loc=loc(fn, call))
    # (f32)
    em = prog.modules.get("skglm.estimators")
    if em is None:
        raise AnalysisError("skglm.estimators missing")
    for fn in list(em.functions.values()) + [m for c in em.classes.values() for m in c.methods.values()]:
        for call in [c for c in ast.walk(fn.node) if isinstance(c, ast.Call)
                     and ast.unparse(c.func) == "compiled_clone" and c.args]:
            a0 = call.args[0]
            kcls = None
            if isinstance(a0, ast.Call):
                r = prog.resolve(fn.module, ast.unparse(a0.func))
                kcls = r if isinstance(r, ClassInfo) else None
            elif isinstance(a0, ast.Name):
                # variable: datafit if named so by a constructor assignment or a parameter
                for st in ast.walk(fn.node):
                    if isinstance(st, ast.Assign) and isinstance(st.targets[0], ast.Name) \
                            and st.targets[0].id == a0.id and isinstance(st.value, ast.Call):
                        r = prog.resolve(fn.module, ast.unparse(st.value.func))
                        if isinstance(r, ClassInfo):
                            kcls = r
                if kcls is None and "DATAFIT_SRC" in flow.env.get(fn, {}).get(a0.id, ()):
                    kcls = "datafit-param"
            is_datafit = kcls == "datafit-param" or (isinstance(kcls, ClassInfo) and kcls in prog.datafits)
            if not is_datafit:
                continue
            if isinstance(kcls, ClassInfo):
                spec = prog.spec_of(kcls) or []
                if not any("float" in t for _, t in spec):
                    continue     # no float field: the flag cannot matter
            n += 1
            flag = call.args[1] if len(call.args) > 1 else next(
                (k.value for k in call.keywords if k.arg == "to_float32"), None)
            ok = flag is not None and "float32" in ast.unparse(flag) and "dtype" in ast.unparse(flag)
            ctx.ob(rule, f"{fn.fq}::f32::{norm_src(call)[:60]}", ok,
                   what=f"`{norm_src(call)[:60]}` compiles the datafit without the float32 "
                        "flag: float32 input meets a float64 jitclass spec",
                   loc=loc(fn, call))
    ctx.floor(rule, n, scope.get("floor", 150))


def r_who(A, ctx, scope, rule="R-WHO"):
    ctx.rule(rule, "layering: `_solve` is called only from BaseSolver.solve; "
             "run_checks=False is never passed inside the package; every ready-made "
             "estimator's fit ends in _glm_fit(...) or <solver>.solve(...)")
    n = 0
    base_solve = A.prog.BaseSolver.methods.get("solve")
    for f in A.prog.all_functions():
        for c in ast.walk(f.node):
            if isinstance(c, ast.Call) and isinstance(c.func, ast.Attribute):
                if c.func.attr == "_solve":
                    n += 1
                    ctx.ob(rule, f"{f.fq}::_solve-call", f is base_solve,
                           what="`_solve` called directly: the compatibility validation of "
                                "solve() is bypassed", loc=loc(f, c))
                if c.func.attr == "solve":
                    for kw in c.keywords:
                        if kw.arg == "run_checks":
                            n += 1
                            ok = not (isinstance(kw.value, ast.Constant) and kw.value.value is False)
                            ctx.ob(rule, f"{f.fq}::run_checks", ok,
                                   what="solve(run_checks=False) inside the package",
                                   loc=loc(f, c))
    for cls in A.prog.estimators:
        m = cls.find_method("fit")
        if m is None:
            continue
        n += 1
        reads = set()
        todo, seen = [(cls, m)], set()
        ok = False
        while todo:
            k, fn = todo.pop()
            if fn in seen:
                continue
            seen.add(fn)
            for c in ast.walk(fn.node):
                if isinstance(c, ast.Call):
                    nm = ast.unparse(c.func)
                    if nm == "_glm_fit" or nm.endswith(".solve"):
                        ok = True
                    ch = attr_chain(c.func) if isinstance(c.func, ast.Attribute) else None
                    if ch and ch[0] == "self" and len(ch) == 2 and k.find_method(ch[1]):
                        todo.append((k, k.find_method(ch[1])))
        ctx.ob(rule, f"{cls.fq}.fit::delegates", ok,
               what=f"{cls.name}.fit does not end in _glm_fit / solver.solve",
               loc=loc(m, m.node))
    ctx.floor(rule, n, scope.get("floor", 13))


def _glm_fit(A):
    m = A.prog.modules.get("skglm.estimators")
    if m is None or "_glm_fit" not in m.functions:
        raise AnalysisError("anchor _glm_fit missing")
    return m.functions["_glm_fit"]


def r_ovr(A, ctx, scope, rule="R-OVR"):
    ctx.rule(rule, "one-vs-rest assembly: in the multiclass branch of _glm_fit every "
             "fitted attribute that the binary branch derives from the solver output "
             "(coef_, intercept_, dual_coef_) is finally gathered from "
             "multiclass.estimators_")
    f = _glm_fit(A)
    n = 0
    blk = None
    for st in ast.walk(f.node):
        if isinstance(st, ast.If) and any(isinstance(c, ast.Call) and "OneVsRestClassifier" in ast.unparse(c.func)
                                           for c in ast.walk(st)):
            blk = st
    if blk is None:
        raise AnalysisError("_glm_fit: one-vs-rest block not found")
    # attributes set from solver output in the binary part
    binary_attrs = set()
    for st in ast.walk(f.node):
        if isinstance(st, ast.Assign) and not any(x is st for x in ast.walk(blk)):
            for t in st.targets:
                for tt in (t.elts if isinstance(t, ast.Tuple) else [t]):
                    if isinstance(tt, ast.Attribute) and isinstance(tt.value, ast.Name) \
                            and tt.value.id == "model" and tt.attr in ("coef_", "intercept_", "dual_coef_"):
                        binary_attrs.add(tt.attr)
    last = {}
    ovr_seen = False
    for st in blk.body:
        for sub in ast.walk(st):
            if isinstance(sub, ast.Call) and "OneVsRestClassifier" in ast.unparse(sub.func):
                ovr_seen = True
            if isinstance(sub, ast.Assign):
                for t in sub.targets:
                    if isinstance(t, ast.Attribute) and isinstance(t.value, ast.Name) and t.value.id == "model":
                        last[t.attr] = (sub, ovr_seen)
    for attr in sorted(binary_attrs):
        n += 1
        rec = last.get(attr)
        ok = rec is not None and "estimators_" in ast.unparse(rec[0].value)
        ctx.ob(rule, f"{f.fq}::multiclass::{attr}", ok,
               what=f"multiclass branch: `model.{attr}` is "
                    f"`{norm_src(rec[0].value)[:40] if rec else 'never set'}` instead of being "
                    "gathered from the per-class binary fits: row k of the model does not "
                    "carry the k-th binary model's value", loc=loc(f, rec[0] if rec else blk))
    ctx.floor(rule, n, 3)


def r_labelkind(A, ctx, scope, rule="R-LABELKIND"):
    ctx.rule(rule, "label encoding kinds: after `y = LabelEncoder().fit_transform(y)` the "
             "targets are class *indices*; they are never compared with elements of "
             "classes_ (raw labels), and the +/-1 mapping is arithmetic on the indices")
    f = _glm_fit(A)
    enc_names = set()
    for st in ast.walk(f.node):
        if isinstance(st, ast.Assign) and isinstance(st.value, ast.Call) \
                and isinstance(st.value.func, ast.Attribute) and st.value.func.attr == "fit_transform" \
                and isinstance(st.targets[0], ast.Name):
            enc_names.add(st.targets[0].id)
    n = 1
    if not enc_names:
        ctx.ob(rule, f"{f.fq}::encoder", False, what="no LabelEncoder.fit_transform of the "
               "targets: class labels are used raw", loc=loc(f, f.node))
        return
    ctx.ob(rule, f"{f.fq}::encoder", True)
    for c in ast.walk(f.node):
        if isinstance(c, ast.Compare):
            sides = [c.left] + list(c.comparators)
            has_enc = any(isinstance(s, ast.Name) and s.id in enc_names for s in sides)
            has_lab = any("classes_" in ast.unparse(s) and isinstance(s, ast.Subscript) for s in sides)
            if has_enc:
                n += 1
                ctx.ob(rule, f"{f.fq}::compare::{norm_src(c)[:60]}", not has_lab,
                       what=f"`{norm_src(c)[:60]}` compares encoded class indices with raw "
                            "labels: the result depends on how the classes are named",
                       loc=loc(f, c))
    # +/-1 mapping
    for st in ast.walk(f.node):
        if isinstance(st, ast.Assign) and isinstance(st.targets[0], ast.Name) \
                and st.targets[0].id in enc_names and st.targets[0].id in names_in(st.value) \
                and isinstance(st.value, ast.BinOp):
            n += 1
            arith = isinstance(st.value, ast.BinOp) and not any(
                isinstance(x, (ast.Compare, ast.Call)) for x in ast.walk(st.value))
            facts = [t for t, lab, _ in cfg_of(f).facts_at(cfg_of(f).node_of(st)) if isinstance(t, ast.expr)]
            two = any("n_classes_" in ast.unparse(t) for t in facts)
            ctx.ob(rule, f"{f.fq}::pm1::{norm_src(st)}", arith and two,
                   what="binary targets are not mapped to +/-1 by arithmetic on the "
                        "encoded indices under the two-class guard", loc=loc(f, st))
    ctx.floor(rule, n, 2)


# ----------------------------------------------------------------------- C18
PROTECTED = {"X", "Y", "CSC_DATA", "CSC_INDPTR", "CSC_INDICES", "GRP_PTR", "GRP_IDX"}


MAY_ALIAS_CALLS = {"check_array", "check_X_y", "_validate_data", "validate_data", "asarray", "asanyarray",
                   "asfortranarray", "ascontiguousarray", "column_or_1d", "ravel", "reshape",
                   "atleast_1d", "atleast_2d", "squeeze", "view", "check_consistent_length"}


def _may_alias_input(value, name):
    """the right-hand side may evaluate to the very array bound to `name` (validation and
    as-array helpers return their argument when no conversion is needed)"""
    if isinstance(value, ast.Name):
        return value.id == name
    if isinstance(value, ast.Call):
        fn = value.func
        short = fn.attr if isinstance(fn, ast.Attribute) else (fn.id if isinstance(fn, ast.Name) else "")
        if short == "astype":
            copy_false = any(k.arg == "copy" and isinstance(k.value, ast.Constant) and k.value.value is False
                             for k in value.keywords)
            return copy_false and name in names_in(fn)
        if short in MAY_ALIAS_CALLS:
            used = set()
            for a in list(value.args) + [k.value for k in value.keywords]:
                used |= names_in(a)
            if isinstance(fn, ast.Attribute):
                used |= names_in(fn.value)
            return name in used
    if isinstance(value, ast.IfExp):
        return _may_alias_input(value.body, name) or _may_alias_input(value.orelse, name)
    return False


def _aliased_self_attr(value, params):
    """constructor parameter p such that `value` may evaluate to the array self.p itself"""
    if isinstance(value, ast.Attribute) and isinstance(value.value, ast.Name) and value.value.id == "self" \
            and value.attr in params:
        return value.attr
    if isinstance(value, ast.Call):
        fn = value.func
        short = fn.attr if isinstance(fn, ast.Attribute) else (fn.id if isinstance(fn, ast.Name) else "")
        if short in MAY_ALIAS_CALLS:
            for a in list(value.args) + ([fn.value] if isinstance(fn, ast.Attribute) else []):
                r = _aliased_self_attr(a, params)
                if r:
                    return r
        if short == "astype" and any(k.arg == "copy" and isinstance(k.value, ast.Constant)
                                     and k.value.value is False for k in value.keywords):
            return _aliased_self_attr(fn.value, params)
    if isinstance(value, ast.IfExp):
        return _aliased_self_attr(value.body, params) or _aliased_self_attr(value.orelse, params)
    return None


def r_pure(A, ctx, scope, rule="R-PURE"):
    ctx.rule(rule, "effect purity: no function reachable from solve/fit/path mutates in "
             "place a parameter bound to X, y, the CSC triple or the group structure "
             "(effect summaries over the call graph, slot dispatch included); jitclass "
             "methods other than initialize* do not store into self.<array>[...] and no "
             "method stores into a constructor-supplied array; estimator fit/path do not "
             "store into X, y or self.<constructor array>")
    flow, prog = A.flow, A.prog
    n = 0
    funcs = reachable_functions(A, solver_roots(A))
    em = prog.modules.get("skglm.estimators")
    for c in prog.estimators:
        for mname in ("fit", "path"):
            m = c.find_method(mname)
            if m is not None and m not in funcs:
                funcs += reachable_functions(A, [m])
    if em and "_glm_fit" in em.functions:
        funcs += [f for f in reachable_functions(A, [em.functions["_glm_fit"]]) if f not in funcs]
    seen = set()
    for f in funcs:
        if f in seen:
            continue
        seen.add(f)
        env = flow.env.get(f, {})
        for p in flow.mut.get(f, ()):
            roles = env.get(p, set())
            n += 1
            bad = roles & PROTECTED
            ctx.ob(rule, f"{f.fq}::param::{p}", not bad,
                   what=f"{f.qualname} mutates its parameter `{p}` in place, which is bound to "
                        f"{sorted(bad)} (caller's data / hyper-parameter array)",
                   loc=loc(f, f.node))
        # jitclass methods: stores into self.attr[...]
        if f.cls is not None and (f.cls in prog.datafits or f.cls in prog.penalties):
            init_params = set(prog.init_params(f.cls))
            for st in ast.walk(f.node):
                tgts = st.targets if isinstance(st, ast.Assign) else [st.target] if isinstance(st, ast.AugAssign) else []
                for t in tgts:
                    if isinstance(t, ast.Subscript):
                        ch = attr_chain(t.value)
                        if ch and ch[0] == "self" and len(ch) == 2:
                            n += 1
                            ok = f.name.startswith("initialize") and ch[1] not in init_params
                            ctx.ob(rule, f"{f.fq}::self.{ch[1]}[...]", ok,
                                   what=f"{f.qualname} stores into `self.{ch[1]}[...]`"
                                        + (" (a constructor-supplied array shared with the caller)"
                                           if ch[1] in init_params else " outside initialize*"),
                                   loc=loc(f, st))
                    if isinstance(st, ast.AugAssign) and isinstance(t, ast.Attribute):
                        ch = attr_chain(t)
                        if ch and ch[0] == "self" and len(ch) == 2 and ch[1] in init_params:
                            spec = dict(prog.spec_of(f.cls) or [])
                            if "[" in spec.get(ch[1], ""):
                                n += 1
                                ctx.ob(rule, f"{f.fq}::self.{ch[1]}op=", False,
                                       what=f"in-place update of constructor array self.{ch[1]}",
                                       loc=loc(f, st))
        # estimator methods: stores into self.<ctor array>[...] or X/y
        if f.cls is not None and f.cls in prog.estimators or f.name == "_glm_fit":
            params = set(_own_init_params(f.cls)) if f.cls is not None else set()
            for st in ast.walk(f.node):
                tgts = st.targets if isinstance(st, ast.Assign) else [st.target] if isinstance(st, ast.AugAssign) else []
                for t in tgts:
                    if isinstance(t, ast.Subscript):
                        ch = attr_chain(t.value)
                        if ch and ch[0] == "self" and len(ch) == 2 and ch[1] in params:
                            n += 1
                            ctx.ob(rule, f"{f.fq}::self.{ch[1]}[...]", False,
                                   what=f"{f.qualname} writes into the user-supplied "
                                        f"hyper-parameter array self.{ch[1]}", loc=loc(f, st))
                        if isinstance(t.value, ast.Name) and t.value.id in ("X", "y", "Y") \
                                and t.value.id in f.params:
                            # parameter itself (not a rebound validated copy)?
                            # validation helpers return their argument itself when no
                            # conversion is needed: rebinding through them is not a copy
                            # every definition reaching the store must be a definite copy
                            cfg = cfg_of(f)
                            nid = cfg.node_of(st)
                            defs = cfg.reaching_defs().get(nid, {}).get(t.value.id, set()) if nid is not None else set()
                            rebound = bool(defs)
                            for d in defs:
                                a = cfg.nodes[d].ast if d >= 0 else None
                                if not isinstance(a, ast.Assign) or _may_alias_input(a.value, t.value.id):
                                    rebound = False
                            n += 1
                            ctx.ob(rule, f"{f.fq}::{t.value.id}[...]", rebound,
                                   what=f"{f.qualname} writes into its input `{t.value.id}`",
                                   loc=loc(f, st))
    # in-place methods called on the (validated, possibly un-copied) inputs
    from ..flow import INPLACE_METHODS
    for f in seen:
        env = flow.env.get(f, {})
        for c in ast.walk(f.node):
            if isinstance(c, ast.Call) and isinstance(c.func, ast.Attribute) and c.func.attr in INPLACE_METHODS:
                base = c.func.value
                while isinstance(base, (ast.Attribute, ast.Subscript)):
                    base = base.value
                if isinstance(base, ast.Name):
                    roles = env.get(base.id, set())
                    derived = set()
                    for st in ast.walk(f.node):
                        if isinstance(st, ast.Assign) and any(isinstance(t, ast.Name) and t.id == base.id for t in st.targets):
                            for nm in names_in(st.value):
                                derived |= env.get(nm, set())
                    if (roles | derived) & PROTECTED:
                        n += 1
                        ctx.ob(rule, f"{f.fq}::{norm_src(c)[:50]}", False,
                               what=f"`{norm_src(c)[:50]}` modifies in place an array that is (or may "
                                    "alias, when validation does not copy) the caller's data",
                               loc=loc(f, c))
    # entry points (fit / path / solve): no in-place method and no in-place array update on a
    # parameter other than the start point, nor on a may-alias rebinding of it
    START = {"w_init", "Xw_init", "W_init", "XW_init", "coef_init", "self"}
    entry_funcs = []
    for c in list(prog.solvers) + list(prog.estimators):
        for nm in ("fit", "path", "solve", "_solve"):
            m = c.methods.get(nm)
            if m is not None:
                entry_funcs.append(m)
    em_ = prog.modules.get("skglm.estimators")
    if em_ is not None:
        entry_funcs += [fn for fn in em_.functions.values() if {"X", "y"} <= set(fn.params)]
    for f in entry_funcs:
        params = set(f.params) - START
        cfg = cfg_of(f)
        rd = cfg.reaching_defs()

        def may_be_param(nd_id, name):
            """some definition of `name` reaching nd_id is the parameter itself or a may-alias of it"""
            if name not in params:
                return False
            for d in rd.get(nd_id, {}).get(name, ()):
                a = cfg.nodes[d].ast if d >= 0 else None
                if not isinstance(a, ast.Assign):
                    return True                    # the parameter as passed
                if _may_alias_input(a.value, name):
                    return True
            return False
        for nd in cfg.stmts():
            st = nd.ast
            if nd.kind != "stmt" or st is None:
                continue
            hit = None
            if isinstance(st, ast.AugAssign) and isinstance(st.target, ast.Name) and may_be_param(nd.id, st.target.id):
                # array update only: the right-hand side mentions the array itself or a reduction of it
                if st.target.id in names_in(st.value) or any(
                        isinstance(x, ast.Call) and isinstance(x.func, ast.Attribute) for x in ast.walk(st.value)):
                    hit = (st.target.id, f"`{norm_src(st)[:60]}` updates it in place")
            # stores into the storage arrays of a sparse input (`X.data *= ...`, `X.data[k] = ...`)
            tgs = [st.target] if isinstance(st, ast.AugAssign) else (st.targets if isinstance(st, ast.Assign) else [])
            for t in tgs:
                base = t
                while isinstance(base, ast.Subscript):
                    base = base.value
                if isinstance(base, ast.Attribute) and base.attr in ("data", "indices", "indptr") \
                        and isinstance(base.value, ast.Name) and may_be_param(nd.id, base.value.id) \
                        and (isinstance(st, ast.AugAssign) or isinstance(t, ast.Subscript)):
                    hit = (base.value.id, f"`{norm_src(st)[:60]}` rewrites its stored entries in place")
            for c in ast.walk(st):
                if isinstance(c, ast.Call) and isinstance(c.func, ast.Attribute) and c.func.attr in INPLACE_METHODS:
                    base = c.func.value
                    while isinstance(base, (ast.Attribute, ast.Subscript)):
                        base = base.value
                    if isinstance(base, ast.Name) and may_be_param(nd.id, base.id):
                        hit = (base.id, f"`{norm_src(c)[:60]}` modifies it (or a view of it) in place")
            if hit:
                n += 1
                ctx.ob(rule, f"{f.fq}::inplace::{hit[0]}", False,
                       what=f"{f.qualname}: `{hit[0]}` is (or may be, when validation / as-array conversion "
                            f"returns its argument) the caller's array and {hit[1]}", loc=loc(f, st))
    # solver objects: a local that is (or may be, through an as-array helper) the array the
    # user passed to the constructor must not be updated in place - directly or in a callee
    for sc in prog.solvers:
        params = set(prog.init_params(sc))
        for f in sc.methods.values():
            if f.name == "__init__" or f not in flow.env:
                continue
            shared = {}
            for st in ast.walk(f.node):
                if isinstance(st, ast.Assign) and len(st.targets) == 1 and isinstance(st.targets[0], ast.Name):
                    attr = _aliased_self_attr(st.value, params)
                    if attr:
                        shared[st.targets[0].id] = (attr, st)
            for nm, (attr, st0) in sorted(shared.items()):
                n += 1
                sites = [s2 for (x, s2, how) in flow.direct_mutations(f) if x == nm and how != "attr"]
                for call, callees, kind in flow.calls.get(f, ()):
                    for callee in callees:
                        bnd, _ = flow.bind(f, call, callee)
                        for prm, a in bnd.items():
                            if prm in flow.mut.get(callee, ()) and isinstance(a, ast.Name) and a.id == nm:
                                sites.append(call)
                ctx.ob(rule, f"{f.fq}::self.{attr}->{nm}", not sites,
                       what=f"{f.qualname}: `{nm}` is (or may be, when no conversion is needed) the array "
                            f"the user passed as `{attr}` to the constructor and is updated in place"
                            + (f" at line {getattr(sites[0], 'lineno', '?')}" if sites else "")
                            + ": the hyper-parameter is overwritten and the next solve starts from it",
                       loc=loc(f, st0))
    ctx.extra["functions_analysed"] = len(seen)
    ctx.floor(rule, n, scope.get("floor", 25))
    ctx.floor(rule + "/functions", len(seen), 150)


def r_state(A, ctx, scope, rule="R-STATE"):
    ctx.rule(rule, "fit-time state discipline: (i) fit/path never rebind a constructor "
             "parameter attribute to a derived object (only `self.p = self.p if self.p else "
             "Default()` defaulting is accepted); (ii) fitted attributes (`name_`) are read "
             "or probed with hasattr only together with the warm_start flag; (iv) no "
             "`global`, no mutation of module-level containers, the only cache is lru_cache "
             "on the class factory whose key is all of its parameters, compiled_clone is "
             "uncached, ends in a constructor call and uses all its parameters; (v) in "
             "estimator.path the penalty whose alpha is rewritten is a fresh compiled_clone")
    prog = A.prog
    n = 0
    for cls in prog.estimators:
        params = set(_own_init_params(cls))
        for mname, m in cls.methods.items():
            if mname == "__init__":
                continue
            for st in ast.walk(m.node):
                if isinstance(st, ast.Assign):
                    for t in st.targets:
                        ch = attr_chain(t) if isinstance(t, ast.Attribute) else None
                        if ch and ch[0] == "self" and len(ch) == 2 and ch[1] in params:
                            n += 1
                            v = st.value
                            defaulting = isinstance(v, ast.IfExp) and ast.unparse(v.body) == f"self.{ch[1]}" \
                                and f"self.{ch[1]}" in ast.unparse(v.test)
                            ctx.ob(rule, f"{m.fq}::rebind::self.{ch[1]}", defaulting,
                                   what=f"{cls.name}.{mname} overwrites the constructor "
                                        f"argument `self.{ch[1]}` with `{norm_src(v)[:40]}`: "
                                        "a second fit starts from the derived object "
                                        "(compiled clones cannot be cloned again), and "
                                        "get_params/clone no longer see the user's value",
                                   loc=loc(m, st))
            if mname in ("fit", "path"):
                cfg = cfg_of(m)
                for nd in cfg.stmts():
                    root = nd.ast.iter if nd.kind == "for" else nd.ast
                    for e in ast.walk(root):
                        fitted = None
                        if isinstance(e, ast.Attribute) and isinstance(e.value, ast.Name) and e.value.id == "self" \
                                and e.attr.endswith("_") and not e.attr.startswith("_") and isinstance(e.ctx, ast.Load):
                            fitted = e.attr
                        if isinstance(e, ast.Call) and ast.unparse(e.func) == "hasattr" and len(e.args) == 2 \
                                and ast.unparse(e.args[0]) == "self" and isinstance(e.args[1], ast.Constant) \
                                and str(e.args[1].value).endswith("_"):
                            fitted = e.args[1].value
                        if fitted is None:
                            continue
                        # written earlier in the same call?
                        written = any(isinstance(o.ast, ast.Assign) and any(
                            ast.unparse(t) == f"self.{fitted}" for t in o.ast.targets)
                            and cfg.dominated_by(nd.id, o.id) and o.id != nd.id for o in cfg.stmts() if o.kind == "stmt")
                        if written:
                            continue
                        n += 1
                        ctxt = ast.unparse(root) + " ".join(ast.unparse(t) for t, _, _ in cfg.facts_at(nd.id)
                                                            if isinstance(t, ast.expr))
                        ctx.ob(rule, f"{m.fq}::fitted-read::{fitted}", "warm_start" in ctxt,
                               what=f"{cls.name}.{mname} reads fitted state `{fitted}` "
                                    "without the warm_start flag: a refit depends on the "
                                    "previous fit", loc=loc(m, e))
    # (iv) globals / caches
    mutable_globals = {}
    for mod in prog.modules.values():
        for st in mod.tree.body:
            if isinstance(st, ast.Assign) and len(st.targets) == 1 and isinstance(st.targets[0], ast.Name):
                k, v = st.targets[0].id, st.value
                ctor = isinstance(v, ast.Call) and ast.unparse(v.func).split(".")[-1] in (
                    "dict", "list", "set", "OrderedDict", "defaultdict", "WeakKeyDictionary", "WeakValueDictionary")
                if (isinstance(v, (ast.List, ast.Dict, ast.Set)) or ctor) and k != "__all__":
                    mutable_globals[(mod.name, k)] = v
    for f in prog.all_functions():
        for st in ast.walk(f.node):
            if isinstance(st, (ast.Global, ast.Nonlocal)):
                n += 1
                ctx.ob(rule, f"{f.fq}::global", False, what="`global` state", loc=loc(f, st))
            if isinstance(st, ast.Call) and isinstance(st.func, ast.Attribute) \
                    and st.func.attr in ("append", "update", "add", "setdefault", "extend", "pop") \
                    and isinstance(st.func.value, ast.Name) \
                    and (f.module.name, st.func.value.id) in mutable_globals:
                n += 1
                ctx.ob(rule, f"{f.fq}::module-container::{st.func.value.id}", False,
                       what="module-level container mutated at run time", loc=loc(f, st))
            if isinstance(st, (ast.Assign, ast.AugAssign, ast.Delete)):
                tg = st.targets if isinstance(st, (ast.Assign, ast.Delete)) else [st.target]
                for t in tg:
                    if isinstance(t, ast.Subscript) and isinstance(t.value, ast.Name) \
                            and (f.module.name, t.value.id) in mutable_globals \
                            and t.value.id not in f.params and not any(
                                isinstance(a, ast.Assign) and any(isinstance(x, ast.Name) and x.id == t.value.id
                                                                  for x in a.targets) for a in ast.walk(f.node)):
                        n += 1
                        ctx.ob(rule, f"{f.fq}::module-container::{t.value.id}", False,
                               what=f"module-level container `{t.value.id}` is written at run time: a hand-made "
                                    "cache / registry whose content depends on what ran before (results of a "
                                    "call then depend on the process history, e.g. the precision of the first "
                                    "compilation)", loc=loc(f, st))
        cached = [d for d in f.node.decorator_list if "cache" in ast.unparse(d)]
        if cached:
            n += 1
            used = names_in(ast.Module(body=f.node.body, type_ignores=[]))
            allp = set(f.params) | set(f.kwonly)
            rets = [r for r in ast.walk(f.node) if isinstance(r, ast.Return)]
            factory = bool(rets) and all(isinstance(r.value, ast.Call) and "jitclass" in ast.unparse(r.value)
                                         for r in rets)
            ctx.ob(rule, f"{f.fq}::cache", factory and allp <= used,
                   what=f"cached function {f.name}: " + (
                       "does not return a jitclass class" if not factory else
                       f"parameter(s) {sorted(allp - used)} are part of the cache key but "
                       "unused (or not used at all): the cached class does not depend on "
                       "them"), loc=loc(f, f.node))
    jm = prog.modules.get("skglm.utils.jit_compilation")
    if jm is None or "compiled_clone" not in jm.functions:
        raise AnalysisError("anchor compiled_clone missing")
    cc = jm.functions["compiled_clone"]
    n += 1
    rets = [r for r in ast.walk(cc.node) if isinstance(r, ast.Return)]
    fresh = bool(rets) and all(isinstance(r.value, ast.Call) and isinstance(r.value.func, ast.Call)
                               and any(k.arg is None and "params_to_dict" in ast.unparse(k.value)
                                       for k in r.value.keywords) for r in rets)
    used = names_in(ast.Module(body=cc.node.body, type_ignores=[]))
    nocache = not any("cache" in ast.unparse(d) for d in cc.node.decorator_list)
    ctx.ob(rule, f"{cc.fq}::fresh-instance", fresh and nocache and set(cc.params) <= used,
           what="compiled_clone does not end in a fresh constructor call built from "
                "params_to_dict(), is cached, or ignores one of its parameters "
                f"(unused: {sorted(set(cc.params) - used)})", loc=loc(cc, cc.node))
    # (v) estimator.path: penalty passed to solver.path is a fresh compiled clone
    for cls in prog.estimators:
        m = cls.methods.get("path")
        if m is None:
            continue
        for c in ast.walk(m.node):
            if isinstance(c, ast.Call) and isinstance(c.func, ast.Attribute) and c.func.attr == "path" \
                    and len(c.args) >= 4 and isinstance(c.args[3], ast.Name):
                n += 1
                pname = c.args[3].id
                defs = [st.value for st in ast.walk(m.node) if isinstance(st, ast.Assign)
                        and isinstance(st.targets[0], ast.Name) and st.targets[0].id == pname]
                ok = bool(defs) and all(isinstance(v, ast.Call) and ast.unparse(v.func) == "compiled_clone"
                                        for v in defs)
                ctx.ob(rule, f"{m.fq}::fresh-penalty", ok,
                       what="the penalty whose alpha is rewritten along the path is not a "
                            "fresh compiled_clone (a shared object would keep the last alpha)",
                       loc=loc(m, c))
    ctx.floor(rule, n, scope.get("floor", 8))


def r_classifkind(A, ctx, scope, rule="R-CLASSIFKIND"):
    ctx.rule(rule, "which datafits make an estimator a classifier is decided by the same subclass-aware "
             "test wherever it is decided: the isinstance class tuples of _glm_fit (label encoding, "
             "classes_) and of predict agree, and no test on a datafit's class *name* mentions a "
             "class that has subclasses in the registry (a Logistic subclass would be fitted as a "
             "classifier and predicted as a regressor)")
    prog = A.prog
    em = prog.modules.get("skglm.estimators")
    if em is None:
        raise AnalysisError("skglm.estimators missing")
    with_sub = {c.name for c in prog.datafits if any(d is not c and d.is_subclass_of(c) for d in prog.datafits)}
    n = 0
    tuples = {}
    funcs = list(em.functions.values()) + [m for c in em.classes.values() for m in c.methods.values()]
    for f in funcs:
        for node in ast.walk(f.node):
            if isinstance(node, ast.Call) and ast.unparse(node.func) == "isinstance" and len(node.args) == 2 \
                    and "datafit" in ast.unparse(node.args[0]):
                kinds = node.args[1].elts if isinstance(node.args[1], (ast.Tuple, ast.List)) else [node.args[1]]
                names = frozenset(ast.unparse(k) for k in kinds)
                if "Logistic" in names:
                    tuples.setdefault(names, []).append((f, node))
            if isinstance(node, ast.Compare) and "__name__" in ast.unparse(node) and "datafit" in ast.unparse(node):
                strs = {c.value for c in ast.walk(node) if isinstance(c, ast.Constant) and isinstance(c.value, str)}
                hit = strs & with_sub
                n += 1
                ctx.ob(rule, f"{f.fq}::name-test::{norm_src(node)[:60]}", not hit,
                       what=f"`{norm_src(node)[:80]}` decides on the class name; {sorted(hit)} has subclasses "
                            f"among the datafits ({sorted(d.name for d in prog.datafits if any(d is not c and d.is_subclass_of(c) and c.name in hit for c in prog.datafits))}): "
                            "they are treated differently here than by the isinstance tests elsewhere "
                            "(fitted with encoded labels and classes_, predicted as raw decision values)",
                       loc=loc(f, node))
    n += 1
    sites = sorted({f.qualname for v in tuples.values() for f, _ in v})
    ctx.ob(rule, "classifier-datafit-tuples", len(tuples) <= 1 and len(sites) >= 2,
           what=f"the classifier tests disagree or one of them is gone: {[sorted(k) for k in tuples]} in {sites}",
           loc=None)
    ctx.floor(rule, n, 1)


def r_row0(A, ctx, scope, rule="R-ROW0"):
    ctx.rule(rule, "prediction-side methods of classifiers never derive anything from the first row "
             "of a fitted per-class matrix alone (`self.coef_[0]`): with more than two classes each "
             "row is the one-vs-rest model of its own class (support, sign pattern, scale differ "
             "per row); the binary case has to be tested for explicitly")
    prog = A.prog
    em = prog.modules.get("skglm.estimators")
    if em is None:
        raise AnalysisError("skglm.estimators missing")
    n = 0
    for cls in em.classes.values():
        for m in cls.methods.values():
            if m.name in ("fit", "path", "__init__", "get_params", "set_params"):
                continue
            n += 1
            cfg = cfg_of(m)
            hits = []
            for nd in cfg.stmts():
                if nd.ast is None:
                    continue
                for sub in ast.walk(nd.ast):
                    if isinstance(sub, ast.Subscript) and isinstance(sub.value, ast.Attribute) \
                            and isinstance(sub.value.value, ast.Name) and sub.value.value.id == "self" \
                            and sub.value.attr.endswith("_") and "coef" in sub.value.attr:
                        first = sub.slice.elts[0] if isinstance(sub.slice, ast.Tuple) else sub.slice
                        if isinstance(first, ast.Constant) and first.value == 0:
                            def binary_side(t, lab):
                                """does (test, branch) establish the binary case?  A test whose orientation is
                                not recognised counts as a guard (no alarm on an unknown idiom)."""
                                txt = ast.unparse(t).replace(" ", "")
                                if not any(k in txt for k in ("classes_", "shape[0]", "ndim", "n_classes")):
                                    return False
                                multi_true = any(k in txt for k in (">2", ">=3", "ndim>1", "ndim==2", "!=2"))
                                bin_true = any(k in txt for k in ("<=2", "==2", "<3", "ndim==1", "ndim<2", "shape[0]==1"))
                                if multi_true and not bin_true:
                                    return lab == "false"
                                if bin_true and not multi_true:
                                    return lab == "true"
                                return True
                            guarded = any(isinstance(t, ast.expr) and binary_side(t, lab)
                                          for t, lab, _ in cfg.facts_at(nd.id))
                            if not guarded:
                                hits.append(sub)
            # a hand-written linear score carries the intercept
            for st in ast.walk(m.node):
                if not isinstance(st, (ast.Assign, ast.Return, ast.AugAssign)) or st.value is None:
                    continue
                prods = [x for x in ast.walk(st.value) if (
                    (isinstance(x, ast.BinOp) and isinstance(x.op, ast.MatMult))
                    or (isinstance(x, ast.Call) and ast.unparse(x.func).split(".")[-1] in ("safe_sparse_dot", "dot")))
                    and "self.coef_" in ast.unparse(x)]
                if prods:
                    n += 1
                    target = st.targets[0].id if isinstance(st, ast.Assign) and isinstance(st.targets[0], ast.Name) else None
                    has_b = "self.intercept_" in ast.unparse(st.value)
                    if not has_b and target:
                        # added in a later statement to the same variable?
                        has_b = any(isinstance(s2, (ast.AugAssign, ast.Assign)) and "self.intercept_" in ast.unparse(s2)
                                    and target in names_in(s2) for s2 in ast.walk(m.node))
                    ctx.ob(rule, f"{m.fq}::linear-score", has_b,
                           what=f"{m.qualname} computes `{norm_src(st)[:70]}` from coef_ without intercept_: "
                                "predictions are those of the model without its intercept", loc=loc(m, st))
            ctx.ob(rule, f"{m.fq}", not hits,
                   what=f"{m.qualname} uses `{norm_src(hits[0]) if hits else ''}` (first class only) without "
                        "testing for the binary case: with more than two classes the other rows are "
                        "treated with the first row's support / values and the decision values no longer "
                        "are those of the per-class binary fits", loc=loc(m, hits[0]) if hits else None)
    ctx.floor(rule, n, scope.get("floor", 2))


def r_rowfilter(A, ctx, scope, rule="R-ROWFILTER"):
    ctx.rule(rule, "fit hands the solver the samples it was given: between validation and solve no "
             "estimator drops or re-weights rows of X / y (`X = X[mask]`): the documented objectives "
             "are normalised by n_samples, leaving observations out rescales the penalty strength")
    prog = A.prog
    em = prog.modules.get("skglm.estimators")
    funcs = [m for c in prog.estimators for nm, m in c.methods.items() if nm in ("fit", "path")]
    if em and "_glm_fit" in em.functions:
        funcs.append(em.functions["_glm_fit"])
    n = 0
    for f in funcs:
        n += 1
        hits = []
        for st in ast.walk(f.node):
            if not isinstance(st, ast.Assign) or not isinstance(st.targets[0], ast.Name):
                continue
            tgt = st.targets[0].id
            if tgt not in ("X", "y", "Y", "X_"):
                continue
            for sub in ast.walk(st.value):
                if isinstance(sub, ast.Subscript) and isinstance(sub.value, ast.Name) and sub.value.id in ("X", "y", "Y", "X_"):
                    first = sub.slice.elts[0] if isinstance(sub.slice, ast.Tuple) else sub.slice
                    full = isinstance(first, ast.Slice) and first.lower is None and first.upper is None
                    if not full and not isinstance(first, ast.Constant):
                        hits.append(st)
        ctx.ob(rule, f"{f.fq}", not hits,
               what=f"{f.qualname}: `{norm_src(hits[0])[:70] if hits else ''}` keeps a subset of the rows: the "
                    "datafit is then normalised by the number of kept samples, not by n_samples as documented "
                    "(alpha is silently rescaled)", loc=loc(f, hits[0]) if hits else None)
    ctx.floor(rule, n, scope.get("floor", 10))


def r_classes(A, ctx, scope, rule="R-CLASSES"):
    ctx.rule(rule, "`classes_` holds the caller's labels: every assignment to a fitted `classes_` attribute "
             "takes it from the label encoder that was fitted on the raw targets, never from an object "
             "fitted on the encoded targets (a one-vs-rest wrapper, np.unique of the encoded y): "
             "predictions are `classes_[index]`")
    em = A.prog.modules.get("skglm.estimators")
    if em is None:
        raise AnalysisError("skglm.estimators missing")
    n = 0
    funcs = list(em.functions.values()) + [m for c in em.classes.values() for m in c.methods.values()]
    for f in funcs:
        encoders = set()
        for st in ast.walk(f.node):
            if isinstance(st, ast.Assign) and isinstance(st.targets[0], ast.Name) and isinstance(st.value, ast.Call) \
                    and ast.unparse(st.value.func).split(".")[-1] == "LabelEncoder":
                encoders.add(st.targets[0].id)
        for st in ast.walk(f.node):
            if isinstance(st, ast.Assign) and any(isinstance(t, ast.Attribute) and t.attr == "classes_" for t in st.targets):
                n += 1
                v = st.value
                ok = isinstance(v, ast.Attribute) and v.attr == "classes_" and isinstance(v.value, ast.Name) \
                    and v.value.id in encoders
                ctx.ob(rule, f"{f.fq}::{norm_src(st)[:60]}", ok,
                       what=f"`{norm_src(st)[:70]}`: `classes_` is not taken from the label encoder fitted on the raw "
                            "targets: with labels other than 0..K-1 the estimator predicts encoded codes instead "
                            "of the caller's labels", loc=loc(f, st))
    ctx.floor(rule, n, 1)


def _rowwise_max_of(e, name):
    """`name.max(axis=1|-1, ...)`, `np.max(name, axis=1|-1, ...)`, optionally `[:, None]` /
    `.reshape(...)`-ed"""
    while isinstance(e, ast.Subscript) or (isinstance(e, ast.Call) and isinstance(e.func, ast.Attribute)
                                            and e.func.attr == "reshape"):
        e = e.value if isinstance(e, ast.Subscript) else e.func.value
    if not isinstance(e, ast.Call):
        return False
    fn = ast.unparse(e.func)
    if fn in (f"{name}.max", "np.max", "np.amax"):
        if fn != f"{name}.max" and not (e.args and ast.unparse(e.args[0]) == name):
            return False
        ax = next((k.value for k in e.keywords if k.arg == "axis"), None)
        if ax is None and fn != f"{name}.max" and len(e.args) > 1:
            ax = e.args[1]
        if ax is None and fn == f"{name}.max" and e.args:
            ax = e.args[0]
        return ax is not None and ast.unparse(ax) in ("1", "-1")
    return False


def _exp_calls(node):
    """[(call, bounded?)] for every hand-written exponential under `node`"""
    out = []
    for c in ast.walk(node):
        if not (isinstance(c, ast.Call) and ast.unparse(c.func) in ("np.exp", "numpy.exp", "math.exp", "np.expm1")
                and c.args):
            continue
        a = c.args[0]
        ok = False
        if isinstance(a, ast.BinOp) and isinstance(a.op, ast.Sub) and _rowwise_max_of(a.right, ast.unparse(a.left)):
            ok = True
        elif isinstance(a, ast.UnaryOp) and isinstance(a.op, ast.USub) and isinstance(a.operand, ast.Call) \
                and ast.unparse(a.operand.func) in ("np.abs", "abs", "np.logaddexp", "np.fabs"):
            ok = True
        elif isinstance(a, ast.Call) and ast.unparse(a.func) in ("np.clip", "np.minimum") and any(
                isinstance(x, ast.Constant) for x in a.args[1:]):
            ok = True
        elif isinstance(a, ast.Name):
            # in-place shift before the call: `z -= z.max(axis=1, keepdims=True)`
            for st in ast.walk(node):
                if isinstance(st, ast.AugAssign) and isinstance(st.op, ast.Sub) and isinstance(st.target, ast.Name) \
                        and st.target.id == a.id and st.lineno < c.lineno and _rowwise_max_of(st.value, a.id):
                    ok = True
                if isinstance(st, ast.Assign) and len(st.targets) == 1 and isinstance(st.targets[0], ast.Name) \
                        and st.targets[0].id == a.id and st.lineno < c.lineno and isinstance(st.value, ast.BinOp) \
                        and isinstance(st.value.op, ast.Sub) and _rowwise_max_of(st.value.right, ast.unparse(st.value.left)):
                    ok = True
        out.append((c, ok))
    return out


def r_expstable(A, ctx, scope, rule="R-EXPSTABLE"):
    """C12: probabilities are finite and sum to one for every finite decision value"""
    ctx.rule(rule, "no hand-written exponential of an unbounded decision value on the prediction side: in "
             "`predict*` methods of the estimators an `np.exp` is applied only to an argument that is "
             "bounded above per row - the array minus its row-wise maximum (`z - z.max(axis=1, ...)`, also "
             "as a preceding in-place `z -= ...`), a negated absolute value, or a clipped value; library "
             "links (expit, softmax, logsumexp) are not concerned.  Without the shift exp overflows for "
             "large decision values (inf / inf), with a global shift far rows underflow to 0 / 0: the "
             "probabilities are NaN instead of summing to one")
    em = A.prog.modules.get("skglm.estimators")
    if em is None:
        raise AnalysisError("skglm.estimators missing")
    # the matcher must see its positive and negative examples on every run
    probe = ast.parse("def p(z):\n    a = np.exp(z)\n    z -= z.max()\n    b = np.exp(z, out=z)\n"
                      "    c = np.exp(z - z.max(axis=1, keepdims=True))\n    d = np.exp(-np.abs(z))\n    return a, b, c, d\n")
    if [ok for _, ok in _exp_calls(probe)] != [False, False, True, True]:
        raise AnalysisError("R-EXPSTABLE matcher lost its examples")
    n = n_exp = 0
    for cls in em.classes.values():
        for m in cls.methods.values():
            if m.name in ("fit", "path", "__init__", "get_params", "set_params"):
                continue
            n += 1
            for c, ok in _exp_calls(m.node):
                n_exp += 1
                ctx.ob(rule, f"{m.fq}::{norm_src(c)[:60]}", ok,
                       what=f"{m.qualname}: `{norm_src(c)[:70]}` exponentiates a decision value that is not shifted by "
                            "its row-wise maximum (nor otherwise bounded above): for large |decision| the "
                            "exponential overflows or every entry of a row underflows, and the normalised "
                            "probabilities are NaN instead of summing to one", loc=loc(m, c))
    ctx.extra["prediction_methods"] = n
    ctx.extra["hand_written_exponentials"] = n_exp
    ctx.floor(rule, n, scope.get("floor", 3))


def r_fitsets(A, ctx, scope, rule="R-FITSETS"):
    """C12 / C11: what fit() reports is what the solver just returned"""
    ctx.rule(rule, "fitted attributes are refreshed by every fit: in `_glm_fit` every path from `solver.solve(...)` to a "
             "return assigns each fitted attribute (`model.coef_`, `intercept_`, ...) that the main path derives "
             "from the solver's result - no early return ('warm start already optimal') keeps the attributes of "
             "the previous fit, which were computed for the previous targets / label encoding / hyper-parameters")
    m = A.prog.modules.get("skglm.estimators")
    f = m.functions.get("_glm_fit") if m else None
    if f is None:
        raise AnalysisError("anchor _glm_fit missing")
    cfg = cfg_of(f)
    solve = [nd.id for nd in cfg.stmts() if nd.kind == "stmt" and nd.ast is not None and any(
        isinstance(c, ast.Call) and isinstance(c.func, ast.Attribute) and c.func.attr == "solve" for c in ast.walk(nd.ast))]
    if not solve:
        raise AnalysisError("_glm_fit: solver.solve call missing")
    s0 = solve[-1]
    model = f.params[2] if len(f.params) > 2 else "model"
    # fitted attributes assigned after solve, unconditionally w.r.t. the returns (dominating the exit
    # or assigned on the path): attribute -> assignment nodes
    sets = {}
    for nd in cfg.stmts():
        a = nd.ast
        if nd.kind == "stmt" and isinstance(a, ast.Assign) and getattr(a, "lineno", 0) > cfg.nodes[s0].ast.lineno:
            for t in a.targets:
                for e in (t.elts if isinstance(t, ast.Tuple) else [t]):
                    if isinstance(e, ast.Attribute) and isinstance(e.value, ast.Name) and e.value.id == model \
                            and e.attr.endswith("_"):
                        sets.setdefault(e.attr, []).append(nd.id)
    n = 0
    last_ret = max(cfg.returns, key=lambda r: cfg.nodes[r].ast.lineno) if cfg.returns else cfg.exit
    for attr, nodes in sorted(sets.items()):
        reach = _reach_avoiding(cfg, s0, set(nodes))
        if last_ret in reach:
            continue            # set on some paths only (dual_coef_ of the SVC branch): not a main-path attribute
        n += 1
        early = sorted(cfg.nodes[r].ast.lineno for r in cfg.returns if r in reach and r != last_ret)
        ctx.ob(rule, f"{f.fq}::{attr}", not early,
               what=(f"_glm_fit can return at line {early[0]} after solve() without assigning `{model}.{attr}`: the "
                     "estimator keeps the value of the previous fit (other targets, label encoding or "
                     "hyper-parameters) while the other fitted attributes are new") if early else "",
               loc=loc(f, cfg.nodes[nodes[0]].ast))
    # presence tests: a prediction-side method must not decide anything on whether an attribute exists
    # that only one branch of the fit assigns (it survives a refit that takes the other branch)
    all_sets = {}
    for nd in cfg.stmts():
        a = nd.ast
        if nd.kind == "stmt" and isinstance(a, ast.Assign):
            for t in a.targets:
                for e in (t.elts if isinstance(t, ast.Tuple) else [t]):
                    if isinstance(e, ast.Attribute) and isinstance(e.value, ast.Name) and e.value.id == model \
                            and e.attr.endswith("_"):
                        all_sets.setdefault(e.attr, []).append(nd.id)
    partial = {attr for attr, nodes in all_sets.items() if cfg.exit in _reach_avoiding(cfg, cfg.entry, set(nodes), through_returns=True)}
    for cls in m.classes.values():
        for meth in cls.methods.values():
            if meth.name in ("fit", "path", "__init__", "get_params", "set_params"):
                continue
            for c in ast.walk(meth.node):
                if isinstance(c, ast.Call) and ast.unparse(c.func) in ("hasattr", "getattr") and len(c.args) >= 2 \
                        and ast.unparse(c.args[0]) == "self" and isinstance(c.args[1], ast.Constant) \
                        and isinstance(c.args[1].value, str) and c.args[1].value.endswith("_"):
                    attr = c.args[1].value
                    n += 1
                    ctx.ob(rule, f"{meth.fq}::presence::{attr}", attr not in partial,
                           what=f"{meth.qualname} tests whether `self.{attr}` exists, but _glm_fit assigns it on some "
                                "paths only (one branch of the binary / multiclass split): after a refit that takes the "
                                "other branch the attribute of the earlier fit is still there and the method answers "
                                "for the earlier model (other number of classes)", loc=loc(meth, c))
    ctx.floor(rule, n, scope.get("floor", 3))


def _reach_avoiding(cfg, start, blocked, through_returns=False):
    """nodes reachable from `start` without passing a node of `blocked`"""
    seen, todo = set(), [start]
    while todo:
        x = todo.pop()
        if x in seen or x in blocked:
            continue
        seen.add(x)
        if x in cfg.raises or (x in cfg.returns and not through_returns):
            continue
        todo += cfg.succ[x]
    return seen


def r_weights_guard(A, ctx, scope, rule="R-WEIGHTS-GUARD"):
    """C11: user weights are dropped only when there are none"""
    ctx.rule(rule, "per-feature / per-group weights reach the penalty whenever they are given: in fit / path of an "
             "estimator with a `weights` parameter, every penalty constructed either receives the weights (the "
             "attribute or a local defaulted from it) or is built under the true side of `self.weights is None`; "
             "a shortcut taken on another hyper-parameter (`gamma = inf`, `l1_ratio = 1`) must not drop them")
    prog = A.prog
    n = 0
    for cls in prog.estimators:
        if "weights" not in prog.init_params(cls):
            continue
        for mname in ("fit", "path"):
            m = cls.methods.get(mname)
            if m is None:
                continue
            cfg = cfg_of(m)
            # locals defaulted from self.weights
            wl = {"self.weights"}
            for st in ast.walk(m.node):
                if isinstance(st, ast.Assign) and len(st.targets) == 1 and isinstance(st.targets[0], ast.Name) \
                        and "self.weights" in ast.unparse(st.value):
                    wl.add(st.targets[0].id)
            for nd in cfg.stmts():
                if nd.ast is None or nd.kind == "for":
                    continue
                for c in ast.walk(nd.ast):
                    if not isinstance(c, ast.Call):
                        continue
                    r = prog.resolve(m.module, ast.unparse(c.func)) if isinstance(c.func, (ast.Name, ast.Attribute)) else None
                    if type(r).__name__ != "ClassInfo" or r not in prog.penalties:
                        continue
                    n += 1
                    gets = any(ast.unparse(a) in wl for a in list(c.args) + [k.value for k in c.keywords])
                    guarded = any(isinstance(t, ast.expr) and ast.unparse(t).replace(" ", "") == "self.weightsisNone" and lab == "true"
                                  for t, lab, _ in cfg.facts_at(nd.id))
                    ctx.ob(rule, f"{m.fq}::{norm_src(c)[:50]}", gets or guarded,
                           what=f"{m.qualname} builds `{norm_src(c)[:60]}` without the weights, on a path that is not "
                                "restricted to `self.weights is None`: when weights are given they are silently ignored "
                                "there (the documented weighted objective is not the one solved)", loc=loc(m, c))
    ctx.floor(rule, n, scope.get("floor", 6))


def r_squeeze(A, ctx, scope, rule="R-SQUEEZE"):
    """C12 / C11: fitted arrays keep their axes whatever the number of features, samples or classes"""
    ctx.rule(rule, "no axis-less squeeze on fitted or data arrays: `np.squeeze(a)` / `a.squeeze()` without `axis=` removes "
             "every axis of length one, so the shape of the result depends on the data (one feature, one sample, one "
             "class): a per-class matrix assembled that way loses its rows / columns exactly in those cases")
    em = A.prog.modules.get("skglm.estimators")
    if em is None:
        raise AnalysisError("skglm.estimators missing")
    probe = ast.parse("def f(a):\n    b = np.squeeze(a)\n    c = a.squeeze()\n    d = np.squeeze(a, axis=1)\n    return b, c, d\n")
    if len(_axisless_squeezes(probe)) != 2:
        raise AnalysisError("R-SQUEEZE matcher lost its examples")
    n = 0
    funcs = list(em.functions.values()) + [m for c in em.classes.values() for m in c.methods.values()]
    for f in funcs:
        n += 1
        for c in _axisless_squeezes(f.node):
            ctx.ob(rule, f"{f.fq}::{norm_src(c)[:50]}", False,
                   what=f"{f.qualname}: `{norm_src(c)[:60]}` squeezes every unit axis: with a single feature (or sample, "
                        "or class) the assembled array loses that axis too, and decision_function / predict fail or "
                        "read the wrong axis", loc=loc(f, c))
    ctx.floor(rule, n, scope.get("floor", 40))


def _axisless_squeezes(tree):
    out = []
    for c in ast.walk(tree):
        if isinstance(c, ast.Call) and not any(k.arg == "axis" for k in c.keywords):
            fn = ast.unparse(c.func)
            if fn in ("np.squeeze", "numpy.squeeze") and len(c.args) == 1:
                out.append(c)
            elif isinstance(c.func, ast.Attribute) and c.func.attr == "squeeze" and not c.args \
                    and not fn.startswith(("np.", "numpy.")):
                out.append(c)
    return out
