"""R-DIV (guarded division by data-derived magnitudes), R-LOOP (bounded iteration)."""
import ast

from ..model import norm_src, names_in, attr_chain, AnalysisError
from ..cfg import cfg_of
from .control import loc

# data-derived denominators that are intentionally unguarded: construct -> reason
DIV_EXEMPT = {
    "sum(raw_hessian)": "intercept curvature = sum of the diagonal Hessian, strictly "
                        "positive for every shipped datafit on a non-empty sample",
    "anderson-normalisation": "numpy array division (no exception); a NaN/inf "
                              "extrapolation candidate is rejected by the acceptance "
                              "guard (R-GUARD compares objectives, NaN < x is False)",
    "spectral_norm:start": "norm of a standard normal draw, non-zero almost surely",
    "spectral_norm:renormalise": "power iteration: the product is divided by its own norm after the "
                                 "absolute convergence test; norm_vec == 0 implies eigenvalue == 0, so "
                                 "`norm_vec**2 - eigenvalue**2 <= tol**2` has already left the loop",
}
# functions whose divisions are analytic facts of a closed form, not data degeneracy
DIV_FUNC_EXEMPT = {
    "prox_2_3": "closed-form root: after the threshold test |x| >= t > 0 the radicand z "
                "is positive (analytic fact of the l2/3 prox, not decided here)",
    "prox_05": "closed form evaluated only for |x| >= t > 0",
    "prox_SCAD": "hyper-parameter denominators (gamma - 1 - stepsize): admissible range",
}
def _abs_test_before(f, node):
    """an `<expr> <= tol ** 2`-style absolute test followed by break precedes the division in
    the same loop body (the reason of the renormalisation exemption)"""
    for lp in ast.walk(f.node):
        if isinstance(lp, ast.For) and any(x is node for x in ast.walk(lp)):
            for st in lp.body:
                if any(x is node for x in ast.walk(st)):
                    return False
                if isinstance(st, ast.If) and any(isinstance(b, ast.Break) for b in st.body) \
                        and isinstance(st.test, ast.Compare) \
                        and not any(isinstance(x, ast.BinOp) and isinstance(x.op, ast.Div) for x in ast.walk(st.test)):
                    return True
    return False


WHILE_TABLE = {
    "skglm/utils/prox_funcs.py::prox_SLOPE":
        "variant k: strictly decreases, loop requires k > 0",
    "skglm/utils/prox_funcs.py::_find_root_by_bisection":
        "variant b - a: halves each turn, loop requires b - a > tol (tol = 1e-8 default, "
        "never overridden in the package)",
}

_SIZE_HINTS = ("n_samples", "n_features", "len(y)", "len(Xw)", "n_tasks", "grp_size",
               "n_alphas", "size_current_H", "w_sum", "len(Y)")


def _defs(fnode, name):
    out = []
    for st in ast.walk(fnode):
        if isinstance(st, ast.Assign) and len(st.targets) == 1 and isinstance(st.targets[0], ast.Name) \
                and st.targets[0].id == name:
            out.append(st.value)
        elif isinstance(st, ast.Assign) and len(st.targets) == 1 and isinstance(st.targets[0], ast.Tuple) \
                and isinstance(st.value, ast.Tuple):
            for t, v in zip(st.targets[0].elts, st.value.elts):
                if isinstance(t, ast.Name) and t.id == name:
                    out.append(v)
    return out


def _elem_stores(fnode, name):
    out = []
    for st in ast.walk(fnode):
        if isinstance(st, ast.Assign) and isinstance(st.targets[0], ast.Subscript) \
                and isinstance(st.targets[0].value, ast.Name) and st.targets[0].value.id == name:
            out.append(st.value)
    return out


def classify(flow, f, D):
    """-> (class, subjects) ; class in data/size/hyper/const ; subjects = texts a guard
    may mention."""
    subjects = {norm_src(D)}
    exprs = [D]
    for nm in names_in(D):
        for v in _defs(f.node, nm):
            exprs.append(v)
            subjects.add(norm_src(v))
            subjects.add(nm)
            for nm2 in names_in(v):
                for v2 in _defs(f.node, nm2):
                    exprs.append(v2)
        for v in _elem_stores(f.node, nm):
            exprs.append(v)
    for s in list(subjects):
        subjects.add(s)
    # sub-expression subjects (lc[j] inside 2 * lc[j])
    for e in list(exprs):
        for x in ast.walk(e):
            if isinstance(x, (ast.Subscript, ast.Name)):
                subjects.add(norm_src(x))
            if isinstance(x, ast.Call) and ast.unparse(x.func).split(".")[-1] == "norm" and x.args:
                subjects.add("norm:" + norm_src(x.args[0]))
    roles = set()
    txt = " ".join(norm_src(e) for e in exprs)
    for e in exprs:
        for x in ast.walk(e):
            if isinstance(x, (ast.Name, ast.Attribute, ast.Subscript)):
                roles |= flow.roles(f, x)
    data_roles = {"LIP", "GLIP", "X", "CSC_DATA", "RAWHESS", "W", "W0", "XW", "XW0", "Y", "GRAD"}
    is_norm = any(isinstance(x, ast.Call) and ast.unparse(x.func).split(".")[-1] in ("norm", "spectral_norm")
                  for e in exprs for x in ast.walk(e))
    weights = any(isinstance(x, ast.Subscript) and "weights" in norm_src(x.value)
                  for e in exprs for x in ast.walk(e))
    wcoef = any(isinstance(x, ast.Subscript) and isinstance(x.value, ast.Name)
                and x.value.id in ("w", "W") for x in ast.walk(D))
    if roles & data_roles or is_norm or weights or wcoef or "gram" in txt:
        only_size = all(any(h in norm_src(e) for h in _SIZE_HINTS) or isinstance(e, ast.Constant)
                        for e in [D]) and not (roles & {"LIP", "GLIP", "RAWHESS"}) and not is_norm \
            and not weights and not wcoef and "gram" not in norm_src(D)
        if only_size:
            return "size", subjects
        return "data", subjects
    if any(h in norm_src(D) for h in _SIZE_HINTS):
        return "size", subjects
    return "hyper", subjects


def _guard_matches(test, label, subjects):
    """Does the branch edge (test, label) establish that a subject is non-zero?"""
    t = test
    neg = False
    while isinstance(t, ast.UnaryOp) and isinstance(t.op, ast.Not):
        t, neg = t.operand, not neg
    truth = (label == "true") != neg

    def mentions(e):
        s = norm_src(e)
        if s in subjects:
            return True
        return any(s and (s == x or (len(s) > 2 and s in x and not x.startswith("norm:"))) for x in subjects)
    if isinstance(t, ast.BoolOp):
        # (a or b) false -> both false ; (a and b) true -> both true
        if isinstance(t.op, ast.Or) and not truth:
            return any(_guard_matches(v, "false", subjects)[0] for v in t.values), "strict"
        if isinstance(t.op, ast.And) and truth:
            return any(_guard_matches(v, "true", subjects)[0] for v in t.values), "strict"
        return False, None
    if isinstance(t, ast.Compare) and len(t.ops) == 1:
        op, a, b = t.ops[0], t.left, t.comparators[0]
        zero = lambda e: isinstance(e, ast.Constant) and e.value in (0, 0.0)  # noqa: E731
        for x, y, flip in ((a, b, False), (b, a, True)):
            if not mentions(x):
                continue
            if zero(y):
                if isinstance(op, ast.NotEq) and truth or isinstance(op, ast.Eq) and not truth:
                    return True, "strict"
                gt = isinstance(op, ast.Gt) and not flip or isinstance(op, ast.Lt) and flip
                if gt and truth:
                    return True, "strict"
            else:
                # x > y / x >= y (true)  or  x < y / x <= y (false): lower bound by y
                # strict lower bound only: x > y (true) or x <= y (false) give x > y >= 0;
                # x >= y / not (x < y) still allow x == y == 0
                lower_true = isinstance(op, ast.Gt) and not flip or isinstance(op, ast.Lt) and flip
                upper_op = isinstance(op, ast.LtE) and not flip or isinstance(op, ast.GtE) and flip
                if lower_true and truth or upper_op and not truth:
                    return True, "bound"
        return False, None
    if isinstance(t, ast.Call):
        fn = ast.unparse(t.func)
        if fn in ("np.any", "np.all") and t.args:
            arg = norm_src(t.args[0])
            if truth and ("norm:" + arg in subjects or arg in subjects
                          or any(x.startswith("norm:") and x[5:] == arg for x in subjects)):
                return True, "strict"
        return False, None
    if isinstance(t, (ast.Name, ast.Subscript, ast.Attribute)):
        if truth and mentions(t):
            return True, "strict"
    return False, None


def _mask_guard(f, D):
    """x[mask] with mask = (x != 0)"""
    for x in ast.walk(D):
        if isinstance(x, ast.Subscript) and isinstance(x.slice, ast.Name):
            for v in _defs(f.node, x.slice.id):
                if isinstance(v, ast.Compare) and isinstance(v.ops[0], ast.NotEq) \
                        and norm_src(v.left) == norm_src(x.value):
                    return True
    return False


def reachable_functions(A, roots):
    seen, work = [], list(roots)
    while work:
        f = work.pop()
        if f in seen:
            continue
        seen.append(f)
        for call, callees, kind in A.flow.calls.get(f, ()):
            if kind == "ctor":
                continue
            for c in callees:
                if c not in seen:
                    work.append(c)
    return seen


def solver_roots(A):
    roots = []
    for sf in A.facts.values():
        roots.append(sf.f)
    return roots


def r_div(A, ctx, scope, rule="R-DIV", where=None):
    ctx.rule(rule, "guarded division: a denominator whose value derives from the data "
             "(Lipschitz constants, column/group/input norms, Gram diagonal, weights, "
             "coefficients) is dominated by a non-zero fact on that value (`!= 0` with "
             "fallback, `== 0 -> continue`, np.any, lower bound) - zero columns, groups, "
             "weights and zero prox input are legitimate input; exemptions are a table of "
             "named constructs with one reason each")
    flow = A.flow
    n = 0
    funcs = where(A) if where else reachable_functions(A, solver_roots(A))
    classes = {}
    for f in funcs:
        cfg = None
        if f.cls is not None and f.cls in A.prog.datafits:
            continue     # loss-specific positivity (1 + exp, risk-set sums): not data degeneracy
        if f.name in DIV_FUNC_EXEMPT and f.cls is None:
            n_ex = sum(1 for x in ast.walk(f.node) if isinstance(x, ast.BinOp) and isinstance(x.op, ast.Div))
            ctx.note(f"{rule}: {f.fq} exempt ({n_ex} divisions): {DIV_FUNC_EXEMPT[f.name]}")
            continue
        for node in ast.walk(f.node):
            D = None
            if isinstance(node, ast.BinOp) and isinstance(node.op, (ast.Div, ast.FloorDiv, ast.Mod)):
                D = node.right
            elif isinstance(node, ast.AugAssign) and isinstance(node.op, ast.Div):
                D = node.value
            if D is None or isinstance(D, ast.Constant):
                continue
            if isinstance(node, ast.BinOp) and isinstance(node.op, ast.Mod) \
                    and isinstance(node.left, ast.Constant) and isinstance(node.left.value, str):
                continue
            cls, subjects = classify(flow, f, D)
            classes[cls] = classes.get(cls, 0) + 1
            if cls != "data":
                continue
            n += 1
            key = f"{f.fq}::{norm_src(D)[:60]}"
            # exemptions
            dtxt = norm_src(D)
            dd = " ".join(norm_src(v) for nm in names_in(D) for v in _defs(f.node, nm))
            if ("raw_hess" in dd or "raw_hess" in dtxt) and ("np.sum" in dd or "np.sum" in dtxt) \
                    and "X" not in names_in(D):
                ctx.ob(rule, key, True, detail="exempt: " + DIV_EXEMPT["sum(raw_hessian)"])
                continue
            if f.name == "extrapolate" or ("z.sum()" == dtxt):
                ctx.ob(rule, key, True, detail="exempt: " + DIV_EXEMPT["anderson-normalisation"])
                continue
            if f.name == "spectral_norm" and "eigenvector" in dtxt:
                ctx.ob(rule, key, True, detail="exempt: " + DIV_EXEMPT["spectral_norm:start"])
                continue
            if f.name == "spectral_norm" and isinstance(node, ast.BinOp) and isinstance(node.left, ast.Name) \
                    and isinstance(D, ast.Name) and any(
                        isinstance(a, ast.Assign) and isinstance(a.targets[0], ast.Name) and a.targets[0].id == D.id
                        and norm_src(a.value) in (f"norm({node.left.id})", f"np.linalg.norm({node.left.id})")
                        for a in ast.walk(f.node)) and _abs_test_before(f, node):
                ctx.ob(rule, key, True, detail="exempt: " + DIV_EXEMPT["spectral_norm:renormalise"])
                continue
            compiled = f.njit or (f.cls is not None and (f.cls in A.prog.penalties or f.cls in A.prog.datafits)) \
                or any(k.njit for k in [f.outer] if k is not None)
            if not compiled and not scope.get("py_level_strict"):
                # interpreter level: only Python floats raise (results of jitclass slot
                # calls); numpy scalars/arrays give inf with a warning
                roles = set()
                for nm in names_in(D):
                    roles |= flow.env[f].get(nm, set())
                if not roles & {"LIP", "GLIP"}:
                    ctx.ob(rule, key, True, detail="numpy-level division (inf, no exception); "
                           "NaN propagation not decided")
                    continue
            if any(isinstance(x, ast.Call) and any(k.arg == "axis" for k in x.keywords)
                   for nm in names_in(D) for v in _defs(f.node, nm) for x in ast.walk(v)):
                ctx.ob(rule, key, True, detail="array-valued denominator (numpy elementwise "
                       "division: inf, no exception)")
                continue
            if _mask_guard(f, D):
                ctx.ob(rule, key, True, detail="guard: boolean mask `!= 0` selects the entries")
                continue
            # IfExp ancestors
            guarded, kind = False, None
            for anc in ast.walk(f.node):
                if isinstance(anc, ast.IfExp):
                    if any(x is node for x in ast.walk(anc.body)):
                        g, k = _guard_matches(anc.test, "true", subjects)
                        if g:
                            guarded, kind = True, k
                    if any(x is node for x in ast.walk(anc.orelse)):
                        g, k = _guard_matches(anc.test, "false", subjects)
                        if g:
                            guarded, kind = True, k
            if not guarded:
                cfg = cfg or cfg_of(f)
                # statement node containing the division
                nid = None
                for nd in cfg.stmts():
                    root = nd.ast.iter if nd.kind == "for" else nd.ast
                    if any(x is node for x in ast.walk(root)):
                        nid = nd.id
                        break
                if nid is not None:
                    for t, lab, of in cfg.facts_at(nid):
                        if not isinstance(t, ast.expr):
                            continue
                        g, k = _guard_matches(t, lab, subjects)
                        if g:
                            guarded, kind = True, k
            if guarded and kind == "bound":
                ctx.assume("strict lower-bound guards (`norm_x <= u -> return`) assume a "
                           "non-negative threshold u")
            ctx.ob(rule, key, guarded, detail=f"guard kind: {kind}" if guarded else "",
                   what=f"division by `{norm_src(D)[:50]}` (data-derived: zero for an "
                        "all-zero column / group / input / weight) without a dominating "
                        "non-zero test: ZeroDivisionError in compiled code or inf/NaN",
                   loc=loc(f, node))
    ctx.extra["denominator_classes"] = classes
    ctx.floor(rule, n, scope.get("floor", 10))


def r_loop(A, ctx, scope, rule="R-LOOP"):
    ctx.rule(rule, "bounded iteration: every loop reachable from solve is a `for` over "
             "range/enumerate/zip/reversed or an array, or a `while` listed with its "
             "variant")
    n = w = 0
    for f in A.prog.all_functions():
        for st in ast.walk(f.node):
            if isinstance(st, ast.While):
                w += 1
                n += 1
                ctx.ob(rule, f"{f.fq}::while::{norm_src(st.test)[:50]}", f.fq in WHILE_TABLE,
                       detail=WHILE_TABLE.get(f.fq, ""),
                       what=f"`while {norm_src(st.test)}` has no recorded variant: "
                            "termination is not established", loc=loc(f, st))
            elif isinstance(st, ast.For):
                n += 1
                it = st.iter
                ok = isinstance(it, (ast.Name, ast.Attribute, ast.Subscript, ast.List, ast.Tuple, ast.BinOp)) or (
                    isinstance(it, ast.Call) and ast.unparse(it.func).split(".")[-1] in
                    ("range", "enumerate", "zip", "reversed", "arange", "where", "sorted"))
                ctx.ob(rule, f"{f.fq}::for::{norm_src(it)[:50]}", ok,
                       what=f"`for` over `{norm_src(it)[:40]}`: not a finite range/array",
                       loc=loc(f, st))
    ctx.floor(rule, n, scope.get("floor", 100))
    ctx.floor(rule + "/while", w, 2)


def r_nansafe(A, ctx, scope, rule="R-NANSAFE"):
    ctx.rule(rule, "exits need positive evidence: in solver code every `break` guarded by a numeric comparison sits on "
             "the side that is taken when the comparison is TRUE (`if crit <= tol: break`, `if decrease < 0: break`); "
             "a NaN criterion (overflow at a trial point) then satisfies no exit test - the line search backtracks, "
             "the outer loop runs on - whereas `if crit > tol: ... else: break` accepts NaN as convergence / as a "
             "descent step")
    n = 0
    for f in A.prog.all_functions():
        if not f.module.name.startswith(("skglm.solvers", "skglm.experimental", "skglm.utils.prox_funcs", "skglm.utils.anderson")):
            continue
        for node in ast.walk(f.node):
            if not isinstance(node, ast.If):
                continue
            t = node.test
            cmps = [c for c in ast.walk(t) if isinstance(c, ast.Compare)]
            if not cmps or any(isinstance(o, (ast.Is, ast.IsNot, ast.In, ast.NotIn)) for c in cmps for o in c.ops):
                continue
            if any(isinstance(x, ast.Constant) and isinstance(x.value, str) for c in cmps for x in ast.walk(c)):
                continue        # string comparisons (strategy names)
            brk_body = any(isinstance(x, ast.Break) for s_ in node.body for x in ast.walk(s_)
                           if not isinstance(s_, (ast.For, ast.While)))
            brk_else = any(isinstance(x, ast.Break) for s_ in node.orelse for x in ast.walk(s_)
                           if not isinstance(s_, (ast.For, ast.While)))
            if not (brk_body or brk_else):
                continue
            n += 1
            negated = isinstance(t, ast.UnaryOp) and isinstance(t.op, ast.Not)
            only_ne = all(isinstance(o, ast.NotEq) for c in cmps for o in c.ops)
            # break on the false side of a plain comparison, or on the true side of a negated one / of `!=`
            bad = (brk_else and not brk_body and not negated and not only_ne) or \
                  (brk_body and not brk_else and (negated or only_ne) and
                   any(isinstance(o, (ast.Lt, ast.LtE, ast.Gt, ast.GtE, ast.NotEq)) for c in cmps for o in c.ops) and negated)
            ctx.ob(rule, f"{f.fq}::{norm_src(t)[:60]}", not bad,
                   what=f"{f.qualname}: the loop is left when `{norm_src(t)[:60]}` is {'false' if brk_else else 'true'}, which is "
                        "also what a NaN operand gives: a criterion that overflowed (inf - inf at a trial point, a NaN "
                        "score) is taken for a successful step / for convergence, and NaN coefficients are "
                        "returned with a stopping value that claims success", loc=loc(f, node))
    ctx.floor(rule, n, scope.get("floor", 15))


def r_loopvar(A, ctx, scope, rule="R-LOOPLEFTOVER"):
    ctx.rule(rule, "no leftover of the last iteration: in solver kernels a name whose every definition lies inside "
             "one `for` body (per-coordinate quantities: step size, old value, column) is not read after that "
             "loop - what it holds there is the value of the last coordinate visited (it depends on the order and "
             "scale of the features in the working set), and it is undefined when the loop body never ran")
    n = 0
    for f in A.prog.all_functions():
        if not f.module.name.startswith(("skglm.solvers", "skglm.experimental", "skglm.utils.anderson", "skglm.utils.sparse_ops")):
            continue
        loops = [lp for lp in ast.walk(f.node) if isinstance(lp, ast.For)]
        if not loops:
            continue
        n += 1
        defs = {}
        for st in ast.walk(f.node):
            tg = []
            if isinstance(st, ast.Assign):
                tg = st.targets
            elif isinstance(st, (ast.AugAssign, ast.AnnAssign)):
                tg = [st.target]
            for t in tg:
                for e in (t.elts if isinstance(t, ast.Tuple) else [t]):
                    if isinstance(e, ast.Name):
                        defs.setdefault(e.id, []).append(st)
        params = set(f.params)
        bad = None
        env = A.flow.env.get(f, {})
        for lp in loops:
            # coordinate loops only (over the working set, features, groups, tasks, samples, stored
            # entries of a column): in an iteration-count loop (`range(max_iter)`) the value of the last
            # iteration is the result
            it_names = names_in(lp.iter)
            coord = any(set(env.get(nm, ())) & {"WS", "NF", "NG", "NT", "NS", "GRP_PTR", "GRP_INDICES", "CSC_INDPTR"}
                        for nm in it_names) or any(k in ast.unparse(lp.iter) for k in (
                            "ws", "n_features", "n_groups", "n_tasks", "n_samples", "grp_", "indptr"))
            if not coord:
                continue
            inner = [x for s_ in lp.body for x in ast.walk(s_)]
            inner_ids = {id(x) for x in inner}
            targets = {x.id for x in ast.walk(lp.target) if isinstance(x, ast.Name)}
            for v, ds in defs.items():
                if v in params or v in targets or v.startswith("_"):
                    continue
                if not all(id(d) in inner_ids for d in ds):
                    continue
                # read after the loop, outside it, in the same enclosing statement list or later
                for x in ast.walk(f.node):
                    if isinstance(x, ast.Name) and x.id == v and isinstance(x.ctx, ast.Load) \
                            and id(x) not in inner_ids and getattr(x, "lineno", 0) > lp.end_lineno:
                        # not inside another loop body that redefines it first (handled by defs-all-inside test)
                        bad = (v, lp, x)
        ctx.ob(rule, f"{f.fq}", bad is None,
               what=(f"{f.qualname}: `{bad[0]}` is only ever assigned inside the loop at line {bad[1].lineno} "
                     f"(`for {norm_src(bad[1].target)} in {norm_src(bad[1].iter)[:30]}`) and is read again at line "
                     f"{bad[2].lineno} after it: that is the value left by the last coordinate visited") if bad else "",
               loc=loc(f, bad[2]) if bad else None)
    ctx.floor(rule, n, scope.get("floor", 30))
