"""R-PAIR-EQ (C05, C01): iterate and model fit move together, as symbolic identities.

The structural rule R-PAIR (rules/warm.py) shows that every coefficient store is followed by
a model-fit update of the right shape.  Here the kernels are lifted (sa.region) on the small
design of rules/kernels.py with symbolic data and independent symbols for the incoming model
fit, and the identity itself is decided:

* epoch kernels (coordinate, group, multitask; dense and CSC):
      Xw_after - Xw_before == X @ (w_after - w_before)
* prox-Newton / group prox-Newton descent directions (dense and CSC, intercept on/off):
      X_delta_w == X[:, ws] @ delta_w (+ delta_intercept)
* the three backtracking line searches: every moved coefficient, the intercept and the model
  fit move by ONE common multiple of the direction handed in.
"""
import ast

from ..algebra import Unsupported, const, sym
from ..region import Region, RegionLifter, Vec, Mat, Obj, R, Raised
from .control import loc
from .kernels import world, design, make_obj, _cls, _func, N, P, T


def _sub(L, a, b):
    return L.binop(ast.Sub, a, b)


def r_pair_eq(A, ctx, scope, rule="R-PAIR-EQ"):
    ctx.rule(rule, "iterate / model-fit pairing as identities on a small symbolic design: epochs leave "
             "Xw_after - Xw_before == X @ (w_after - w_before); descent directions return "
             "X_delta_w == X[:, ws] @ delta_w (+ intercept move); line searches move coefficients, "
             "intercept and model fit by one common multiple of the direction")
    prog = A.prog
    X, csc = design()
    n = 0
    y = Vec(sym(f"y{i}") for i in range(N))
    l1 = _cls(prog.penalties, "L1")
    wgl2 = _cls(prog.penalties, "WeightedGroupL2")
    l21 = _cls(prog.penalties, "L2_1")

    def fresh():
        rg = Region(world())
        return RegionLifter(prog, rg, max_steps=40000), rg

    def init(L, dobj, sparse, yv):
        m = dobj.cls.find_method("initialize_sparse" if sparse else "initialize")
        if m is not None and m.cls.name not in ("BaseDatafit", "BaseMultitaskDatafit"):
            L.call_function(m, (list(csc) if sparse else [X]) + [yv], self_obj=dobj)

    def verdict(key, fn, pairs, rg):
        nonlocal n
        n += 1
        bad = None
        for label, lhs, rhs in pairs:
            if not R(lhs).equals(R(rhs)):
                try:
                    bad = f"{label}: {rg.num(lhs):.6g} vs {rg.num(rhs):.6g}"
                except Unsupported:
                    bad = f"{label}: terms differ"
                break
        ctx.ob(rule, key, bad is None,
               what=f"{fn.name}: {bad} on the 3x3 symbolic design - iterate and model fit are out of "
                    "step after this kernel (the certificate is then computed for another point)",
               loc=loc(fn, fn.node))

    def guard(key, fn, body):
        nonlocal n
        if scope.get("only") and scope["only"] not in key:
            return
        import signal
        import os
        import time as _t

        def _alarm(*_):
            raise Unsupported("time budget of the case exceeded (term growth)")
        old = signal.signal(signal.SIGALRM, _alarm)
        signal.alarm(int(scope.get("budget_s", 300)))
        t0 = _t.time()
        try:
            body()
            if os.environ.get("SA_TIMING"):
                print(f"  timing {key}: {_t.time() - t0:.1f}s")
        except Raised as e:
            n += 1
            ctx.ob(rule, key, False, what=f"{fn.name} raises on the small design: {e}", loc=loc(fn, fn.node))
        except (Unsupported, ZeroDivisionError, IndexError) as e:
            ctx.ob(rule, key, None, detail=f"not lifted: {e}")
        finally:
            signal.alarm(0)
            signal.signal(signal.SIGALRM, old)

    # ---------------------------------------------------------------- epochs
    def epoch_case(fn_name, module, dname, pcls, ws, multitask=False, group=False, zero_task=False):
        for sparse in (False, True):
            fn = _func(A, module, fn_name + ("_sparse" if sparse else ""))
            dcls = _cls(prog.datafits, dname)
            key = f"{fn.fq}::{dname}" + ("::zero task" if zero_task else "")

            def body(fn=fn, sparse=sparse, dcls=dcls, key=key):
                L, rg = fresh()
                dobj = make_obj(prog, dcls)
                pobj = make_obj(prog, pcls) if pcls is not l1 else Obj(l1, {"alpha": sym("alpha"), "positive": False})
                if multitask:
                    # zero_task: the last task has identically zero targets, coefficients and model fit
                    # (a legitimate degenerate problem: that column of W stays exactly 0 while the
                    # others move, so "the row changed" must mean "some entry changed")
                    def s_(name, t):
                        return const(0) if zero_task and t == T - 1 else sym(name)
                    Y = Mat(Vec(s_(f"Y{i}{t}", t) for t in range(T)) for i in range(N))
                    init(L, dobj, sparse, Y)
                    W0 = Mat(Vec(s_(f"W{j}{t}", t) for t in range(T)) for j in range(P))
                    XW0 = Mat(Vec(s_(f"XW{i}{t}", t) for t in range(T)) for i in range(N))
                    W, XW = L.copy(W0), L.copy(XW0)
                    lc = Vec(sym(f"lc{j}") for j in range(P))
                    L.call_function(fn, (list(csc) if sparse else [X]) + [Y, W, XW, lc, dobj, pobj, ws])
                    pairs = []
                    dW = Mat(Vec(R(W[j][t]) - R(W0[j][t]) for t in range(T)) for j in range(P))
                    XdW = L.dot(X, dW)
                    for i in range(N):
                        for t in range(T):
                            pairs.append((f"XW[{i},{t}]", R(XW[i][t]) - R(XW0[i][t]), XdW[i][t]))
                    verdict(key, fn, pairs, rg)
                    return
                init(L, dobj, sparse, y)
                w0 = Vec(sym(f"w{j}") for j in range(P))
                Xw0 = Vec(sym(f"Xw{i}") for i in range(N))
                w, Xw = Vec(w0), Vec(Xw0)
                lc = Vec(sym(f"lc{j}") for j in range(2 if group else P))
                L.call_function(fn, (list(csc) if sparse else [X]) + [y, w, Xw, lc, dobj, pobj, ws])
                Xdw = L.dot(X, _sub(L, w, w0))
                verdict(key, fn, [(f"Xw[{i}]", R(Xw[i]) - R(Xw0[i]), Xdw[i]) for i in range(N)], rg)
            guard(key, fn, body)

    epoch_case("_cd_epoch", "skglm.solvers.anderson_cd", "Quadratic", l1, Vec([2, 0]))
    epoch_case("_cd_epoch", "skglm.solvers.anderson_cd", "Logistic", l1, Vec([2, 0]))
    epoch_case("_bcd_epoch", "skglm.solvers.group_bcd", "QuadraticGroup", wgl2, Vec([1]), group=True)
    epoch_case("_bcd_epoch", "skglm.solvers.multitask_bcd", "QuadraticMultiTask", l21, Vec([2]), multitask=True)
    epoch_case("_bcd_epoch", "skglm.solvers.multitask_bcd", "QuadraticMultiTask", l21, Vec([2, 0]), multitask=True,
               zero_task=True)

    # ---------------------------------------------------------------- Gram epoch
    gfn = _func(A, "skglm.solvers.gram_cd", "_gram_cd_epoch")
    for greedy in (False, True):
        key = f"{gfn.fq}::greedy_cd={greedy}"

        def body(greedy=greedy, key=key):
            L, rg = fresh()
            for a in range(P):
                for b in range(a, P):
                    rg.values[f"G{a}{b}"] = (1.5 if a == b else 0.2) + 0.1 * a - 0.05 * b
            G = Mat(Vec(sym(f"G{min(a, b)}{max(a, b)}") for b in range(P)) for a in range(P))
            w0 = Vec(sym(f"w{j}") for j in range(P))
            g0 = Vec(sym(f"g{j}") for j in range(P))
            rg.values["g2"] = 0.45
            w, g = Vec(w0), Vec(g0)
            pobj = Obj(l1, {"alpha": sym("alpha"), "positive": False})
            L.call_function(gfn, [G, w, g, pobj, greedy])
            Gdw = L.dot(G, _sub(L, w, w0))
            verdict(key, gfn, [(f"grad[{i}]", R(g[i]) - R(g0[i]), Gdw[i]) for i in range(P)], rg)
        guard(key, gfn, body)

    # ---------------------------------------------------------------- primal-dual subproblem
    pd = next((c for c in prog.solvers if c.name == "PDCD_WS"), None)
    sq = next((c for c in prog.datafits if c.name == "SqrtQuadratic"), None)
    if pd is not None and sq is not None and "_solve_subproblem" in pd.methods:
        pfn = pd.methods["_solve_subproblem"]
        key = f"{pfn.fq}::SqrtQuadratic"

        def body_pd():
            L, rg = fresh()
            for i in range(N):
                rg.values[f"z{i}"] = 0.2 - 0.15 * i
                rg.values[f"zb{i}"] = -0.1 + 0.12 * i
            for j in range(P):
                rg.values[f"ps{j}"] = 0.5 + 0.1 * j
            rg.values["ds"] = 0.4
            dobj = make_obj(prog, sq)
            pobj = Obj(l1, {"alpha": sym("alpha"), "positive": False})
            w0 = Vec(sym(f"w{j}") for j in range(P))
            Xw0 = Vec(sym(f"Xw{i}") for i in range(N))
            w, Xw = Vec(w0), Vec(Xw0)
            z = Vec(sym(f"z{i}") for i in range(N))
            zb = Vec(sym(f"zb{i}") for i in range(N))
            ps = Vec(sym(f"ps{j}") for j in range(P))
            L.call_function(pfn, [y, X, w, Xw, z, zb, dobj, pobj, ps, sym("ds"), Vec([2, 0]), 1, sym("BIGTOL")])
            Xdw = L.dot(X, _sub(L, w, w0))
            verdict(key, pfn, [(f"Xw[{i}]", R(Xw[i]) - R(Xw0[i]), Xdw[i]) for i in range(N)], rg)
        guard(key, pfn, body_pd)

    # ---------------------------------------------------------------- prox-Newton directions
    pn = "skglm.solvers.prox_newton"
    ws = Vec([2, 0])
    for dname in ("Quadratic", "Poisson"):
        dcls = _cls(prog.datafits, dname)
        for fi in (False, True):
            for sparse in (False, True):
                fn = _func(A, pn, "_descent_direction" + ("_s" if sparse else ""))
                key = f"{fn.fq}::{dname},fit_intercept={fi}"

                def body(fn=fn, sparse=sparse, dcls=dcls, fi=fi, key=key):
                    L, rg = fresh()
                    dobj = make_obj(prog, dcls)
                    pobj = Obj(l1, {"alpha": sym("alpha"), "positive": False})
                    init(L, dobj, sparse, y)
                    w = Vec([sym(f"w{j}") for j in range(P)] + ([sym("b0")] if fi else []))
                    Xw = Vec(sym(f"Xw{i}") for i in range(N))
                    out = L.call_function(fn, (list(csc) if sparse else [X]) + [
                        y, w, Xw, fi, Vec([sym("g0"), sym("g1")]), dobj, pobj, ws, sym("BIGTOL"), "subdiff"])
                    delta, Xd = out[0], out[1]
                    exp = [const(0)] * N
                    for k, j in enumerate(ws):
                        for i in range(N):
                            exp[i] = exp[i] + R(X[i][j]) * R(delta[k])
                    if fi:
                        exp = [e + R(delta[-1]) for e in exp]
                    verdict(key, fn, [(f"X_delta_w[{i}]", Xd[i], exp[i]) for i in range(N)], rg)
                guard(key, fn, body)

    # ---------------------------------------------------------------- group prox-Newton
    gpn = "skglm.solvers.group_prox_newton"
    lg = _cls(prog.datafits, "LogisticGroup")
    if lg is not None:
        for fi, gsel in ((False, 1), (True, 1), (False, 0), (True, 0)):
            fn = _func(A, gpn, "_descent_direction")
            key = f"{fn.fq}::LogisticGroup,fit_intercept={fi},ws=[{gsel}]"

            def body(fn=fn, fi=fi, key=key, gsel=gsel):
                L, rg = fresh()
                dobj = make_obj(prog, lg)
                pobj = make_obj(prog, wgl2)
                w = Vec([sym(f"w{j}") for j in range(P)] + ([sym("b0")] if fi else []))
                # curvature at the zero predictor (constants): the identity does not depend on
                # where the quadratic model is built, and logistic curvatures at a symbolic
                # predictor exceed the size budget
                Xw = Vec(const(0) for _ in range(N))
                gws = Vec([gsel])                                 # group {0, 1} or the single feature {2}
                gi, gp = pobj.attrs["grp_indices"], pobj.attrs["grp_ptr"]
                feats = [gi[i] for i in range(gp[gsel], gp[gsel + 1])]
                out = L.call_function(fn, [X, y, w, Xw, fi, Vec([const(0)] * len(feats)), dobj, pobj, gws,
                                           sym("BIGTOL")])
                delta, Xd = out[0], out[1]
                exp = [const(0)] * N
                for k, j in enumerate(feats):
                    for i in range(N):
                        exp[i] = exp[i] + R(X[i][j]) * R(delta[k])
                if fi:
                    exp = [e + R(delta[-1]) for e in exp]
                verdict(key, fn, [(f"X_delta_w[{i}]", Xd[i], exp[i]) for i in range(N)], rg)
            guard(key, fn, body)

    # ---------------------------------------------------------------- line searches
    def ls_case(fn, sparse, dcls, pobj_of, wsv, feats, fi, extra_world=None):
        key = f"{fn.fq}::{dcls.name},fit_intercept={fi}"

        def body():
            # look for a witness on which the unit step is rejected at least once: that is the
            # region where the pairing of the moves matters
            base = dict(extra_world or {})
            last = None
            for sign in (1.0, -1.0):
                for scale in (1.0, 2.0, 4.0, 8.0, 16.0, 0.5):
                    wv = {k: v * sign * scale for k, v in base.items()}
                    try:
                        res = one(wv)
                    except Raised:
                        raise
                    except Unsupported as e:
                        last = e
                        continue
                    if res is not None:
                        return
            if last is not None:
                raise last
            raise Unsupported("no witness on which the unit step is rejected (backtracking not exercised)")

        def one(wv):
            L, rg = fresh()
            rg.values.update(wv)
            dobj = make_obj(prog, dcls)
            pobj = pobj_of()
            init(L, dobj, sparse, y)
            w0 = Vec([sym(f"w{j}") for j in range(P)] + ([sym("b0")] if fi else []))
            Xw0 = Vec(sym(f"Xw{i}") for i in range(N))
            w, Xw = Vec(w0), Vec(Xw0)
            delta = Vec([sym(f"d{k}") for k in range(len(feats))] + ([sym("db")] if fi else []))
            Xd = Vec(sym(f"Xd{i}") for i in range(N))
            L.call_function(fn, (list(csc) if sparse else [X]) + [y, w, Xw, fi, dobj, pobj, delta, Xd, wsv])
            ratios = [(f"w[{j}]", (R(w[j]) - R(w0[j])) / R(delta[k])) for k, j in enumerate(feats)]
            if fi:
                ratios.append(("intercept", (R(w[-1]) - R(w0[-1])) / R(delta[-1])))
            ratios += [(f"Xw[{i}]", (R(Xw[i]) - R(Xw0[i])) / R(Xd[i])) for i in range(N)]
            ref = ratios[-1][1]
            # the test that leaves the search (a `break` in either arm) was evaluated more than
            # once iff the unit step was rejected at least once
            exits = {id(x) for x in ast.walk(fn.node) if isinstance(x, ast.If)
                     and any(isinstance(b, ast.Break) for b in x.body + x.orelse)}
            if sum(1 for nid, taken in L.decisions if nid in exits) < 2:
                return None                  # unit step accepted: backtracking not exercised here
            verdict(key, fn, [(f"step of {lab} vs step of the model fit", r, ref) for lab, r in ratios[:-1]], rg)
            # untouched coefficients stay untouched
            others = [j for j in range(P) if j not in feats]
            verdict(key + "::others", fn, [(f"w[{j}]", w[j], w0[j]) for j in others], rg)
            return True
        guard(key, fn, body)

    # witness chosen so that the first trial step is rejected at least once (d scaled up)
    reject = {"d0": -0.31, "d1": 0.26, "db": 0.13, "Xd0": 0.24, "Xd1": -0.17, "Xd2": 0.33}
    for dname in ("Quadratic", "Logistic"):
        dcls = _cls(prog.datafits, dname)
        for fi in (False, True):
            for sparse in (False, True):
                fn = _func(A, pn, "_backtrack_line_search" + ("_s" if sparse else ""))
                ls_case(fn, sparse, dcls, lambda: Obj(l1, {"alpha": sym("alpha"), "positive": False}),
                        Vec([2, 0]), [2, 0], fi, extra_world=reject)
    if lg is not None:
        fn = _func(A, gpn, "_backtrack_line_search")
        for fi in (False, True):
            ls_case(fn, False, lg, lambda: make_obj(prog, wgl2), Vec([1]), [0, 1], fi, extra_world=reject)
    ctx.floor(rule, n, scope.get("floor", 30))
