"""R-CRITICAL (C16): critical-strength formulas that live outside the penalty classes.

Each site computes an `alpha_max` for a fixed (datafit, penalty) pair.  It is lifted with
the region lifter on a small concrete design (3 samples; one single-feature group and one
two-feature group) and compared with the value *derived from the two components*:
    max over blocks g with non-zero slope of  |grad_g datafit(0)| / (slope of value() at 0 per unit alpha)
where the gradient is the datafit's own accessor lifted at the null model and the slope is
the directional derivative of the penalty's own value() at the zero block.
"""
import ast
from fractions import Fraction

from ..algebra import Unsupported, const, sym, derivative, substitute
from ..region import Region, RegionLifter, Vec, Mat, Obj, R, Raised
from ..model import AnalysisError
from .control import loc

XV = [[0.9, -1.4, 0.6], [-0.3, 0.8, 1.7], [1.1, 0.5, -0.7]]
YV = [1.3, -0.4, 2.2]


def _cls(A, reg, name):
    for c in reg:
        if c.name == name:
            return c
    raise AnalysisError(f"class {name} not found")


def _world(weights):
    vals = {"alpha": 1.0, "wtA": weights[0], "wt": weights[1]}
    for i in range(3):
        vals[f"y{i}"] = YV[i]
        for j in range(3):
            vals[f"x{i}{j}"] = XV[i][j]
    return vals


def _inputs():
    X = Mat(Vec(sym(f"x{i}{j}") for j in range(3)) for i in range(3))
    y = Vec(sym(f"y{i}") for i in range(3))
    return X, y


def r_critical(A, ctx, scope, rule="R-CRITICAL"):
    ctx.rule(rule, "alpha_max formulas outside the penalty classes equal max_g |grad_g datafit(0)| / "
             "(slope of the penalty's value() at the zero block per unit alpha), both sides lifted "
             "from the components' own code on a small concrete design, zero weights excluded")
    n = 0
    # ---- site 1: _alpha_max_group_lasso  <->  QuadraticGroup x WeightedGroupL2
    m = A.prog.modules.get("skglm.utils.data")
    f = m.functions.get("_alpha_max_group_lasso") if m else None
    if f is None:
        raise AnalysisError("skglm.utils.data._alpha_max_group_lasso missing")
    dcls = _cls(A, A.prog.datafits, "QuadraticGroup")
    pcls = _cls(A, A.prog.penalties, "WeightedGroupL2")
    grp_ptr, grp_idx = Vec([0, 1, 3]), Vec([2, 0, 1])      # non-contiguous groups {2}, {0, 1}
    for tag, wvals in (("weights>0", (1.3, 0.7)), ("zero weight on the large group", (1.3, 0.0)),
                       ("zero weight on the first group", (0.0, 0.7))):
        key = f"{f.fq}::{tag}"
        try:
            rg = Region(_world(wvals))
            L = RegionLifter(A.prog, rg)
            X, y = _inputs()
            wts = Vec([sym("wtA") if wvals[0] else const(0), sym("wt") if wvals[1] else const(0)])
            got = R(L.call_function(f, [X, y, grp_idx, grp_ptr, wts]))
            dobj = Obj(dcls, {"grp_ptr": grp_ptr, "grp_indices": grp_idx})
            pobj = Obj(pcls, {"alpha": sym("alpha"), "weights": wts, "grp_ptr": grp_ptr,
                              "grp_indices": grp_idx, "positive": False})
            zero_w = Vec([const(0)] * 3)
            zero_Xw = Vec([const(0)] * 3)
            best = None
            for g, feats in enumerate(([2], [0, 1])):
                grad = L.call_function(dcls.find_method("gradient_g"), [X, y, zero_w, zero_Xw, g], self_obj=dobj)
                gn = L.norm2(Vec(grad))
                # slope of value() at 0 along a unit direction of block g
                rg.values["eps"] = 1e-4
                w = [const(0)] * 3
                d = [Fraction(1)] if len(feats) == 1 else [Fraction(3, 5), Fraction(4, 5)]
                for k, j in enumerate(feats):
                    w[j] = sym("eps") * const(d[k])
                val = R(L.call_function(pcls.find_method("value"), [Vec(w)], self_obj=pobj))
                slope = substitute(derivative(val, ("sym", "eps")), {("sym", "eps"): const(0)}) / sym("alpha")
                if slope.is_zero():
                    continue
                cand = gn / slope
                best = cand if best is None else L.maxmin(True, best, cand)
            n += 1
            ok = best is not None and got.equals(best)
            res = rg.num(got) - (rg.num(best) if best is not None else 0.0)
            ctx.ob(rule, key, True if ok else (False if abs(res) > 1e-9 else None),
                   what=f"_alpha_max_group_lasso ({tag}) = {rg.num(got):.4g} is not max_g |grad_g "
                        f"QuadraticGroup(0)| / weights[g] = {rg.num(best) if best is not None else float('nan'):.4g}: "
                        "at or above it the null model is not / below it already the solution",
                   detail="" if ok else "normal forms differ", loc=loc(f, f.node))
        except (Unsupported, Raised, ZeroDivisionError) as e:
            ctx.ob(rule, key, None, detail=f"not lifted: {e}")
    # ---- site 2: default grid of SqrtLasso.path  <->  SqrtQuadratic x L1
    em = A.prog.modules.get("skglm.experimental.sqrt_lasso")
    ecls = em.classes.get("SqrtLasso") if em else None
    pf = ecls.methods.get("path") if ecls else None
    if pf is None:
        raise AnalysisError("SqrtLasso.path missing")
    # the scalar that multiplies the geometric grid is the first (largest) alpha of the default
    # path, whatever the local is called
    site = None
    lead = None
    for st in ast.walk(pf.node):
        if isinstance(st, ast.Assign) and isinstance(st.value, ast.BinOp) and isinstance(st.value.op, ast.Mult):
            for a, b in ((st.value.left, st.value.right), (st.value.right, st.value.left)):
                if isinstance(a, ast.Name) and isinstance(b, ast.Call) \
                        and ast.unparse(b.func).split(".")[-1] in ("geomspace", "logspace"):
                    lead = a.id
    for st in ast.walk(pf.node):
        if lead and isinstance(st, ast.Assign) and isinstance(st.targets[0], ast.Name) and st.targets[0].id == lead:
            site = st
    key = f"{pf.fq}::alpha_max"
    if site is None:
        ctx.ob(rule, key, None, detail="default-grid alpha_max assignment not found")
    else:
        try:
            rg = Region(_world((1.0, 1.0)))
            L = RegionLifter(A.prog, rg)
            X, y = _inputs()
            params = pf.call_params()
            got = R(L.ev(site.value, {params[0]: X, params[1]: y}, pf))
            dq = em.classes.get("SqrtQuadratic")
            l1 = _cls(A, A.prog.penalties, "L1")
            dobj = Obj(dq, {})
            zero_Xw = Vec([const(0)] * 3)
            raw = L.call_function(dq.find_method("raw_grad"), [y, zero_Xw], self_obj=dobj)
            grad = L.dot(X.__class__(Vec(c) for c in zip(*X)), Vec(raw))       # X.T @ raw_grad
            pobj = Obj(l1, {"alpha": sym("alpha"), "positive": False})
            best = None
            for j in range(3):
                rg.values["eps"] = 1e-4
                w = [const(0)] * 3
                w[j] = sym("eps")
                val = R(L.call_function(l1.find_method("value"), [Vec(w)], self_obj=pobj))
                slope = substitute(derivative(val, ("sym", "eps")), {("sym", "eps"): const(0)}) / sym("alpha")
                cand = L.absval(grad[j]) / slope
                best = cand if best is None else L.maxmin(True, best, cand)
            n += 1
            ok = got.equals(best)
            res = rg.num(got) - rg.num(best)
            ctx.ob(rule, key, True if ok else (False if abs(res) > 1e-9 else None),
                   what=f"SqrtLasso.path: the first value of the default grid ({rg.num(got):.4g} on the "
                        f"witness design) is not max_j |X_j^T raw_grad(0)| / slope of L1 at 0 = "
                        f"{rg.num(best):.4g}, the critical value of the objective it solves",
                   detail="" if ok else "normal forms differ", loc=loc(pf, site))
        except (Unsupported, Raised, ZeroDivisionError) as e:
            ctx.ob(rule, key, None, detail=f"not lifted: {e}")
    ctx.floor(rule, n, scope.get("floor", 4))
