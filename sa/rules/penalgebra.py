"""Algebraic rules on penalties: R-DERIV-PEN (score = distance to the derivative of
value on smooth regions, kink thresholds = one-sided limits), R-PROXFOC (prox output
satisfies the first-order condition of its own value on every order region, zero is
returned exactly below the kink threshold), R-ALPHAMAX, R-RED (reductions).

Order regions are enumerated through rational witness points: the witness only selects
which branch (indicator assignment) of the lifted piecewise terms is active; the
comparison on that region is symbolic."""
import itertools
import math
from fractions import Fraction

from ..model import AnalysisError
from ..algebra import (RF, Unsupported, const, sym, el, fn, summation, size_of, derivative,
                       specialise, substitute, show_rf, atom_rf, KEY2RF, ind_of, lift as tolift)
from ..lift import Lifter, Arr, IdxV, Fill, finalize, as_rf, PyConst, SelfObj
from .control import loc
from .formulas import make_self, _attempt, check_undecided

HYPER = {"alpha": 1.0, "gamma": 3.0, "l1_ratio": 0.5, "eps": 0.5, "s": 0.25, "INF": 1e30,
         "#P": 1.0, "#T": 1.0, "#G": 1.0}
ARRAY_VALS = {"weights": 2.0 / 3.0, "weights_groups": 0.7, "weights_features": 0.4, "alphas": 1.0}


# ---------------------------------------------------------------- evaluation
def evaluate(rf, env):
    """numeric value of a term in the singleton world (every extent has one element)"""
    def ev_atom(a):
        if a[0] == "sym":
            if a[1] in env:
                return env[a[1]]
            if a[1] in HYPER:
                return HYPER[a[1]]
            raise Unsupported(f"no witness value for {a[1]}")
        if a[0] == "el":
            if a[1] in env:
                return env[a[1]]
            if a[1] in ARRAY_VALS:
                return ARRAY_VALS[a[1]]
            raise Unsupported(f"no witness value for array {a[1]}")
        if a[0] == "fn":
            x = evaluate(KEY2RF[a[2]], env)
            f = a[1]
            if f == "abs":
                return abs(x)
            if f == "sign":
                return (x > 0) - (x < 0)
            if f == "pos":
                return max(0.0, x)
            if f == "sqrt":
                return math.sqrt(x) if x >= 0 else float("nan")
            if f == "exp":
                return math.exp(x)
            if f == "log":
                return math.log(x) if x > 0 else float("nan")
            if f in ("amax", "amin"):
                return x
            if f.startswith("pow"):
                n, d = f[3:].split("/")
                return x ** (int(n) / int(d)) if x >= 0 else float("nan")
            raise Unsupported(f"no numeric semantics for {f}")
        if a[0] == "sum":
            return evaluate(KEY2RF[a[2]], env)
        if a[0] == "ind":
            x = evaluate(KEY2RF[a[1][1]], env)
            return 1.0 if ((x < 0) if a[1][0] == "<" else (x == 0)) else 0.0
        raise Unsupported(f"atom {a[0]}")

    def ev_poly(p):
        tot = 0.0
        for m, c in p.items():
            vals = [(ev_atom(a), e) for a, e in m]
            if any(v == 0 and e > 0 for v, e in vals):
                continue          # 0 * inf = 0 here: a vanishing indicator kills the term
            t = float(c)
            for v, e in vals:
                t *= v ** e
            tot += t
        return tot
    rf = tolift(rf)
    d = ev_poly(rf.den)
    n = ev_poly(rf.num)
    if d == 0:
        return float("inf") if n > 0 else float("-inf") if n < 0 else float("nan")
    return n / d


def ind_assignment(rfs, env):
    """{cond: bool} for every indicator atom (nested included) of the given terms"""
    out = {}
    for rf in rfs:
        for a in tolift(rf).all_atoms():
            if a[0] == "ind" and a[1] not in out:
                x = evaluate(KEY2RF[a[1][1]], env)
                out[a[1]] = (x < 0) if a[1][0] == "<" else (x == 0)
    return out


# ------------------------------------------------------------------ lifting
class PenaltyModel:
    def __init__(self, A, cls, var):
        self.A, self.prog, self.cls, self.var = A, A.prog, cls, var
        self.L = Lifter(A.prog, cls.module)
        self.block = cls.find_method("prox_1feat") is not None
        self.group = cls.find_method("prox_1group") is not None
        self.err = {}
        self.tag = cls.name + ("" if not var else "[" + ",".join(f"{k}={v}" for k, v in var.items()) + "]")

    def so(self):
        return make_self(self.prog, self.cls, self.L, {k: PyConst(v) for k, v in self.var.items()})

    def has(self, m):
        f = self.cls.find_method(m)
        return f is not None and f.cls.name != "BasePenalty"

    def w(self):
        if self.block:
            return Arr(("P", "T"), lambda j, t: el("w", j, t))
        return Arr(("P",), lambda j: el("w", j))

    def g(self):
        if self.block:
            return Arr(("P", "T"), lambda j, t: el("g", j, t))
        return Arr(("P",), lambda j: el("g", j))

    def value(self):
        f = self.cls.find_method("value")
        return _attempt(self.err, "value", lambda: as_rf(self.L.call_function(f, [self.w()], self_obj=self.so())))

    def subdiff(self):
        f = self.cls.find_method("subdiff_distance")
        # the working set maps positions k to coordinates ws(k): an accessor that mixes
        # the two kinds (grad[j], weights[idx]) lifts to a different term
        ws = Arr(("S",), lambda k: IdxV(("ws", k), extent="P"))
        gpos = Arr(("S",), lambda k: el("g", k))

        def run():
            v = self.L.call_function(f, [self.w(), gpos, ws], self_obj=self.so())
            v = finalize(v) if isinstance(v, Fill) else v
            return as_rf(v.at("k0"))
        return _attempt(self.err, "subdiff_distance", run)

    def prox1d(self):
        f = self.cls.find_method("prox_1d")
        return _attempt(self.err, "prox_1d", lambda: as_rf(self.L.call_function(
            f, [sym("x"), sym("s"), IdxV(("ws", "k0"), extent="P")], self_obj=self.so())))

    def alpha_max(self):
        f = self.cls.find_method("alpha_max")
        return _attempt(self.err, "alpha_max", lambda: as_rf(self.L.call_function(
            f, [Arr(("P",), lambda j: el("g", j))], self_obj=self.so())))

    def loc(self, m):
        f = self.cls.find_method(m)
        return loc(f, f.node)


def variants(prog, cls):
    spec = dict(prog.spec_of(cls) or [])
    bools = [k for k, t in spec.items() if "bool" in t]
    return [dict(zip(bools, v)) for v in itertools.product([False, True], repeat=len(bools))] or [{}]


W_ATOM = ("el", "w", (("ws", "k0"),))
W_WITNESS = [-5.0, -2.0, -0.5, 0.0, 0.5, 2.0, 5.0]
G_WITNESS = [-2.0, -0.3, 0.3, 2.0]


def _wkey():
    return atom_rf(W_ATOM).key()


def _limit_at_zero(dv, env, side=+1):
    """one-sided limit of dv as w[j0] -> 0 (side +1: from above); None if infinite"""
    e2 = dict(env)
    e2["w"] = 1e-6 * side
    asg = ind_assignment([dv], e2)
    d = specialise(dv, asg, {_wkey(): side})
    try:
        r = substitute(d, {W_ATOM: const(0)})
        v = evaluate(r, dict(env, w=0.0))
        if v != v or v in (float("inf"), float("-inf")):
            return None
        return r
    except (Unsupported, ZeroDivisionError, OverflowError):
        return None


def r_deriv_pen(A, ctx, scope, rule="R-DERIV-PEN"):
    ctx.rule(rule, "separable penalties: on every order region of w_j (witness-selected "
             "branch, symbolic comparison) subdiff_distance equals |grad + d value/d w_j| where "
             "value is smooth; at the kink w_j = 0 it equals max(0, |grad| - t) (positive: "
             "max(0, -grad - t)) with t the one-sided limit of d value/d w_j (infinite t: "
             "score 0); with positive=True and w_j < 0 it is +inf; indicator penalties follow "
             "the normal-cone template")
    n = 0
    und = []
    for cls in A.prog.penalties:
        if cls.find_method("prox_1d") is None or cls.find_method("subdiff_distance") is None:
            continue
        for var in variants(A.prog, cls):
            pm = PenaltyModel(A, cls, var)
            sd, val = pm.subdiff(), pm.value()
            if sd is None or val is None:
                und.append((pm.tag, pm.err))
                continue
            positive = bool(var.get("positive"))
            is_indicator = "INF" in {a[1] for a in val.all_atoms() if a[0] == "sym"} and not positive
            dv = _attempt(pm.err, "d value", lambda: derivative(val, W_ATOM))
            if dv is None:
                und.append((pm.tag, pm.err))
                continue
            seen = set()
            g = el("g", "k0")
            has_w = any(nm.startswith("weights") for nm, _ in (A.prog.spec_of(cls) or []))
            for wv, wtv in [(a_, b_) for a_ in W_WITNESS for b_ in ((None, 0.0) if has_w else (None,))]:
                for gv in G_WITNESS:
                    env = {"w": wv, "g": gv}
                    if wtv is not None:
                        env.update({"weights": wtv})
                    try:
                        asg = ind_assignment([sd, dv], env)
                    except Unsupported as e:
                        und.append((pm.tag, {"witness": str(e)}))
                        continue
                    sgn = (wv > 0) - (wv < 0)
                    region = (sgn, tuple(sorted((str(k), v) for k, v in asg.items()
                                                if "g[" not in show_rf(KEY2RF[k[1]]))))
                    if region in seen:
                        continue
                    seen.add(region)
                    # indicators that depend on g stay symbolic
                    asg_w = {k: v for k, v in asg.items() if "g[" not in show_rf(KEY2RF[k[1]])}
                    signs = {_wkey(): sgn}
                    got = specialise(sd, asg_w, signs)
                    if sgn == 0:
                        got = substitute(got, {W_ATOM: const(0)})
                    n += 1
                    label = f"{cls.fq}::{pm.tag}::region(w{'<' if sgn < 0 else '>' if sgn > 0 else '='}0" \
                            f"{',|w|=' + str(abs(wv)) if sgn else ''}{',weight=0' if wtv == 0.0 else ''})"
                    if is_indicator:
                        # normal cone of a box [0, alpha] / half line [0, inf)
                        upper = any(a == ("sym", "alpha") for a in val.all_atoms())
                        if sgn == 0:
                            exp = fn("pos", -g)
                        elif upper and wv == HYPER["alpha"]:
                            exp = fn("pos", g)
                        elif sgn < 0 and not upper:
                            exp = sym("INF")
                        else:
                            exp = fn("abs", g)
                        ok = got.equals(exp)
                    elif positive and sgn < 0:
                        exp = sym("INF")
                        ok = got.equals(exp)
                    elif sgn != 0:
                        d = specialise(dv, asg_w, signs)
                        exp = fn("abs", g + d)
                        ok = got.equals(exp)
                    else:
                        t = _limit_at_zero(dv, env, +1)
                        if t is None:
                            exp = const(0)
                        elif positive:
                            exp = fn("pos", -g - t)
                        else:
                            exp = fn("pos", fn("abs", g) - t)
                        ok = got.equals(exp)
                    if wtv == 0.0:
                        zero_w = lambda t: substitute(t, {a: const(0) for a in t.all_atoms()      # noqa: E731
                                                          if a[0] == "el" and str(a[1]).startswith("weights")})
                        got, exp = zero_w(got), zero_w(exp)
                        ok = got.equals(exp)
                    ctx.ob(rule, label, ok,
                           what=f"{pm.tag}.subdiff_distance on this region is "
                                f"`{show_rf(got)[:140]}` but the distance of -grad to the "
                                f"subdifferential of value() there is `{show_rf(exp)[:140]}`",
                           loc=pm.loc("subdiff_distance"),
                           data=dict(got=show_rf(got), expected=show_rf(exp)))
    for tag, e in und:
        ctx.note(f"{rule}: {tag} not lifted ({str(e)[:120]})")
    ctx.extra.setdefault("undecided_lifts", []).extend([dict(penalty=t, reason=str(e)[:160]) for t, e in und])
    check_undecided(ctx, rule, [(t, e) for t, e in und])
    ctx.floor(rule, n, scope.get("floor", 40))
    return und


X_WITNESS = [k / 8.0 for k in range(-48, 49)]
# closed forms of non-convex scalar proxes whose global optimality is an analytic result
# (no structural clause): not claimed, see DESIGN.md C07
PROX_NOT_CLAIMED = {
    "L0_5": "closed-form l_0.5 prox (trigonometric root formula)",
    "L2_3": "closed-form l_2/3 prox (quartic root formula)",
    "LogSumPenalty": "log-sum prox (bisection on a threshold)",
    "SCAD": "SCAD prox = argmin over three candidates: decided on regions by R-PROXFOC-CLOSED",
}


def r_proxfoc(A, ctx, scope, rule="R-PROXFOC"):
    ctx.rule(rule, "prox_1d against the penalty's own value(): on every order region of x "
             "(witness-selected branch) a non-zero output u satisfies the first-order "
             "condition u - x + s * d value/d w (u) = 0 symbolically (sign(u) = sign(x)); the "
             "output is 0 exactly when |x| <= s * t (positive: x <= s * t) with t the kink "
             "threshold of value; with positive=True the output is never negative; box "
             "penalties project onto the set where value is finite")
    n = 0
    und = []
    for cls in A.prog.penalties:
        if cls.find_method("prox_1d") is None:
            continue
        if cls.name in PROX_NOT_CLAIMED:
            ctx.note(f"{rule}: {cls.name}.prox_1d not claimed: {PROX_NOT_CLAIMED[cls.name]}")
            continue
        for var in variants(A.prog, cls):
            pm = PenaltyModel(A, cls, var)
            px, val = pm.prox1d(), pm.value()
            if px is None or val is None:
                und.append((pm.tag, pm.err))
                continue
            positive = bool(var.get("positive"))
            syms = {a[1] for a in val.all_atoms() if a[0] == "sym"}
            is_indicator = "INF" in syms and not positive
            dv = _attempt(pm.err, "d value", lambda: derivative(val, W_ATOM))
            if dv is None:
                und.append((pm.tag, pm.err))
                continue
            s = sym("s")
            x = sym("x")
            seen = set()
            thr0 = _limit_at_zero(dv, {"g": 0.0}, +1)
            bad_zero = None
            for xv in X_WITNESS:
                env = {"x": xv, "w": xv, "g": 0.0}
                try:
                    asg = ind_assignment([px], env)
                    uv = evaluate(px, env)
                except Unsupported as e:
                    und.append((pm.tag, {"witness": str(e)}))
                    break
                sgn = (xv > 0) - (xv < 0)
                if abs(uv) < 1e-9:
                    uv = 0.0
                if is_indicator and xv == 0:
                    continue
                if is_indicator:
                    upper = ("sym", "alpha") in val.all_atoms()
                    exp = 0.0 if xv < 0 else (min(xv, HYPER["alpha"]) if upper else xv)
                    region = ("box", xv < 0, upper and xv > HYPER["alpha"])
                    if region in seen:
                        continue
                    seen.add(region)
                    n += 1
                    u_spec = specialise(px, asg, {x.key(): sgn})
                    expect = const(0) if xv < 0 else (sym("alpha") if upper and xv > HYPER["alpha"] else x)
                    ctx.ob(rule, f"{cls.fq}::{pm.tag}::projection({region[1:]})", u_spec.equals(expect),
                           what=f"{pm.tag}.prox_1d returns `{show_rf(u_spec)[:80]}` instead of the "
                                f"projection `{show_rf(expect)}` on this region", loc=pm.loc("prox_1d"))
                    continue
                if positive and uv < -1e-9:
                    n += 1
                    ctx.ob(rule, f"{cls.fq}::{pm.tag}::negative-output", False,
                           what=f"{pm.tag}.prox_1d returns a negative value ({uv:.3g}) for x={xv} "
                                "with positive=True", loc=pm.loc("prox_1d"))
                    continue
                if uv == 0:
                    # zero must be optimal: |x| <= s*t  (positive: x <= s*t)
                    if thr0 is None:
                        continue
                    tnum = evaluate(thr0, env)
                    lim = HYPER["s"] * tnum
                    okz = (xv <= lim + 1e-12) if positive else (abs(xv) <= lim + 1e-12)
                    if not okz and bad_zero is None:
                        bad_zero = (xv, lim)
                    continue
                region = (sgn, tuple(sorted((str(k), v) for k, v in asg.items())))
                if region in seen:
                    continue
                seen.add(region)
                n += 1
                u_spec = specialise(px, asg, {x.key(): sgn})
                # d value at w = u : region of value's own indicators decided at w = uv
                envu = {"w": uv, "g": 0.0}
                try:
                    asg_v = ind_assignment([dv], envu)
                except Unsupported as e:
                    und.append((pm.tag, {"witness": str(e)}))
                    continue
                su = (uv > 0) - (uv < 0)
                d_u = specialise(dv, asg_v, {_wkey(): su})
                d_u = substitute(d_u, {W_ATOM: u_spec})
                # nested abs/sign of u: sign known
                d_u = specialise(d_u, {}, {u_spec.key(): su})
                foc = u_spec - x + s * d_u
                foc = specialise(foc, {}, {x.key(): sgn})
                ok = foc.is_zero()
                # nonzero output must not be returned below the threshold either
                ctx.ob(rule, f"{cls.fq}::{pm.tag}::foc(x{'>' if sgn > 0 else '<'}0,u={uv:.3g})", ok,
                       what=f"{pm.tag}.prox_1d returns u = `{show_rf(u_spec)[:100]}` on this region; "
                            f"u - x + s * value'(u) = `{show_rf(foc)[:120]}` is not zero: u is not "
                            "a stationary point of 0.5 (u - x)^2 + s * value(u)",
                       loc=pm.loc("prox_1d"), data=dict(u=show_rf(u_spec), foc=show_rf(foc)))
                # and a non-zero output below the threshold is wrong as well
                if thr0 is not None:
                    tnum = evaluate(thr0, env)
                    lim = HYPER["s"] * tnum
                    below = (xv < lim - 1e-12) if positive else (abs(xv) < lim - 1e-12)
                    if below and ok:
                        n += 1
                        ctx.ob(rule, f"{cls.fq}::{pm.tag}::nonzero-below-threshold", False,
                               what=f"{pm.tag}.prox_1d returns {uv:.3g} for x={xv} although "
                                    f"|x| < s * t = {lim:.3g}: 0 is the minimiser there",
                               loc=pm.loc("prox_1d"))
            if not is_indicator:
                n += 1
                ctx.ob(rule, f"{cls.fq}::{pm.tag}::zero-region", bad_zero is None,
                       what=(f"{pm.tag}.prox_1d returns 0 for x = {bad_zero[0]} although "
                             f"|x| > s * t = {bad_zero[1]:.4g} (t = kink threshold of value()): "
                             "0 is not the minimiser there") if bad_zero else None,
                       loc=pm.loc("prox_1d"))
    for tag, e in und:
        ctx.note(f"{rule}: {tag} not lifted ({str(e)[:120]})")
    check_undecided(ctx, rule, [(t, e) for t, e in und])
    ctx.floor(rule, n, scope.get("floor", 20))
    return und


def r_alphamax(A, ctx, scope, rule="R-ALPHAMAX"):
    ctx.rule(rule, "critical strength: alpha_max(grad0) == max_j |grad0_j| / k_j where "
             "alpha * k_j is the kink threshold of value() at w_j = 0 (so that every "
             "penalised coordinate's kink threshold dominates its gradient at alpha_max)")
    n = 0
    for cls in A.prog.penalties:
        if cls.find_method("alpha_max") is None:
            continue
        pm = PenaltyModel(A, cls, {k: False for k in (variants(A.prog, cls)[0])})
        am, val = pm.alpha_max(), pm.value()
        if am is None or val is None:
            ctx.note(f"{rule}: {pm.tag} not lifted ({pm.err})")
            continue
        dv = derivative(val, W_ATOM)
        thr = _limit_at_zero(dv, {"g": 0.0}, +1)
        if thr is None:
            ctx.note(f"{rule}: {pm.tag}: infinite kink threshold")
            continue
        k = thr / sym("alpha")
        n += 1
        if ("sym", "alpha") in k.all_atoms():
            ctx.ob(rule, f"{cls.fq}::alpha_max", False,
                   what=f"{cls.name}: kink threshold `{show_rf(thr)}` is not proportional to alpha",
                   loc=pm.loc("alpha_max"))
            continue
        # split k into index-free and index-dependent factors
        from ..algebra import subst_index
        kg = subst_index(k, "k0", ("$", 95))
        kg = substitute(kg, {a: atom_rf(("el", a[1], (("$", 95),))) for a in kg.all_atoms()
                             if a[0] == "el" and a[2] == (("ws", ("$", 95)),)})
        free = k if "k0" not in k.free_indices() else None
        if free is not None:
            expect = atom_rf(("fn", "amax", fn("abs", el("g", ("$", 95))).key())) / free
        else:
            expect = atom_rf(("fn", "amax", fn("abs", el("g", ("$", 95)) / kg).key()))
        ok = am.equals(expect)
        ctx.ob(rule, f"{cls.fq}::alpha_max", ok,
               what=f"{cls.name}.alpha_max returns `{show_rf(am)[:100]}` but value() has kink "
                    f"threshold alpha * ({show_rf(k)}) at w_j = 0, so the critical strength is "
                    f"`{show_rf(expect)[:100]}`: at the returned alpha the null solution is not "
                    "optimal (or alpha_max is not tight)", loc=pm.loc("alpha_max"),
               data=dict(got=show_rf(am), expected=show_rf(expect)))
    ctx.floor(rule, n, scope.get("floor", 4))


# ----------------------------------------------------------------------- R-RED
def _pen_forms(A, cls, var):
    pm = PenaltyModel(A, cls, var)
    out = {}
    if pm.has("value"):
        out["value"] = pm.value()
    if pm.has("prox_1d"):
        out["prox_1d"] = pm.prox1d()
    if pm.has("subdiff_distance"):
        out["subdiff_distance"] = pm.subdiff()
    if pm.has("alpha_max"):
        out["alpha_max"] = pm.alpha_max()
    return {k: v for k, v in out.items() if v is not None}, pm


def r_red(A, ctx, scope, rule="R-RED", parts=("penalties", "datafits", "group")):
    from ..algebra import substitute_arrays
    from .formulas import DatafitModel, datafit_gradients, _scalar_at
    ctx.rule(rule, "reductions: under the substitution that makes the general component "
             "coincide with the special one (weights := 1, l1_ratio := 1, sample_weights := 1, "
             "group accessor restricted to one feature) the lifted methods are equal terms")
    n = 0
    prog = A.prog
    pen_pairs = [("WeightedL1", "L1", dict(arrays={"weights": 1})),
                 ("L1_plus_L2", "L1", dict(syms={"l1_ratio": 1})),
                 ("WeightedMCPenalty", "MCPenalty", dict(arrays={"weights": 1}))]
    for gen, spe, sub in (pen_pairs if "penalties" in parts else []):
        G, S = prog.find_class(gen), prog.find_class(spe)
        if G is None or S is None:
            raise AnalysisError(f"reduction anchor {gen}/{spe} missing")
        for var in variants(prog, S):
            fg, pmg = _pen_forms(A, G, var)
            fs, pms = _pen_forms(A, S, var)
            for m in sorted(set(fg) & set(fs)):
                e = fg[m]
                if sub.get("arrays"):
                    e = substitute_arrays(e, {k: (lambda *ix, v=v: const(v)) for k, v in sub["arrays"].items()})
                if sub.get("syms"):
                    e = substitute(e, {("sym", k): const(v) for k, v in sub["syms"].items()})
                n += 1
                ctx.ob(rule, f"{G.fq}::{pmg.tag}->{spe}::{m}", e.equals(fs[m]),
                       what=f"{pmg.tag}.{m} with {sub} is `{show_rf(e)[:140]}` but "
                            f"{spe}.{m} is `{show_rf(fs[m])[:140]}`: the general penalty does "
                            "not reduce to the special one", loc=pmg.loc(m),
                       data=dict(general=show_rf(e), special=show_rf(fs[m])))
    # datafits
    def dforms(cls):
        dm = DatafitModel(A, cls)
        i = dm.inp
        out = {}
        err = {}
        if dm.has("value"):
            out["value"] = _attempt(err, "v", lambda: as_rf(dm.run("value", "dense", [i["y"], i["w"], i["Xw"]])))
        g = datafit_gradients(dm)
        for k in ("gradient_scalar", "gradient_scalar_sparse", "gradient[j]", "full_grad_sparse[j]"):
            if k in g:
                out[k] = g[k]
        for m, args, ix in (("raw_grad", [i["y"], i["Xw"]], ("i0",)), ("raw_hessian", [i["y"], i["Xw"]], ("i0",)),
                            ("get_lipschitz", [i["X"], i["y"]], ("j0",)), ("intercept_update_step", [i["y"], i["Xw"]], ()),
                            ("get_global_lipschitz", [i["X"], i["y"]], ())):
            if dm.has(m):
                r = _attempt(err, m, lambda: _scalar_at(dm.run(m, "dense", args), *ix))
                if r is not None and not (m == "get_lipschitz" and "G" in str(getattr(dm.run(m, "dense", args), "dims", ""))):
                    out[m] = r
        return {k: v for k, v in out.items() if v is not None}, dm
    WQ, Q, QG = prog.find_class("WeightedQuadratic"), prog.find_class("Quadratic"), prog.find_class("QuadraticGroup")
    if WQ is None or Q is None or QG is None:
        raise AnalysisError("reduction anchors WeightedQuadratic/Quadratic/QuadraticGroup missing")
    fq, dq = dforms(Q) if "datafits" in parts else ({}, None)
    fw, dw = dforms(WQ) if "datafits" in parts else ({}, None)
    for m in sorted(set(fq) & set(fw)):
        e = substitute_arrays(fw[m], {"sample_weights": lambda *ix: const(1)})
        n += 1
        ctx.ob(rule, f"{WQ.fq}::WeightedQuadratic[sample_weights=1]->Quadratic::{m}", e.equals(fq[m]),
               what=f"WeightedQuadratic.{m} with unit sample weights is `{show_rf(e)[:140]}` but "
                    f"Quadratic.{m} is `{show_rf(fq[m])[:140]}`", loc=dw.method_loc(m.split("[")[0]),
               data=dict(general=show_rf(e), special=show_rf(fq[m])))
    fg_, dg = dforms(QG) if "datafits" in parts else ({}, None)
    for m in sorted(set(fq) & set(fg_)):
        if m in ("get_lipschitz", "get_global_lipschitz"):
            continue
        n += 1
        ctx.ob(rule, f"{QG.fq}::QuadraticGroup->Quadratic::{m}", fg_[m].equals(fq[m]),
               what=f"QuadraticGroup.{m} is `{show_rf(fg_[m])[:140]}` but Quadratic.{m} is "
                    f"`{show_rf(fq[m])[:140]}`", loc=dg.method_loc(m.split("[")[0]))
    # group accessors == stacked scalar accessors
    for gname, sname in ((("LogisticGroup", "Logistic"), ("QuadraticGroup", "QuadraticGroup")) if "group" in parts else ()):
        G = prog.find_class(gname)
        if G is None:
            raise AnalysisError(f"reduction anchor {gname} missing")
        dm = DatafitModel(A, G)
        i = dm.inp
        err = {}
        for meth, mode, argsf in (("gradient_g", "dense", lambda g: [i["X"], i["y"], i["w"], i["Xw"], g]),
                                  ("gradient_g_sparse", "sparse", lambda g: [*i["csc"], i["y"], i["w"], i["Xw"], g])):
            if not dm.has(meth):
                continue
            g0 = IdxV("g0", extent="G")
            gg = _attempt(err, meth, lambda: _scalar_at(dm.run(meth, mode, argsf(g0)), "k0"))
            j = IdxV(("gi", "g0", "k0"), extent="P")
            ref = _attempt(err, "gradient_scalar", lambda: as_rf(dm.run("gradient_scalar", "dense", [i["X"], i["y"], i["w"], i["Xw"], j])))
            if gg is not None and ref is not None:
                n += 1
                ctx.ob(rule, f"{G.fq}::{gname}.{meth}[k]==gradient_scalar(grp_indices[g][k])", gg.equals(ref),
                       what=f"{gname}.{meth}(g)[k] = `{show_rf(gg)[:140]}` differs from the "
                            f"coordinate gradient of feature grp_indices[g][k] `{show_rf(ref)[:140]}`",
                       loc=dm.method_loc(meth), data=dict(group=show_rf(gg), scalar=show_rf(ref)))
            for l_, e_ in err.items():
                ctx.note(f"{rule}: {gname}.{l_} not lifted ({e_[:100]})")
                check_undecided(ctx, rule, [(gname, l_, e_)])
    ctx.floor(rule, n, scope.get("floor", 20))
