"""R-INF, R-POS, R-WRITE (feasibility of everything a solver can return)."""
import ast

from ..model import norm_src, names_in, attr_chain, is_inf, AnalysisError, FuncInfo
from ..cfg import cfg_of
from .control import loc, _slot_call
from .degenerate import reachable_functions, solver_roots

PROX_METHODS = ("prox_1d", "prox_1feat", "prox_1group", "prox_vec")


def _constraint_kind(A, cls):
    """'positive' if the class has a `positive` constructor parameter, 'box' if its prox
    is a projection (box_proj / max(0, .)), else None"""
    if "positive" in A.prog.init_params(cls):
        return "positive"
    for m in PROX_METHODS:
        f = cls.find_method(m)
        if f is None:
            continue
        for c in ast.walk(f.node):
            if isinstance(c, ast.Call):
                fn = ast.unparse(c.func)
                if fn == "box_proj":
                    return "box"
                if fn in ("max", "np.maximum") and any(
                        isinstance(a, ast.Constant) and a.value in (0, 0.0) for a in c.args) \
                        and isinstance(f.node.body[-1], ast.Return) \
                        and any(x is c for x in ast.walk(f.node.body[-1])):
                    return "box"
    return None


def r_inf(A, ctx, scope, rule="R-INF"):
    ctx.rule(rule, "constraints visible in value(): a penalty whose prox enforces a "
             "constraint (positive flag reaching the prox helper, box projection) returns "
             "+inf from value() on infeasible points - the extrapolation acceptance test "
             "screens candidates only through the objective value")
    n = 0
    for cls in A.prog.penalties:
        kind = _constraint_kind(A, cls)
        if kind is None:
            continue
        f = cls.find_method("value")
        if f is None:
            continue
        n += 1
        infs = [x for x in ast.walk(f.node) if isinstance(x, (ast.Attribute, ast.Call, ast.Name)) and is_inf(x)]
        ok = bool(infs)
        if ok and kind == "positive":
            # the inf must be tied to the flag and to negativity of the argument
            txt = ast.unparse(f.node)
            ok = "self.positive" in txt and "< 0" in txt.replace("<0", "< 0")
        ctx.ob(rule, f"{cls.fq}::value", ok,
               what=f"{cls.name}.value() never returns +inf although its prox enforces a "
                    f"{'non-negativity' if kind == 'positive' else 'box'} constraint: an "
                    "Anderson-extrapolated point with infeasible entries has a finite "
                    "objective, passes `p_obj_acc < p_obj` and is returned when the budget "
                    "ends right after it", loc=loc(f, f.node))
    # region check on the lifted value: +inf exactly outside the feasible set
    from .penalgebra import PenaltyModel, evaluate, HYPER, variants
    from ..algebra import Unsupported
    for cls in A.prog.penalties:
        kind = _constraint_kind(A, cls)
        if kind is None or cls.find_method("prox_1d") is None:
            continue
        for var in variants(A.prog, cls):
            if kind == "positive" and not var.get("positive"):
                continue
            pm = PenaltyModel(A, cls, var)
            val = pm.value()
            if val is None:
                ctx.ob(rule, f"{cls.fq}::value-regions::{pm.tag}", None, detail=f"value not lifted: {pm.err}")
                continue
            upper = kind == "box" and ("sym", "alpha") in val.all_atoms()
            pts = [(-1.0, True), (0.5, False)] + ([(HYPER["alpha"] + 1.0, True)] if upper else [(5.0, False)])
            for wv, infeasible in pts:
                n += 1
                try:
                    v = evaluate(val, {"w": wv, "g": 0.0})
                except Unsupported as e:
                    ctx.ob(rule, f"{cls.fq}::value-regions::{pm.tag}::w={wv}", None, detail=str(e))
                    continue
                isinf = v >= 1e20
                ctx.ob(rule, f"{cls.fq}::value-regions::{pm.tag}::w={wv}", isinf == infeasible,
                       what=f"{pm.tag}.value() is {'finite' if not isinf else 'infinite'} at an "
                            f"{'in' if infeasible else ''}feasible point (every coefficient = {wv}): "
                            + ("infeasible extrapolated points pass the objective comparison"
                               if infeasible else "feasible points are rejected"),
                       loc=pm.loc("value"))
    ctx.floor(rule, n, scope.get("floor", 8))


def r_pos(A, ctx, scope, rule="R-POS", parts=("prox", "score")):
    ctx.rule(rule, "the `positive` flag reaches every prox (bound to the helper's "
             "`positive` formal, or branched on) and every subdiff_distance (with a "
             "`w < 0 -> inf` branch); helpers with a `positive` formal test it")
    n = 0
    flow = A.flow
    for cls in A.prog.penalties:
        if "positive" not in A.prog.init_params(cls):
            continue
        if "prox" in parts:
            for mname in PROX_METHODS:
                f = cls.methods.get(mname)
                if f is None:
                    continue
                n += 1
                ok = False
                for c in ast.walk(f.node):
                    if not isinstance(c, ast.Call):
                        continue
                    kind, callees = flow.resolve_call(f, c)
                    for callee in callees:
                        bnd, _ = flow.bind(f, c, callee)
                        for prm, a in bnd.items():
                            if ast.unparse(a) == "self.positive":
                                ok = ok or prm == "positive"
                branches = [t for t in ast.walk(f.node) if isinstance(t, (ast.If, ast.IfExp))
                            and "self.positive" in ast.unparse(t.test)]
                ok = ok or bool(branches)
                ctx.ob(rule, f"{cls.fq}::{mname}", ok,
                       what=f"{cls.name}.{mname} does not hand `self.positive` to its prox "
                            "helper's `positive` parameter (nor branch on it): with "
                            "positive=True the prox is not the constrained prox / can "
                            "return negative coefficients", loc=loc(f, f.node))
                # ... on every way out: each `return` either depends (through the definitions of the names
                # it uses) on an expression that mentions self.positive, or sits under a test of it - a
                # shortcut return for an edge value of another hyper-parameter must not skip the projection
                assigns = [st for st in ast.walk(f.node) if isinstance(st, (ast.Assign, ast.AugAssign))]
                for r in [x for x in ast.walk(f.node) if isinstance(x, ast.Return) and x.value is not None]:
                    need, seen_pos = set(names_in(r.value)), "self.positive" in ast.unparse(r.value)
                    changed = True
                    while changed and not seen_pos:
                        changed = False
                        for st in assigns:
                            tg = st.targets if isinstance(st, ast.Assign) else [st.target]
                            tn = {x.id for t in tg for x in ast.walk(t) if isinstance(x, ast.Name)}
                            if tn & need:
                                if "self.positive" in ast.unparse(st.value):
                                    seen_pos = True
                                new = names_in(st.value) - need
                                if new:
                                    need |= new
                                    changed = True
                    guarded = any(isinstance(t, ast.If) and "self.positive" in ast.unparse(t.test)
                                  and any(x is r for x in ast.walk(t)) for t in ast.walk(f.node))
                    n += 1
                    ctx.ob(rule, f"{cls.fq}::{mname}::return::{norm_src(r)[:50]}", seen_pos or guarded,
                           what=f"{cls.name}.{mname}: `{norm_src(r)[:60]}` leaves the method without `self.positive` having "
                                "had any influence on the value returned: on that path (a shortcut for an edge value of "
                                "another hyper-parameter) positive=True is ignored and negative coefficients are "
                                "returned", loc=loc(f, r))
        if "score" in parts:
            f = cls.methods.get("subdiff_distance")
            if f is not None:
                n += 1
                ok = False
                cfg = cfg_of(f)
                for nd in cfg.stmts():
                    a = nd.ast
                    if nd.kind == "stmt" and isinstance(a, ast.Assign) and is_inf(a.value):
                        facts = cfg.facts_at(nd.id)
                        txt = " && ".join(ast.unparse(t) + "=" + lab for t, lab, _ in facts
                                          if isinstance(t, ast.expr))
                        if "self.positive" in txt and "< 0" in txt:
                            ok = True
                ctx.ob(rule, f"{cls.fq}::subdiff_distance", ok,
                       what=f"{cls.name}.subdiff_distance has no `positive and w < 0 -> inf` "
                            "branch: an infeasible (negative) coefficient gets a finite "
                            "score and can be certified", loc=loc(f, f.node))
    # helpers
    if "prox" in parts:
        m = A.prog.modules.get("skglm.utils.prox_funcs")
        if m is None:
            raise AnalysisError("skglm.utils.prox_funcs missing")
        for f in m.functions.values():
            if "positive" in f.params:
                n += 1
                used = any(isinstance(t, (ast.If, ast.IfExp, ast.BoolOp)) and
                           "positive" in names_in(t.test if not isinstance(t, ast.BoolOp) else t)
                           for t in ast.walk(f.node))
                ctx.ob(rule, f"{f.fq}::positive-used", used,
                       what=f"helper {f.name} ignores its `positive` parameter",
                       loc=loc(f, f.node))
    ctx.floor(rule, n, scope.get("floor", 10))


def r_write(A, ctx, scope, rule="R-WRITE"):
    ctx.rule(rule, "who may write coefficients: every in-place store into the iterate in "
             "solver code is a prox output, a guarded acceptance of an extrapolated point, "
             "the line-search combination, or the (unpenalised) intercept slot under the "
             "intercept flag")
    flow = A.flow
    n = 0
    funcs = [f for f in reachable_functions(A, solver_roots(A))
             if f.cls is None or f.cls in A.prog.solvers]
    for f in funcs:
        env = flow.env[f]
        wnames = {nm for nm, r in env.items() if r & {"W", "W0"} and "COPY" not in r}
        if not wnames:
            continue
        # locals that are fresh copies are not the iterate
        local_copies = set()
        for st in ast.walk(f.node):
            if isinstance(st, ast.Assign) and isinstance(st.targets[0], ast.Name):
                v = st.value
                if isinstance(v, ast.Call) and (
                        (isinstance(v.func, ast.Attribute) and v.func.attr == "copy")
                        or ast.unparse(v.func) in ("np.zeros", "np.zeros_like", "np.empty")):
                    local_copies.add(st.targets[0].id)
                if isinstance(v, ast.Subscript) and not isinstance(v.slice, ast.Slice):
                    sl = v.slice
                    if isinstance(sl, ast.Name) or isinstance(sl, ast.Tuple) is False and not isinstance(sl, ast.Constant):
                        local_copies.add(st.targets[0].id)      # fancy indexing -> copy
        params = set(f.params)
        cfg = cfg_of(f)
        is_ls = any(isinstance(st, ast.AugAssign) and isinstance(st.op, ast.Div)
                    and isinstance(st.value, ast.Constant) and st.value.value == 2
                    for st in ast.walk(f.node))
        for nd in cfg.stmts():
            st = nd.ast
            tgts = []
            if nd.kind != "stmt":
                continue
            if isinstance(st, ast.Assign):
                for t in st.targets:
                    tgts += list(t.elts) if isinstance(t, ast.Tuple) else [t]
            elif isinstance(st, ast.AugAssign):
                tgts = [st.target]
            for t in tgts:
                if not (isinstance(t, ast.Subscript) and isinstance(t.value, ast.Name)):
                    continue
                nm = t.value.id
                if nm not in wnames or (nm in local_copies and nm not in params):
                    continue
                n += 1
                key = f"{f.fq}::{norm_src(st)[:80]}"
                val = st.value
                if any(_slot_call(flow, f, c, "PENALTY", set(PROX_METHODS)) for c in ast.walk(val)):
                    ctx.ob(rule, key, True, detail="prox output")
                    continue
                sl = t.slice
                facts = cfg.facts_at(nd.id)
                is_last = norm_src(sl) in ("-1", "(-1, slice(None, None, None))", "-1, :") \
                    or norm_src(t).endswith("[-1]") or norm_src(t).endswith("[-1, :]")
                if is_last:
                    fi = any(lab == "true" and ("fit_intercept" in ast.unparse(tt)) for tt, lab, _ in facts
                             if isinstance(tt, ast.expr))
                    ctx.ob(rule, key, fi, detail="intercept slot",
                           what="last entry of the coefficient array written outside a "
                                "fit_intercept guard (it is a penalised coefficient when no "
                                "intercept is fitted)", loc=loc(f, st))
                    continue
                full = isinstance(sl, ast.Slice) and sl.lower is None and sl.upper is None
                if full:
                    guarded = any(isinstance(tt, ast.Compare) and isinstance(tt.ops[0], (ast.Lt, ast.Gt))
                                  and lab == "true" for tt, lab, _ in facts)
                    ctx.ob(rule, key, guarded, detail="guarded acceptance",
                           what="bulk overwrite of the iterate outside an objective "
                                "comparison", loc=loc(f, st))
                    continue
                if is_ls and isinstance(st, ast.AugAssign) and isinstance(st.op, ast.Add):
                    ctx.ob(rule, key, True, detail="line-search combination")
                    continue
                ctx.ob(rule, key, False,
                       what=f"`{norm_src(st)[:70]}` writes the coefficient array with a "
                            "value that is neither a prox output, a guarded extrapolation, "
                            "a line-search combination nor the intercept: feasibility "
                            "(positivity / box) is no longer guaranteed at every stopping "
                            "point", loc=loc(f, st))
    ctx.floor(rule, n, scope.get("floor", 15))
