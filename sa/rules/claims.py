"""What is claimed in MANIFEST.json (source for tools/gen_manifest.py)."""

STATIC = ("static analysis of /repo's working tree (Python ast; nothing is imported or "
          "executed)")

CLAIMS = {
    "C01": dict(
        text="Decides structural necessary conditions of a valid certificate on every "
             "CFG path of every in-scope solver: the value returned with a zero budget "
             "is +inf; the value tested against self.tol is a max-reduction over a "
             "score computed on all coordinates from a gradient over all coordinates, "
             "joined with |intercept gradient| iff an intercept is fitted; no in-place "
             "mutation of (w, Xw, grad) lies between the score and the tolerance exit or "
             "between the exit and return; Anderson extrapolation returns the same "
             "affine combination of both buffers; L-BFGS fun/jac are value/gradient of "
             "the same terms. Does not decide that score <= tol implies "
             "eps-stationarity numerically."
             " Every definition of the returned stopping value inside the budget loop is one the outer tolerance test sees; the intercept gradient enters through an entrywise absolute value taken before any reduction over tasks. path() carrying one model-fit buffer across grid points relies on _solve updating its Xw_init argument in place (checked against the solver's own binding); the outer tolerance is the solver's own `self.tol`, not a local rescaled by solver state; fixed-point scores are entry-wise |w_j - prox(w_j - g/L)| with the gradient pointer advanced for every group; solver __init__ stores hyper-parameters only (no shared mutable accelerator); the extrapolated pair is not modified between extrapolate() and acceptance. Every `break` guarded by a numeric comparison sits on its TRUE side (a NaN criterion satisfies no exit test).",
        design_ref="DESIGN.md §3.1 R-ZERO/R-CERT/R-FRESH/R-ANDERSON, §4 C01",
        note="Trusted: CPython ast; positional role seeds at BaseSolver._solve; slot "
             "method names of the datafit/penalty interface. Formulas inside the score "
             "are decided under C06/C08.",
        technique="CFG reaching-definitions / dominators / knob-consistent path search "
                  "+ effect summaries over solver source",
    ),
    "C03": dict(
        text="Decides the structural descent mechanisms: every bulk overwrite of the "
             "iterate (acceptance of an Anderson-extrapolated point) is dominated by the "
             "true branch of a strict comparison obj(acc) < obj(cur) whose two operands are "
             "the same objective term under {w->w_acc, Xw->Xw_acc}, contain penalty and "
             "datafit values, are fresh, exclude the intercept from the penalty, and both "
             "halves of the (w, Xw) pair are stored together; every prox call site is the "
             "prox-gradient step with one step size 1/L_k indexed at the coordinate it reads "
             "and writes; the three backtracking line searches follow one template; in the "
             "iterative-reweighting loop alpha * weights of the inner weighted-L1 penalty is, "
             "after each update, the slope in |w_j| of the outer penalty's own value() at the "
             "current coefficients (negative, positive and zero coefficients; every penalty "
             "offering `derivative`), i.e. the inner problem is a tangent majoriser. Does not "
             "decide monotonicity of the numerical objective."
             " Line searches: every in-place move that depends on the step uses the same (step - prev_step) factor for iterate and model fit, and the step is saved before it is halved; an accepted candidate that is recomputed by a matrix product is built from the candidate coefficients only. The extrapolated pair (w_acc, Xw_acc) is judged and accepted exactly as extrapolate() produced it; path() never starts a grid point from a stale model fit. Line-search and acceptance exits need positive evidence (NaN-safe orientation of the tests); no per-coordinate quantity (step size) is read after the coordinate loop that defines it.",
        design_ref="DESIGN.md §3.1 R-GUARD/R-STEP/R-LS/R-REWEIGHT, §4 C03",
        note="Assumes prox exactness and validity of L_k (C07/C09). Backtracking "
             "exhaustion fallback (`else: pass`) is reported as a note.",
        technique="dominator / reaching-definition queries on the solver CFGs, AST term "
                  "comparison under substitution; region lifting of the reweighting update "
                  "compared with the derivative of the lifted penalty value",
    ),
    "C04": dict(
        text="Decides that feasibility is preserved by construction at every stopping "
             "point: every in-place store into the coefficient array in solver code is a "
             "prox output, a guarded acceptance, a line-search combination or the intercept "
             "slot; every penalty whose prox enforces a constraint returns +inf from value() "
             "on infeasible points (so the acceptance guard can reject them); the positive "
             "flag reaches every prox helper and every score; the lifted block prox of every "
             "positive group penalty is non-negative on every sign region of a two-coefficient "
             "block, zero group weight included. Does not decide finiteness under overflow."
             " generalized_support is True wherever the lifted prox moves the point (infeasible warm starts are kept in the working set); the lifted value() of positive group penalties is +inf exactly on negative coefficients, zero group weights included. Every return of a prox method depends on `self.positive` (no shortcut for an edge value of another hyper-parameter skips the projection).",
        design_ref="DESIGN.md §3.6 R-INF/R-POS/R-WRITE, §4 C04",
        note="Order-region evaluation of the projection helpers (R-REGION) is part of the "
             "algebraic tier (C07).",
        technique="who-may-write classification of stores + effect/role analysis + "
                  "registry cross-check of sibling penalties",
    ),
    "C05": dict(
        text="Decides the structural clauses of warm starts and paths: the optional "
             "(w_init, Xw_init) idiom is self-consistent; every element store into the "
             "iterate is followed by the (new - old) * column update of its accumulator "
             "(model fit, Gram gradient, X@delta buffer); in every path loop alpha is set "
             "from the grid before solve, warm starts taken from the result matrix are "
             "copies, and every model fit handed to solve is zeros-with-zero-start, the "
             "in-place buffer or the template X @ w[:p] + fit_intercept * w[-1]; _glm_fit's "
             "warm start follows the same template and reads fitted state only under "
             "warm_start; no solver object is cached across calls."
             " The pairing itself is decided as identities on a 3x3 symbolic design: epoch kernels (coordinate, group, multitask; dense and CSC) leave Xw_after - Xw_before == X @ (w_after - w_before); prox-Newton and group prox-Newton descent directions return X_delta_w == X[:, ws] @ delta_w (+ intercept move); the three line searches, on a witness where the unit step is rejected, move every coefficient, the intercept and the model fit by one common multiple of the direction. A model-fit buffer created once before a path loop is paired only with zero starts, copies of the previous column, or is recomputed on the way to solve. The tolerance compared at the outer exit is `self.tol` itself (a tolerance rescaled by the violation at the start point makes the certificate depend on the start); results returned by path() in the caller's order are un-permuted with the inverse of the sorting permutation. A zero start inside the path loop is only paired with the carried model-fit buffer at the first grid point; a `break` that abandons the grid requires a descending grid.",
        design_ref="DESIGN.md §3.1 R-NONE/R-PAIR, §4 C05",
        note="That a warm-started run meets the certificate numerically is C01's undecided part.",
        technique="AST/CFG pattern rules with reaching definitions and effect summaries",
    ),
    "C06": dict(
        text="Decides, as identities of rational functions over (X, y, Xw, hyper-parameters) "
             "valid for all inputs: every pair of coordinate-gradient accessors of each datafit "
             "(scalar, CSC scalar, full, CSC full, X_j . raw_grad; per-task and per-group "
             "variants) are equal terms; raw_grad is the syntactic derivative of value() and "
             "raw_hessian that of raw_grad (documented bounds tabled); coordinate gradients are "
             "sum_i X_ij d value/d Xw_i (+ d value/d w_j); the intercept step is a positive "
             "multiple of the intercept gradient; lazy attributes set by initialize and "
             "initialize_sparse agree. Does not decide value() against the docstring formula, "
             "nor the internals of Cox's risk-set recursions (opaque operators), nor floating "
             "point agreement."
             " Datafits used through their prox (Pinball, SqrtQuadratic): the prox output is stationary for the datafit's own value() on sign regions of a two-sample problem and prox_conjugate is the Moreau transform of prox. Every datafit accessor that exists in a dense and a _sparse version (gradients, coordinate / group / global Lipschitz constants; spectral norms compared through the matrix they are taken of) and full_grad_sparse against the stacked coordinate gradients are equal terms on a 3x3 design with structural zeros. Dense and CSC gradient builders of every solver family are equal terms on a 3x3 design with structural zeros, non-contiguous groups and a permuted working set; Cox: raw_grad is the derivative of value(), the risk-set operators are adjoint pairs and match their definitions on six tie / censoring patterns under both conventions. Lazy attributes (Cox tie groups, Xty ...) are assigned on every path of the initialisation that assigns them at all; no accessor writes into the object's own state (results are fresh arrays); accessor pairs are also compared on a 2x4 design whose group is unsorted, not a contiguous run, and wider than the sample count. Every constructor parameter of a datafit is in get_spec and params_to_dict, so compiled_clone round-trips it (use_efron).",
        design_ref="DESIGN.md §2 L5, §3.5 R-SIB/R-DERIV, §4 C06",
        note="Trusted: identity list of sa/algebra.py, the lifting of CSC column loops to "
             "mask-weighted sums, domain table (Logistic labels in {-1,1}).",
        technique="symbolic lifting of NumPy/loop idioms to a rational-function normal form "
                  "(deterministic canonicalisation), syntactic differentiation, equality by "
                  "cross-multiplication",
    ),
    "C07": dict(
        text="Decides for every separable penalty whose prox is claimed (L1, L1_plus_L2, "
             "WeightedL1, MCPenalty, WeightedMCPenalty, IndicatorBox, PositiveConstraint, both "
             "values of positive): on every order region of the input (branch selected by a "
             "rational witness, comparison symbolic) a non-zero output satisfies the first-order "
             "condition of 0.5(u-x)^2 + s*value(u) built from the penalty's own value(); 0 is "
             "returned exactly when |x| <= s*t with t the kink threshold of value(); outputs are "
             "non-negative under positive=True; box penalties project. Plus: the positive flag "
             "reaches every prox helper, divisions by input norms are guarded (zero input). "
             "Block and group proxes (L2_1, BlockMCPenalty, BlockSCAD, WeightedGroupL2 with both "
             "values of positive and zero group weight, WeightedL1GroupL2) on every sign/magnitude "
             "region of a two-coefficient block: first-order condition of the penalty's own "
             "value() on the support (block norms solved as unknowns and checked against their "
             "radicands), coordinate-wise optimality of zeros, non-negativity, zero block exactly "
             "within stepsize * slope of value at 0. prox_SCAD: the returned candidate is "
             "stationary on every region. SLOPE.prox_vec: at the output no coordinate, tied-cluster or "
             "top-k sign direction decreases the prox objective built from SLOPE.value() (necessary "
             "condition at witnesses). Weighted penalties with a zero weight stay constrained. Global optimality (beyond stationarity) of the closed "
             "forms prox_SCAD, prox_05, prox_2_3, prox_log_sum, prox_block_2_05, prox_SLOPE is "
             "not claimed. Every return of a prox method depends on `self.positive`; prox_log_sum is lifted at exact ties of its regime test (empty bisection bracket: an unbound local read is a violation). Every constructor parameter of a penalty is in get_spec and params_to_dict (a dropped `positive` makes the compiled clone unconstrained).",
        design_ref="DESIGN.md §3.5 R-PROXFOC, §3.6 R-PROXFOC-BLOCK, §4 C07",
        note="Witness values only select branches; hyper-parameters are assumed positive and "
             "s < gamma (admissible step range).",
        technique="order-region abstract evaluation + symbolic first-order-condition identity "
                  "on lifted terms",
    ),
    "C08": dict(
        text="Decides for every separable penalty with a score: on every order region of w_j "
             "the lifted subdiff_distance equals |grad + d value/d w_j| where value is smooth, "
             "max(0, |grad| - t) (positive: max(0, -grad - t)) at the kink with t the one-sided "
             "limit of the derivative (score 0 for infinite t), +inf for negative coefficients "
             "under positive=True, and the normal-cone template for indicator penalties; the "
             "positive flag has a `w<0 -> inf` branch in every score; divisions in scores and "
             "fixed-point scores are guarded. Block and group scores (L2_1, L2_05, "
             "BlockMCPenalty, BlockSCAD, WeightedGroupL2 with both values of positive) on every "
             "region of a two-coefficient block in the working set equal the Euclidean norm of "
             "the coordinate-wise distances of -grad to the subdifferential derived from the "
             "penalty's own value(). Penalties without subdiff_distance are scored by the fixed-point residual of their prox: that prox satisfies the first-order condition of value() on non-contiguous groups; score buffers allocated with np.empty receive a store on every loop path.",
        design_ref="DESIGN.md §3.5 R-DERIV (penalties), §4 C08",
        note="Strict and non-strict inequalities are identified (agreement almost everywhere); "
             "equality tests `w == 0` are exact.",
        technique="symbolic lifting with indicator-weighted case splitting, syntactic "
                  "differentiation, region-wise term equality",
    ),
    "C09": dict(
        text="Decides that each coordinate / group / global Lipschitz constant is, as a term, "
             "a rational multiple >= 1 of sum_i X_ij^2 h_i, ||X_g||_2^2 h or "
             "||diag(sqrt(h)) X||_2^2 where h is the lifted constant Hessian or the tabled "
             "supremum of a varying one (Logistic 1/4, Huber 1); dense and CSC variants are "
             "equal terms (spectral norms are opaque atoms keyed by the matrix). Larger "
             "constants are accepted, smaller ones are violations. The accuracy of the power "
             "method is not decided."
             " Cox: raw_hessian minus the Hessian diagonal of value() is a sum of positive terms on six tie / censoring patterns; the power iteration starts from a random draw; the CSC helpers behind sparse constants (sparse_columns_slice, X/X^T products) equal their dense meaning, empty columns included. spectral_norm of a block without stored entries is lifted and returns exactly 0 without dividing by the zero norm of the iterate.",
        design_ref="DESIGN.md §3.5 R-LIPC, §4 C09",
        note="Cox and SqrtQuadratic are documented bounds (tabled, reason recorded).",
        technique="lifted-term comparison with constant-ratio extraction",
    ),
    "C14": dict(
        text="Decides the algebraic reductions: WeightedL1[weights:=1] == L1, "
             "L1_plus_L2[l1_ratio:=1] == L1, WeightedMCPenalty[weights:=1] == MCPenalty (value, "
             "prox_1d, subdiff_distance, alpha_max, both positivity variants), "
             "WeightedQuadratic[sample_weights:=1] == Quadratic and QuadraticGroup == Quadratic on "
             "all shared accessors, group gradient accessors == stacked scalar accessors, as "
             "equalities of lifted terms; every estimator fits through the same _glm_fit as "
             "GeneralizedLinearEstimator. Limit reductions, SLOPE vs L1, Efron vs Breslow, Gram "
             "vs CD and replicated rows are not decided."
             " Cox: without tied events the Efron terms are the Breslow terms (value, raw_grad, raw_hessian). WeightedQuadratic with integer sample weights equals Quadratic on replicated rows (value, coordinate gradients, Lipschitz constants, intercept step); WeightedGroupL2 on singleton groups equals WeightedL1 (value, prox, score; both values of positive). No np.isclose / allclose decides structure (ties) in library code.",
        design_ref="DESIGN.md §3.5 R-RED, §4 C14",
        note="Same trusted base as C06.",
        technique="substitution on lifted terms + normal-form equality",
    ),
    "C10": dict(
        text="Decides the structural part of storage independence: CSC triples are passed "
             "as (data, indptr, indices) at all call sites (role provenance); every "
             "sparse/dense dispatch calls a sibling pair with corresponding arguments; every "
             "input validation converts to CSC (no other sparse format reaches a kernel); "
             "float32 flag plumbing is under C11; solver objects store no state. Equality of "
             "converged results is not decided."
             " The dense and CSC copies of every solver kernel (coordinate / block epochs, gradient builders, prox-Newton direction and line search) and the CSC helper functions are lifted on a 3x3 design with structural zeros (and an empty column for the helpers) and must leave equal terms in coefficients, model fit and returned arrays. spectral_norm of an all-empty block returns 0, as the dense norm does. Every solver that reads X.indptr / X.indices is entered through a path that converts sparse X to CSC or refuses other formats. Solver state (working set, iterate, model fit) is not defined or reordered under a storage test in one arm only; multitask full_grad_sparse is the stack of gradient_j_sparse. spec_to_float32 derives array types from the attribute's own type (rank preserved).",
        design_ref="DESIGN.md §3.2 R-CSC, §4 C10",
        note="Kernel-level dense/sparse agreement of formulas is decided under C06 (datafit "
             "accessors).",
        technique="provenance roles through call bindings + sibling cross-check",
    ),
    "C11": dict(
        text="Decides constructor-argument plumbing for the 12 estimators: every __init__ "
             "parameter is read on the fit path (and on path() for parameters fit forwards); "
             "a bare self.p handed to a repo constructor binds the formal of the same name or "
             "a reviewed alias; every repo constructor called in fit/path that has a formal "
             "named like an estimator parameter receives self.<parameter>; datafit clones with "
             "float fields pass the float32 flag; every fit ends in _glm_fit/solver.solve; "
             "None-default arguments are not dereferenced unguarded; the (grp_indices, grp_ptr) "
             "pair of grp_converter reaches the group penalty and datafit unchanged. Does not decide "
             "stationarity (C01) nor docstring formulas. Every path from solver.solve() to a return of _glm_fit refreshes the fitted attributes of the main path. Penalties built in fit / path receive the weights unless built under `self.weights is None`. Constructor parameters of penalties / datafits survive compiled_clone (get_spec / params_to_dict agreement).",
        design_ref="DESIGN.md §3.3 R-PLUMB, §4 C11",
        note="Alias table (max_epochs->max_pn_iter, C->alpha) is reviewed by hand.",
        technique="data-flow of self.<param> into resolved constructor bindings",
    ),
    "C12": dict(
        text="Decides only the assembly clauses: in the multiclass branch every fitted "
             "attribute the binary branch derives from the solver (coef_, intercept_, "
             "dual_coef_) is gathered from the per-class binary estimators; label-encoded "
             "targets are never compared with raw class labels and the +/-1 mapping is "
             "arithmetic on the encoded indices. Probability normalisation and monotonicity "
             "are runtime behaviour of sklearn mix-ins and are not decided."
             " Which datafits make an estimator a classifier is decided by one subclass-aware isinstance test shared by fit and predict; no class-name test mentions a datafit that has subclasses. `classes_` comes from the encoder fitted on the raw targets; prediction methods read `coef_[0]` only in the binary case; a hand-written exponential of a decision value is shifted by its row-wise maximum (or otherwise bounded above), library links excepted. Every return of _glm_fit after solve() assigns coef_ / intercept_; prediction methods never test for the presence of an attribute that only one branch of the fit assigns. `coef_[0]` is read only on the binary side of a class-count test; no axis-less squeeze assembles fitted arrays.",
        design_ref="DESIGN.md §3.3 R-OVR, §4 C12",
        note="Structural necessary conditions only.",
        technique="AST rules on _glm_fit (last-assignment and kind-of-value checks)",
    ),
    "C13": dict(
        text="Decides, exhaustively over the finite composition matrix (12 426 cells: 9 "
             "solvers x 13 datafits(+None) x 19 penalties x {dense, CSC} x knob valuations), "
             "that each cell is either refused by a static evaluation of BaseSolver._validate "
             "(which check, which error kind) or accepted with every datafit/penalty member "
             "touched by code reachable from _solve resolving to a real member of matching "
             "arity (compiled code) or failing with an AttributeError that names the method "
             "(interpreter level); every self.<attr> of a jitclass is in its spec and lazy "
             "attributes are initialised for the storage mode; no local can be unbound at a "
             "use on a knob-consistent path. Does not decide numerical outcomes of accepted "
             "cells; extent (shape) agreement is under C20."
             " A solver that never reads its datafit argument accepts only None or the loss it hard-codes. Whole-array arguments of penalty / datafit slots have the extent of the per-feature attributes an accepted implementation combines them with (no `w[ws]`, no coefficient array with its intercept slot); `*_like` allocations taking the integer type of an index array receive no real number; the working set reaching a buffer shape is the one cut to that size.",
        design_ref="DESIGN.md §3.2 R-REQ/R-SLOT/R-SPEC/R-MATRIX, §4 C13",
        note="check_attrs semantics (hasattr(obj, name+suffix)) is re-verified against "
             "validation.py on every run.",
        technique="abstract evaluation of the validation code per cell + call-graph slot "
                  "resolution with knob-pruned CFGs",
    ),
    "C15": dict(
        text="Decides the structural necessary condition of permutation equivariance: an "
             "index-kind inference (domains N, P, G, T, Z, working-set positions, positions in a "
             "group; seeded from roles, attribute table, slot signatures and loops, otherwise "
             "inferred from use) finds no subscript whose index kind differs from the axis "
             "domain and no variable with two contradictory beliefs, over all kernels, datafits "
             "and penalties (~675 typed subscripts); the coordinate passed to a prox is the "
             "feature/group, never its position in the working set; grp_converter only applies "
             "order-preserving operations to the group specification. Equivariance of converged "
             "solutions and scaling laws are numerical and not decided."
             " No comparison against an absolute literal threshold (0 < |c| < 1e-3) anywhere in library code. In-place reordering through an alias of the group indices (np.asarray + sort) is a violation; fixed-point scores keep the gradient pointer in step for every group order. No per-coordinate quantity is read after its coordinate loop (leftover of the last feature visited).",
        design_ref="DESIGN.md §2 L4, §3.4 R-IDX, §4 C15",
        note="Unknown kinds never raise alarms; only definite contradictions do.",
        technique="belief-style index-domain inference (unification of index kinds with axis "
                  "domains) over the ast",
    ),
    "C20": dict(
        text="Decides that compiled kernels stay inside their arrays as far as extents are "
             "visible in the code: index kinds match axis domains (same inference as C15); for "
             "every datafit a solver accepts, get_lipschitz(_sparse) returns constants over the "
             "domain (feature / group) the solver indexes them by; `a[:-1]` and `a[-1]` on "
             "coefficient arrays occur only under the intercept flag; offset subscripts of "
             "pointer arrays (indptr[j+1], grp_ptr[g+1]) are within the loop bound. "
             "Value-dependent indices (contents of user arrays) are an input contract."
             " Every solver kernel, fixed-point score and CSC helper is lifted on small concrete shapes (3x3 design with structural zeros / an empty column, non-contiguous groups, permuted working sets) where every subscript is bounds-checked by the lifter: an out-of-range index on those shapes is a violation. Across calls: a kernel that indexes a parameter by coordinates is never handed an array restricted to the working set; initialize / initialize_sparse is control-dependent on the storage dispatch only, so lazy attributes of earlier data are never read. Whole-array slot arguments match the per-feature attributes of accepted implementations; Anderson buffers and reshapes sized with the working-set size see the working set that was cut to that size. Arrays allocated with np.empty and filled entry by entry receive a store on every path through an iteration. Multitask arrays (capital spelling) carry a task axis: a loop bound taken from the wrong entry of W.shape is an index-kind violation; slot methods that loop over len(w) and subscript a local with the extent of an own array attribute demand that extent from every caller. CSC triples are passed as (data, indptr, indices) at every call site.",
        design_ref="DESIGN.md §2 L4, §3.4 R-IDX/R-SLICE, §4 C20",
        note="Extents are symbols with +/-1 offsets; G <= P is never assumed.",
        technique="index-domain inference + linear offset comparison of loop bounds and "
                  "subscripts + per-cell slot return-domain check",
    ),
    "C16": dict(
        text="Decides two structural clauses: alpha_max helpers exclude zero weights "
             "before dividing (guarded division), and every solver that fits an intercept "
             "includes |intercept gradient| in its tolerance test, so it cannot exit at w=0 "
             "with a non-optimal intercept. alpha_max methods of the penalties equal max_j |g_j| / k_j "
             "with alpha * k_j the kink threshold of their own value(); the group helper "
             "_alpha_max_group_lasso and the default grid of SqrtLasso.path equal the value "
             "derived from their datafit's gradient accessor at the null model and the slope of "
             "their penalty's value() at the zero block (small concrete design, zero weights "
             "included). The stopping value returned is defined only on paths that reach the outer test (intercept term included); the group-lasso critical value is lifted with non-contiguous groups.",
        design_ref="DESIGN.md §3.5 R-THR, §4 C16",
        note="That a fit slightly below alpha_max is non-zero is numerical.",
        technique="guarded-division dominator rule + certificate slice rule",
    ),
    "C17": dict(
        text="Decides that the returned diagnostics are well-formed on every path: the "
             "history gets exactly one entry per completed outer iteration (no padding), the "
             "entry is bound, computed after the last mutation of the iteration, is datafit "
             "value + penalty value with the intercept excluded from the penalty; the "
             "returned stopping value is the one tested; it is bound with a zero budget; "
             "n_iter_ = len(history). The gradient handed to the score behind the tolerance test is computed at the very coefficients the score is taken at (and that are returned): a gradient taken at an auxiliary point of an accelerated method is a violation. In _glm_fit the start vector is not modified between the computation of its model fit and solve().",
        design_ref="DESIGN.md §3.1 R-HIST, §4 C17",
        note="Numerical equality of each entry with the true objective is not decided.",
        technique="CFG path rules (must-pass-through, reaching definitions, freshness)",
    ),
    "C18": dict(
        text="Decides purity structurally: interprocedural effect summaries (with slot "
             "dispatch over all registered datafits/penalties) show no in-place mutation of "
             "parameters bound to X, y, the CSC arrays or group structure in any of the ~300 "
             "functions reachable from fit/path/solve; jitclass methods store into self "
             "arrays only in initialize*; estimators never rebind constructor attributes, "
             "read fitted state only under warm_start; no globals/module containers; the only "
             "cache is the class factory keyed by all its parameters; compiled_clone returns "
             "a fresh instance; solver objects are immutable after construction."
             " Validation helpers that may return their argument are not copies (stores after check_array / asarray count as stores into the caller's array, by reaching definitions); solver locals that may alias a constructor array are never updated in place, directly or in a callee; no hand-made module-level cache; the datafit is re-initialised on every solve. Lazy attributes are re-assigned by every initialisation; accessors do not write self; solver __init__ builds no shared mutable object. Stored entries of a sparse input (X.data) are never rewritten in place by fit / _glm_fit.",
        design_ref="DESIGN.md §3.3 R-STATE/R-PURE, §4 C18",
        note="Equality of results across fit histories follows from purity plus kernel "
             "determinism; the RNG draw in spectral_norm is reported as a note.",
        technique="effect (mutation) analysis over the resolved call graph + typestate of "
                  "estimator attributes",
    ),
    "C19": dict(
        text="Decides that every division in solver code whose denominator derives from the "
             "data (Lipschitz constants, norms, Gram diagonal) is dominated by a non-zero "
             "fact (or is a tabled exemption with a reason), and that every loop is bounded "
             "(for over ranges/arrays; the two while loops have recorded variants). "
             "Finiteness under overflow is not decided."
             " No absolute-epsilon guard; the only tabled division exemptions are per construct. spectral_norm on an all-empty block returns 0 without a 0 / 0. Zero group / zero task / zero weight: fixed-point scores with a zero-curvature group first, the multitask epoch with an identically zero task (model fit still follows the coefficients), block prox with zero weight and zero input - a divisor that is identically zero on such an input is a violation. Exits are NaN-safe: a criterion that overflowed is never taken for convergence or for a descent step.",
        design_ref="DESIGN.md §3.1 R-DIV/R-LOOP, §4 C19",
        note="numpy-level divisions (inf, no exception) at interpreter level are accepted "
             "unless the denominator is a Python float returned by a jitclass method.",
        technique="provenance classification of denominators + dominating-guard query",
    ),
}

# clauses added in the last session (DESIGN.md §3.3, "Added in the last session")
_EXTRA = {
    "C01": " A score is finite only at feasible points: under positive=True every subdiff_distance returns +inf on a negative coefficient (R-POS-SCORE).",
    "C03": " The intercept step is c times the intercept gradient with c * L_b <= 2, L_b the curvature of the datafit's own value() in the intercept (descent lemma, exact for constant curvature; R-ISTEP-BOUND).",
    "C04": " Under positive=True the lifted prox_1d of every separable penalty is non-negative and finite on a grid of inputs x steps (below and above gamma - 1) x feature weights (below and above gamma / step) (R-NONNEG-PROX).",
    "C06": " The arms of every piecewise accessor (`if |r| < delta`) agree at the junction: the piecewise loss and its derivatives are continuous where the pieces meet (R-PIECEWISE-CONT).",
    "C08": " The fixed-point score available for every penalty is sound: prox_1d satisfies the first-order condition of the penalty's own value() on every order region (R-PROX-SCORE-SCALAR).",
    "C10": " The dense and CSC coordinate kernels also agree on a design with an empty column carrying a non-zero coefficient; a refusal of sparse input names the `_sparse` method that is missing (R-MSGNAMES).",
    "C11": " path() and warm-started fit() start each solve from a model fit that belongs to the coefficients they start from (R-PATH, R-WARMFIT).",
    "C12": " The warm-start model fit of _glm_fit is recomputed from the design and the start coefficients (R-WARMFIT).",
    "C13": " Accepted cells do not fail in compiled code: the datafit accessors stay inside their arrays on tall and wide designs (R-ACCESSOR-BOUNDS); the refusal text names the looked-up method (R-MSGNAMES).",
    "C14": " Solvers that never initialise the datafit reach no attribute assigned by initialize alone (R-LAZYREAD); every prox (prox_vec included) hands `positive` on (R-POS-PROX).",
    "C15": " The working-set size is bounded below by the row / coordinate support, a task- and feature-symmetric count (R-WSSIZE).",
    "C16": " The intercept criterion |intercept_update_step| is a positive multiple of the intercept gradient of value() (R-ISTEP).",
    "C17": " The inline fixed-point residual of FISTA is taken with the gradient at the iterate, closures included (R-GRADPOINT).",
    "C18": " Solvers that never initialise the datafit reach no attribute cached by an earlier initialisation (R-LAZYREAD).",
    "C19": " A datafit that takes log / sqrt of, or divides by, an expression of the target refuses, in initialize and initialize_sparse, every sign of y (zero included) that leaves the domain (R-TARGET-DOMAIN). Block step constants filled inside solver kernels are not the max of per-column terms, a lower bound of the block's largest eigenvalue (R-BLOCKBOUND).",
    "C09": " Block step constants filled inside solver kernels (prox-Newton models) are spectral / Frobenius / trace forms, never the max of per-column terms (R-BLOCKBOUND).",
}
for _p, _t in _EXTRA.items():
    if _p in CLAIMS:
        CLAIMS[_p]["text"] = CLAIMS[_p]["text"] + _t

_PENDING = "check not yet built in this revision of the framework (work in progress)"

NOT_APPLICABLE = {
    "C02": "Agreement with an independent implementation's optimum is a limit property "
           "of floating-point iterations over arbitrary data; it has no clause decidable "
           "from code shape that is not already claimed under C01/C06/C11 (a static "
           "proxy would be a relabelled test).",
}
for _p in ["C03", "C04", "C05", "C06", "C07", "C08", "C09", "C10", "C11", "C12", "C13",
           "C14", "C15", "C16", "C17", "C18", "C19", "C20"]:
    if _p not in CLAIMS:
        NOT_APPLICABLE[_p] = _PENDING
