"""What is claimed in MANIFEST.json (source for tools/gen_manifest.py)."""

STATIC = ("static analysis of /repo's working tree (Python ast; nothing is imported or "
          "executed)")

CLAIMS = {
    "C01": dict(
        text="Decides structural necessary conditions of a valid certificate on every "
             "CFG path of every in-scope solver: the value returned with a zero budget "
             "is +inf; the value tested against self.tol is a max-reduction over a "
             "score computed on all coordinates from a gradient over all coordinates, "
             "joined with |intercept gradient| iff an intercept is fitted; no in-place "
             "mutation of (w, Xw, grad) lies between the score and the tolerance exit or "
             "between the exit and return; Anderson extrapolation returns the same "
             "affine combination of both buffers; L-BFGS fun/jac are value/gradient of "
             "the same terms. Does not decide that score <= tol implies "
             "eps-stationarity numerically.",
        design_ref="DESIGN.md §3.1 R-ZERO/R-CERT/R-FRESH/R-ANDERSON, §4 C01",
        note="Trusted: CPython ast; positional role seeds at BaseSolver._solve; slot "
             "method names of the datafit/penalty interface. Formulas inside the score "
             "are decided under C06/C08.",
        technique="CFG reaching-definitions / dominators / knob-consistent path search "
                  "+ effect summaries over solver source",
    ),
}

_PENDING = "check not yet built in this revision of the framework (work in progress)"

NOT_APPLICABLE = {
    "C02": "Agreement with an independent implementation's optimum is a limit property "
           "of floating-point iterations over arbitrary data; it has no clause decidable "
           "from code shape that is not already claimed under C01/C06/C11 (a static "
           "proxy would be a relabelled test).",
}
for _p in ["C03", "C04", "C05", "C06", "C07", "C08", "C09", "C10", "C11", "C12", "C13",
           "C14", "C15", "C16", "C17", "C18", "C19", "C20"]:
    if _p not in CLAIMS:
        NOT_APPLICABLE[_p] = _PENDING
