"""Algebraic rules on datafits: R-SIB (sibling accessors), R-DERIV (derivatives),
R-LIPC (Lipschitz constants), R-ISTEP (intercept step)."""
import ast
from fractions import Fraction

from ..model import AnalysisError, norm_src
from ..algebra import (RF, Unsupported, const, sym, el, fn, summation, size_of, derivative,
                       substitute_arrays, show_rf, subst_index, atom_rf, KEY2RF)
from ..lift import (Lifter, Arr, IdxV, Csc, SelfObj, Fill, finalize, as_rf, GrpPtr, GrpIdx,
                    TupleV, PyConst, NONE, BoolV)
from .control import loc

# dims of jitclass array attributes (constructor-supplied), by attribute name
ATTR_DIMS = {
    "sample_weights": ("N",), "weights": ("P",), "alphas": ("P",),
    "weights_groups": ("G",), "weights_features": ("P",),
}
GROUP_WEIGHT_CLASSES = {"WeightedGroupL2"}       # `weights` is per group there

# documented upper bounds instead of exact Hessians (property C09 names them)
HESSIAN_BOUND_TABLE = {
    "Cox": "raw_hessian is documented as a diagonal upper bound of the Hessian",
    "SqrtQuadratic": "raw_hessian is documented as a diagonal matrix upper bounding the Hessian",
}
# suprema of varying Hessians used by coordinate Lipschitz constants: class -> (h, reason)
# documented input domains used as identities: class -> (kind, array)
DOMAIN = {
    "Logistic": ("pm1", "y", "labels are documented to be in {-1, 1}"),
    "LogisticGroup": ("pm1", "y", "labels are documented to be in {-1, 1}"),
}


def dom(cls, rf):
    d = DOMAIN.get(cls.name)
    if d and d[0] == "pm1":
        from ..algebra import reduce_pm1
        return reduce_pm1(rf, d[1])
    return rf


HESSIAN_SUP = {
    "Logistic": (Fraction(1, 4), "sigma(t)(1-sigma(t)) <= 1/4"),
    "LogisticGroup": (Fraction(1, 4), "sigma(t)(1-sigma(t)) <= 1/4"),
    "Huber": (Fraction(1), "Huber curvature is 1 inside the quadratic zone, 0 outside"),
}


# lifts that are undecided on the reference tree, by design (class, accessor) -> reason.
# Any OTHER construct that stops lifting is an analysis regression (exit 2), never a
# silent pass and never a violation.
UNDECIDED_OK = {
    ("Cox", "initialize"): "tie bookkeeping (argsort / run-length groups) is outside the fragment; "
                           "the risk-set helpers are opaque operators",
    ("Cox", "initialize_sparse"): "same as initialize",
    ("Cox", "d value/dXw"): "value goes through the opaque risk-set operators",
}


def check_undecided(ctx, rule, und):
    for rec in und:
        tag, label = rec[0], rec[1]
        reason = rec[2] if len(rec) > 2 else ""
        base = tag.split("[")[0]
        if isinstance(label, dict):
            label = ",".join(sorted(label))
        if (base, label) in UNDECIDED_OK:
            continue
        ctx.ob(rule, f"undecided::{tag}::{label}", None,
               detail=f"construct left the liftable fragment: {str(reason)[:160]}")


def std_inputs(multitask=False, y_cols=None):
    X = Arr(("N", "P"), lambda i, j: el("X", i, j))
    mat = lambda i, j: el("X", i, j)     # noqa: E731
    csc = (Csc("data", mat), Csc("indptr", mat), Csc("indices", mat))
    if multitask:
        y = Arr(("N", "T"), lambda i, t: el("y", i, t))
        Xw = Arr(("N", "T"), lambda i, t: el("Xw", i, t))
        w = Arr(("P", "T"), lambda j, t: el("w", j, t))
    else:
        if y_cols:
            y = Arr(("N", "C"), lambda i, c: el("y", i, c))
        else:
            y = Arr(("N",), lambda i: el("y", i))
        Xw = Arr(("N",), lambda i: el("Xw", i))
        w = Arr(("P",), lambda j: el("w", j))
    return dict(X=X, y=y, w=w, Xw=Xw, csc=csc)


def make_self(prog, cls, lifter, overrides=None):
    spec = prog.spec_of(cls) or []
    init_params = prog.init_params(cls)
    attrs = {}
    for name, typ in spec:
        if name in ("grp_ptr",):
            attrs[name] = GrpPtr()
        elif name in ("grp_indices",):
            attrs[name] = GrpIdx()
        elif "[" in typ:
            if name not in init_params:
                continue        # lazy: filled by initialize
            dims = ATTR_DIMS.get(name)
            if name == "weights" and cls.name in GROUP_WEIGHT_CLASSES:
                dims = ("G",)
            if dims is None:
                continue
            attrs[name] = Arr(dims, (lambda nm: (lambda *ix: el(nm, *ix)))(name))
        elif "bool" in typ:
            attrs[name] = PyConst(False)
        else:
            attrs[name] = sym(name)
    attrs.update(overrides or {})
    return SelfObj(cls, attrs, lifter)


class DatafitModel:
    """symbolic accessors of one datafit class"""

    def __init__(self, A, cls, bool_attrs=None):
        self.A, self.prog, self.cls = A, A.prog, cls
        self.multitask = cls.is_subclass_of(A.prog.BaseMultitaskDatafit)
        two_col = any(isinstance(n, ast.Subscript) and ast.unparse(n) in ("y[:, 0]", "y[:, 1]")
                      for m in cls.methods.values() for n in ast.walk(m.node))
        self.inp = std_inputs(self.multitask, y_cols=two_col)
        self.L = Lifter(A.prog, cls.module)
        self.bool_attrs = bool_attrs or {}
        self.errors = {}

    def self_obj(self, mode):
        so = make_self(self.prog, self.cls, self.L, {k: PyConst(v) for k, v in self.bool_attrs.items()})
        init = self.cls.find_method("initialize_sparse" if mode == "sparse" else "initialize")
        if init is not None and init.cls.name not in ("BaseDatafit", "BaseMultitaskDatafit"):
            i = self.inp
            args = [*i["csc"], i["y"]] if mode == "sparse" else [i["X"], i["y"]]
            try:
                self.L.call_function(init, args, self_obj=so)
            except Unsupported as e:
                self.errors.setdefault(init.name, f"Unsupported: {e}")
            for k, v in list(so.attrs.items()):
                if isinstance(v, Fill):
                    so.attrs[k] = finalize(v)
        return so

    def has(self, m):
        f = self.cls.find_method(m)
        return f is not None and f.cls.name not in ("BaseDatafit", "BaseMultitaskDatafit")

    def run(self, mname, mode, args):
        f = self.cls.find_method(mname)
        so = self.self_obj(mode)
        v = self.L.call_function(f, args, self_obj=so)
        if isinstance(v, Fill):
            v = finalize(v)
        return v

    def method_loc(self, mname):
        f = self.cls.find_method(mname)
        return loc(f, f.node)


def _attempt(errors, label, thunk):
    try:
        return thunk()
    except Unsupported as e:
        errors[label] = f"Unsupported: {e}"
    except (AssertionError, KeyError, AttributeError, TypeError, IndexError, ValueError, RecursionError) as e:
        errors[label] = f"{type(e).__name__}: {e}"
    return None


def _scalar_at(v, *ix):
    if isinstance(v, Arr):
        return as_rf(v.at(*ix))
    return as_rf(v)


def datafit_gradients(dm):
    """{label: RF} coordinate gradient at feature j0 (and task t0) from every accessor"""
    i = dm.inp
    j = IdxV("j0", extent="P")
    out, err = {}, dm.errors
    X, y, w, Xw, csc = i["X"], i["y"], i["w"], i["Xw"], i["csc"]
    mt = dm.multitask
    tix = ("t0",) if mt else ()
    if dm.has("gradient_scalar"):
        r = _attempt(err, "gradient_scalar", lambda: as_rf(dm.run("gradient_scalar", "dense", [X, y, w, Xw, j])))
        if r is not None:
            out["gradient_scalar"] = r
    if dm.has("gradient_scalar_sparse"):
        f = dm.cls.find_method("gradient_scalar_sparse")
        nargs = len(f.call_params())
        args = [*csc, y, Xw, j] if nargs == 6 else [*csc, y, w, Xw, j]
        r = _attempt(err, "gradient_scalar_sparse", lambda: as_rf(dm.run("gradient_scalar_sparse", "sparse", args)))
        if r is not None:
            out["gradient_scalar_sparse"] = r
    if dm.has("gradient_j"):
        r = _attempt(err, "gradient_j", lambda: _scalar_at(dm.run("gradient_j", "dense", [X, y, w, Xw, j]), *tix))
        if r is not None:
            out["gradient_j"] = r
    if dm.has("gradient_j_sparse"):
        r = _attempt(err, "gradient_j_sparse", lambda: _scalar_at(dm.run("gradient_j_sparse", "sparse", [*csc, y, Xw, j]), *tix))
        if r is not None:
            out["gradient_j_sparse"] = r
    if dm.has("gradient"):
        r = _attempt(err, "gradient", lambda: _scalar_at(dm.run("gradient", "dense", [X, y, Xw]), "j0", *tix))
        if r is not None:
            out["gradient[j]"] = r
    if dm.has("gradient_sparse"):
        r = _attempt(err, "gradient_sparse", lambda: _scalar_at(dm.run("gradient_sparse", "sparse", [*csc, y, Xw]), "j0", *tix))
        if r is not None:
            out["gradient_sparse[j]"] = r
    if dm.has("full_grad_sparse"):
        r = _attempt(err, "full_grad_sparse", lambda: _scalar_at(dm.run("full_grad_sparse", "sparse", [*csc, y, Xw]), "j0", *tix))
        if r is not None:
            out["full_grad_sparse[j]"] = r
    if dm.has("raw_grad") and not mt:
        def xr():
            rg = dm.run("raw_grad", "dense", [y, Xw])
            return summation("N", "i~x", el("X", "i~x", "j0") * _scalar_at(rg, "i~x"))
        r = _attempt(err, "X_j.raw_grad", xr)
        if r is not None:
            out["X[:,j]@raw_grad"] = r
    return out


def _strip_nz(rf):
    """dense forms have no NZ mask; a CSC sum carries X*NZ -> X already (algebra rule)"""
    return rf


def r_sib(A, ctx, scope, rule="R-SIB", only=None):
    ctx.rule(rule, "sibling accessors agree as rational functions of (X, y, Xw, hyper-"
             "parameters): every coordinate-gradient accessor of a datafit (scalar, "
             "sparse scalar, full, sparse full, X_j . raw_grad), dense vs CSC Lipschitz "
             "constants (coordinate and global), and the lazy attributes set by "
             "initialize vs initialize_sparse.  Loops over stored CSC entries are lifted to "
             "sums masked by the sparsity pattern; X*mask = X.")
    n = 0
    undec = []
    for cls in A.prog.datafits:
        variants = [dict()]
        spec = dict(A.prog.spec_of(cls) or [])
        bools = [k for k, t in spec.items() if "bool" in t]
        if bools:
            variants = [dict(zip(bools, vals)) for vals in __import__("itertools").product([False, True], repeat=len(bools))]
        for var in variants:
            tag = cls.name + ("" if not var else "[" + ",".join(f"{k}={v}" for k, v in var.items()) + "]")
            dm = DatafitModel(A, cls, var)
            grads = datafit_gradients(dm)
            for lbl, e in dm.errors.items():
                undec.append((tag, lbl, e))
            labels = sorted(grads)
            if len(labels) >= 2 and (only is None or "gradient" in only):
                ref = labels[0]
                for other in labels[1:]:
                    n += 1
                    same = grads[ref].equals(grads[other])
                    ctx.ob(rule, f"{cls.fq}::{tag}::{ref}=={other}", same,
                           what=f"{tag}: `{other}` and `{ref}` are different functions of "
                                f"(X, y, Xw): {other} = {show_rf(grads[other])[:160]}  vs  "
                                f"{ref} = {show_rf(grads[ref])[:160]}",
                           loc=dm.method_loc(other.split("[")[0].split("@")[-1] if "@" not in other else "raw_grad"),
                           data=dict(a=show_rf(grads[other]), b=show_rf(grads[ref])))
            # Lipschitz dense vs sparse
            i = dm.inp
            for pair, args_d, args_s, idx in (
                    (("get_lipschitz", "get_lipschitz_sparse"), [i["X"], i["y"]], [*i["csc"], i["y"]], True),
                    (("get_global_lipschitz", "get_global_lipschitz_sparse"), [i["X"], i["y"]], [*i["csc"], i["y"]], False)):
                if dm.has(pair[0]) and dm.has(pair[1]):
                    err = {}
                    gidx = "g0" if cls.find_method("gradient_g") is not None and cls.name.endswith("Group") and pair[0] == "get_lipschitz" and cls.methods.get("get_lipschitz") is not None else "j0"
                    a = _attempt(err, pair[0], lambda: _scalar_at(dm.run(pair[0], "dense", args_d), *( (gidx,) if idx else ())))
                    b = _attempt(err, pair[1], lambda: _scalar_at(dm.run(pair[1], "sparse", args_s), *( (gidx,) if idx else ())))
                    for lbl, e in err.items():
                        undec.append((tag, lbl, e))
                    if a is not None and b is not None:
                        n += 1
                        ctx.ob(rule, f"{cls.fq}::{tag}::{pair[0]}=={pair[1]}", a.equals(b),
                               what=f"{tag}: dense and CSC `{pair[0]}` differ: dense = "
                                    f"{show_rf(a)[:160]}  vs  sparse = {show_rf(b)[:160]}",
                               loc=dm.method_loc(pair[1]), data=dict(dense=show_rf(a), sparse=show_rf(b)))
            # lazy attributes
            if dm.has("initialize") and dm.has("initialize_sparse") and (only is None or "lazy" in only):
                err = {}
                sd = _attempt(err, "initialize", lambda: dm.self_obj("dense"))
                ss = _attempt(err, "initialize_sparse", lambda: dm.self_obj("sparse"))
                for lbl, e in err.items():
                    undec.append((tag, lbl, e))
                if sd is not None and ss is not None:
                    lazy = [nm for nm, t in (A.prog.spec_of(cls) or []) if nm not in A.prog.init_params(cls)
                            and "[" in t and nm in sd.attrs and nm in ss.attrs
                            and isinstance(sd.attrs[nm], Arr) and isinstance(ss.attrs[nm], Arr)]
                    for nm in lazy:
                        a_, b_ = sd.attrs[nm], ss.attrs[nm]
                        ix = ["j0", "t0"][:a_.ndim]
                        ea = _attempt(err, nm, lambda: as_rf(a_.at(*ix)))
                        eb = _attempt(err, nm + "_sparse", lambda: as_rf(b_.at(*ix)))
                        if ea is not None and eb is not None:
                            n += 1
                            ctx.ob(rule, f"{cls.fq}::{tag}::lazy::{nm}", ea.equals(eb),
                                   what=f"{tag}: initialize and initialize_sparse set `{nm}` "
                                        f"to different values: {show_rf(ea)[:120]} vs {show_rf(eb)[:120]}",
                                   loc=dm.method_loc("initialize_sparse"))
    ctx.extra.setdefault("undecided_lifts", []).extend(
        [dict(datafit=t, accessor=l, reason=e[:160]) for t, l, e in undec])
    for t, l, e in undec:
        ctx.note(f"{rule}: {t}.{l} not lifted ({e[:100]})")
    check_undecided(ctx, rule, undec)
    ctx.floor(rule, n, scope.get("floor", 25))
    return undec


def r_deriv(A, ctx, scope, rule="R-DERIV"):
    ctx.rule(rule, "derivative agreement: raw_grad[i] == d value / d Xw[i]; raw_hessian[i] "
             "== d raw_grad[i] / d Xw[i] (classes documented as returning an upper bound are "
             "tabled); coordinate gradient == sum_i X[i,j] * d value / d Xw[i]; syntactic "
             "differentiation of the lifted value term")
    n = 0
    undec = []
    for cls in A.prog.datafits:
        spec = dict(A.prog.spec_of(cls) or [])
        bools = [k for k, t in spec.items() if "bool" in t]
        variants = [dict()]
        if bools:
            variants = [dict(zip(bools, vals)) for vals in __import__("itertools").product([False, True], repeat=len(bools))]
        for var in variants:
            tag = cls.name + ("" if not var else "[" + ",".join(f"{k}={v}" for k, v in var.items()) + "]")
            dm = DatafitModel(A, cls, var)
            i = dm.inp
            err = {}
            if not dm.has("value"):
                continue
            val = _attempt(err, "value", lambda: as_rf(dm.run("value", "dense", [i["y"], i["w"], i["Xw"]])))
            if val is None:
                undec.append((tag, "value", err.get("value", "")))
                continue
            wrt = ("el", "Xw", ("i0", "t0") if dm.multitask else ("i0",))
            dval = _attempt(err, "d value", lambda: derivative(val, wrt))
            if dval is None:
                undec.append((tag, "d value/dXw", err.get("d value", "")))
                continue
            ix = ("i0", "t0") if dm.multitask else ("i0",)
            if dm.has("raw_grad"):
                rg = _attempt(err, "raw_grad", lambda: _scalar_at(dm.run("raw_grad", "dense", [i["y"], i["Xw"]]), *ix))
                if rg is not None:
                    n += 1
                    ctx.ob(rule, f"{cls.fq}::{tag}::raw_grad==dvalue", rg.equals(dval),
                           what=f"{tag}.raw_grad is not the derivative of value() w.r.t. Xw: "
                                f"raw_grad = {show_rf(rg)[:150]}  vs  d value = {show_rf(dval)[:150]}",
                           loc=dm.method_loc("raw_grad"), data=dict(raw_grad=show_rf(rg), dvalue=show_rf(dval)))
                    if dm.has("raw_hessian"):
                        rh = _attempt(err, "raw_hessian", lambda: _scalar_at(dm.run("raw_hessian", "dense", [i["y"], i["Xw"]]), *ix))
                        d2 = _attempt(err, "d raw_grad", lambda: derivative(rg, wrt))
                        if rh is not None and d2 is not None:
                            n += 1
                            if cls.name in HESSIAN_BOUND_TABLE:
                                ctx.ob(rule, f"{cls.fq}::{tag}::raw_hessian(bound)", True,
                                       detail="tabled: " + HESSIAN_BOUND_TABLE[cls.name])
                            else:
                                ctx.ob(rule, f"{cls.fq}::{tag}::raw_hessian==d raw_grad", dom(cls, rh).equals(dom(cls, d2)),
                                       what=f"{tag}.raw_hessian is not the derivative of raw_grad: "
                                            f"raw_hessian = {show_rf(rh)[:150]}  vs  d raw_grad = {show_rf(d2)[:150]}",
                                       loc=dm.method_loc("raw_hessian"))
            # coordinate gradient vs derivative of value
            grads = datafit_gradients(dm)
            if grads and not dm.multitask:
                lbl = sorted(grads)[0]
                d_i = subst_index(dval, "i0", "i~d")
                dw = _attempt(err, "d value/dw", lambda: derivative(val, ("el", "w", ("j0",))))
                expect = _attempt(err, "chain", lambda: summation("N", "i~d", el("X", "i~d", "j0") * d_i)
                                  + (dw if dw is not None else const(0)))
                if expect is not None:
                    n += 1
                    ctx.ob(rule, f"{cls.fq}::{tag}::{lbl}==X_j.dvalue", grads[lbl].equals(expect),
                           what=f"{tag}.{lbl} is not sum_i X[i,j] * d value/d Xw[i]: "
                                f"{show_rf(grads[lbl])[:150]}  vs  {show_rf(expect)[:150]}",
                           loc=dm.method_loc(lbl.split("[")[0]) if "@" not in lbl else None)
            for l_, e_ in err.items():
                undec.append((tag, l_, e_))
    for t, l, e in undec:
        ctx.note(f"{rule}: {t}.{l} not lifted ({e[:100]})")
    ctx.extra.setdefault("undecided_lifts", []).extend(
        [dict(datafit=t, accessor=l, reason=e[:160]) for t, l, e in undec])
    check_undecided(ctx, rule, undec)
    ctx.floor(rule, n, scope.get("floor", 12))
    return undec


def r_istep(A, ctx, scope, rule="R-ISTEP", require_scale=False):
    ctx.rule(rule, "intercept step: intercept_update_step(y, Xw) == c * sum_i raw_grad[i] "
             "(or c * sum_i d value/d Xw[i]) with a positive constant c"
             + ("; and c >= 1, because solvers use |step| as the intercept optimality "
                "measure: c < 1 under-reports the intercept gradient" if require_scale else ""))
    n = 0
    for cls in A.prog.datafits:
        dm = DatafitModel(A, cls)
        if not dm.has("intercept_update_step") or not dm.has("value"):
            continue
        i = dm.inp
        err = {}
        ix = ("t0",) if dm.multitask else ()
        st = _attempt(err, "istep", lambda: _scalar_at(dm.run("intercept_update_step", "dense", [i["y"], i["Xw"]]), *ix))
        val = _attempt(err, "value", lambda: as_rf(dm.run("value", "dense", [i["y"], i["w"], i["Xw"]])))
        if st is None or val is None:
            ctx.note(f"{rule}: {cls.name} not lifted ({list(err.values())[:1]})")
            continue
        wrt = ("el", "Xw", ("i~s", "t0") if dm.multitask else ("i~s",))
        dv = _attempt(err, "dv", lambda: derivative(val, wrt))
        if dv is None:
            ctx.note(f"{rule}: {cls.name} derivative not lifted")
            continue
        tot = summation("N", "i~s", dv)
        n += 1
        c = None
        for cand in (Fraction(1), Fraction(1, 4), Fraction(4), Fraction(1, 2), Fraction(2)):
            if st.equals(const(cand) * tot):
                c = cand
        if c is None:
            # c may involve the sample size: step = tot * N etc.
            for k, name in ((size_of("N"), "N"), (size_of("N").inv(), "1/N")):
                if st.equals(k * tot):
                    c = name
        ok = c is not None and (not require_scale or (isinstance(c, Fraction) and c >= 1) or c == "N")
        ctx.ob(rule, f"{cls.fq}::intercept_update_step", ok,
               detail=f"c = {c}",
               what=(f"{cls.name}.intercept_update_step = {c} * (intercept gradient): solvers "
                     f"test |step| <= tol, so the intercept is certified optimal when its "
                     f"gradient is still tol/{c}" if c is not None else
                     f"{cls.name}.intercept_update_step is not a positive multiple of the "
                     f"intercept gradient: {show_rf(st)[:120]} vs sum d value = {show_rf(tot)[:120]}"),
               loc=dm.method_loc("intercept_update_step"))
    ctx.floor(rule, n, scope.get("floor", 5))


def r_istep_bound(A, ctx, scope, rule="R-ISTEP-BOUND"):
    """Descent clause of the intercept update `w[-1] -= intercept_update_step(y, Xw)`: the step
    is c * (intercept gradient); the datafit as a function of the intercept has curvature
    L_b = sum_i d2 value / d Xw[i]^2 (constant, or bounded by the tabled supremum).  The update
    does not increase the datafit for every data iff c * L_b <= 2 (descent lemma; for constant
    curvature f(b - k g / L) - f(b) = -(k / L)(1 - k / 2) g^2 exactly, so k > 2 increases it).  Datafits whose curvature in Xw is
    unbounded (exp links) have no valid constant step and are listed as notes."""
    ctx.rule(rule, "intercept step length: intercept_update_step == c * (intercept gradient) with "
             "c * sum_i sup d2 value/d Xw[i]^2 <= 2 (descent lemma on the intercept coordinate)")
    n = 0
    for cls in A.prog.datafits:
        dm = DatafitModel(A, cls)
        if not dm.has("intercept_update_step") or not dm.has("value"):
            continue
        i = dm.inp
        err = {}
        ix = ("t0",) if dm.multitask else ()
        st = _attempt(err, "istep", lambda: _scalar_at(dm.run("intercept_update_step", "dense", [i["y"], i["Xw"]]), *ix))
        val = _attempt(err, "value", lambda: as_rf(dm.run("value", "dense", [i["y"], i["w"], i["Xw"]])))
        if st is None or val is None:
            ctx.note(f"{rule}: {cls.name} not lifted ({list(err.values())[:1]})")
            continue
        wrt = ("el", "Xw", ("i~s", "t0") if dm.multitask else ("i~s",))
        dv = _attempt(err, "dv", lambda: derivative(val, wrt))
        if dv is None:
            ctx.note(f"{rule}: {cls.name} derivative not lifted")
            continue
        tot = summation("N", "i~s", dv)
        if cls.name in HESSIAN_SUP:
            Lb = const(HESSIAN_SUP[cls.name][0])
            lname = f"n_samples * sup ({HESSIAN_SUP[cls.name][1]}) / n_samples"
        else:
            d2 = _attempt(err, "d2", lambda: derivative(dv, wrt))
            Lb = summation("N", "i~s", d2) if d2 is not None else None
            lname = "sum_i d2 value / d Xw[i]^2"
        if Lb is None:
            ctx.note(f"{rule}: {cls.name}: curvature not lifted ({list(err.values())[:1]})")
            continue
        # st == c * tot  with  c = k / Lb,  0 < k <= 1
        k = None
        try:
            k = _const_ratio(st * Lb, tot)
            if k is None:
                # the normal form does not cancel polynomial factors: try the constants directly
                lhs = st * Lb
                cands = sorted({Fraction(p, q) for p in range(1, 33) for q in (1, 2, 3, 4, 5, 8, 16, 32)},
                               key=lambda f: (f.denominator + f.numerator, f))
                for cand in cands:
                    if lhs.equals(const(cand) * tot):
                        k = cand
                        break
        except Exception as e:  # noqa: BLE001
            err["cmp"] = repr(e)[:100]
        if k is None:
            n += 1          # examined: whether the step is a multiple of the gradient at all is R-ISTEP's verdict
            ctx.note(f"{rule}: {cls.name}: step * curvature is not a constant multiple of the intercept "
                     f"gradient (curvature {show_rf(Lb)[:80]}): not decided here, R-ISTEP decides the direction")
            continue
        n += 1
        ctx.ob(rule, f"{cls.fq}::intercept_update_step", 0 < k <= 2,
               detail=f"step * L_b = {k} * gradient, L_b = {lname}",
               what=f"{cls.name}.intercept_update_step is {k} / L_b times the intercept gradient, where "
                    f"L_b = {lname} is the curvature of the datafit in the intercept: a step longer "
                    f"than 2 / L_b increases the datafit where the curvature reaches L_b "
                    f"(f(b - k g / L) - f(b) = -(k / L)(1 - k / 2) g^2 for curvature L): no monotone descent",
               loc=dm.method_loc("intercept_update_step"))
    ctx.floor(rule, n, scope.get("floor", 3))


def r_lipc(A, ctx, scope, rule="R-LIPC"):
    ctx.rule(rule, "coordinate Lipschitz constants: get_lipschitz[j] == sum_i X[i,j]^2 * h_i "
             "with h the (constant) raw_hessian, or h >= the tabled supremum of a varying "
             "Hessian; a larger constant is accepted (still a bound), a smaller one is a "
             "violation; group / global variants are compared with ||X_g||_2^2 * h and "
             "||X||_2^2 * h")
    n = 0
    from ..lift import spec_norm
    for cls in A.prog.datafits:
        dm = DatafitModel(A, cls)
        if not dm.has("get_lipschitz") and not dm.has("get_global_lipschitz"):
            continue
        i = dm.inp
        err = {}
        # hessian
        h = None
        hname = None
        if dm.has("raw_hessian") and cls.name not in HESSIAN_BOUND_TABLE and cls.name not in HESSIAN_SUP:
            h = _attempt(err, "raw_hessian", lambda: _scalar_at(dm.run("raw_hessian", "dense", [i["y"], i["Xw"]]), "i~h"))
            hname = "raw_hessian"
        elif cls.name in HESSIAN_SUP:
            h = const(HESSIAN_SUP[cls.name][0]) / size_of("N")
            hname = f"sup ({HESSIAN_SUP[cls.name][1]}) / n_samples"
        elif dm.has("value") and cls.name not in HESSIAN_BOUND_TABLE:
            val = _attempt(err, "value", lambda: as_rf(dm.run("value", "dense", [i["y"], i["w"], i["Xw"]])))
            if val is not None:
                wrt = ("el", "Xw", ("i~h", "t0") if dm.multitask else ("i~h",))
                d1 = _attempt(err, "d1", lambda: derivative(val, wrt))
                h = _attempt(err, "d2", lambda: derivative(d1, wrt)) if d1 is not None else None
                hname = "d2 value / d Xw^2"
        if h is None:
            ctx.note(f"{rule}: {cls.name}: no Hessian available ({list(err.values())[:1]})")
            continue
        is_group = cls.find_method("gradient_g") is not None and "grp_ptr" in dict(A.prog.spec_of(cls) or [])
        if dm.has("get_lipschitz") and not (is_group and cls.methods.get("get_lipschitz") is None):
            own = cls.find_method("get_lipschitz")
            lj = _attempt(err, "get_lipschitz", lambda: dm.run("get_lipschitz", "dense", [i["X"], i["y"]]))
            if lj is not None and isinstance(lj, Arr):
                n += 1
                if lj.dims[0] == "P":
                    got = as_rf(lj.at("j0"))
                    expect = summation("N", "i~h", el("X", "i~h", "j0").powi(2) * h)
                    ratio = _const_ratio(got, expect)
                    ctx.ob(rule, f"{cls.fq}::get_lipschitz", ratio is not None and ratio >= 1,
                           detail=f"= {ratio} * sum_i X_ij^2 * {hname}",
                           what=f"{cls.name}.get_lipschitz[j] = {show_rf(got)[:120]} is "
                                + (f"{ratio} times" if ratio is not None else "not a multiple of")
                                + f" the curvature bound sum_i X_ij^2 * h ({show_rf(expect)[:100]}): "
                                  "a constant below the bound makes the CD step too long",
                           loc=dm.method_loc("get_lipschitz"))
                elif lj.dims[0] == "G":
                    got = as_rf(lj.at("g0"))
                    # ||X_g||_2^2 * h with constant h
                    hc = _index_free(h)
                    sn = spec_norm(lambda a, b: el("X", a, ("gi", "g0", b)))
                    expect = sn.powi(2) * hc if hc is not None else None
                    ratio = _const_ratio(got, expect) if expect is not None else None
                    ctx.ob(rule, f"{cls.fq}::get_lipschitz(group)", ratio is not None and ratio >= 1,
                           detail=f"= {ratio} * ||X_g||_2^2 * {hname}",
                           what=f"{cls.name}.get_lipschitz[g] = {show_rf(got)[:140]} is not "
                                f">= ||X_g||_2^2 * h", loc=dm.method_loc("get_lipschitz"))
        if dm.has("get_global_lipschitz"):
            g = _attempt(err, "get_global_lipschitz", lambda: as_rf(dm.run("get_global_lipschitz", "dense", [i["X"], i["y"]])))
            hc = _index_free(h)
            if g is not None:
                n += 1
                if hc is not None:
                    expect = spec_norm(lambda a, b: el("X", a, b)).powi(2) * hc
                    ratio = _const_ratio(g, expect)
                    ok = ratio is not None and ratio >= 1
                    detail = f"= {ratio} * ||X||_2^2 * {hname}"
                else:
                    # sample-dependent constant Hessian (weights): ||diag(sqrt(h)) X||_2^2
                    hfun = lambda a: subst_index(h, "i~h", a)      # noqa: E731
                    expect = spec_norm(lambda a, b: el("X", a, b) * fn("sqrt", hfun(a))).powi(2)
                    alt = _weighted_spec(h)
                    ratio = _const_ratio(g, expect)
                    if ratio is None and alt is not None:
                        ratio = _const_ratio(g, alt)
                    ok = ratio is not None and ratio >= 1
                    detail = f"= {ratio} * ||diag(sqrt(h)) X||_2^2"
                ctx.ob(rule, f"{cls.fq}::get_global_lipschitz", ok, detail=detail,
                       what=f"{cls.name}.get_global_lipschitz = {show_rf(g)[:140]} is not a "
                            f"multiple >= 1 of the spectral bound of the (weighted) design: it "
                            "is not an upper bound of the global curvature",
                       loc=dm.method_loc("get_global_lipschitz"))
        for l_, e_ in err.items():
            ctx.note(f"{rule}: {cls.name}.{l_} not lifted ({e_[:100]})")
    ctx.floor(rule, n, scope.get("floor", 8))


def _weighted_spec(h):
    """h = s[i] / S  ->  ||diag(sqrt(s)) X||^2 / S"""
    from ..lift import spec_norm
    try:
        num = RF(dict(h.num))
        den = RF(dict(h.den))
        if "i~h" in den.free_indices():
            return None
        f = lambda a: subst_index(num, "i~h", a)      # noqa: E731
        return spec_norm(lambda a, b: el("X", a, b) * fn("sqrt", f(a))).powi(2) / den
    except Unsupported:
        return None


def _index_free(h):
    return h if not (h.free_indices() - set()) or "i~h" not in h.free_indices() else None


def _const_ratio(a, b):
    """a / b if it is a rational constant, else None"""
    if a is None or b is None:
        return None
    try:
        if b.is_zero():
            return None
        q = a / b
    except Unsupported:
        return None
    return q.const_value()


def istep_scales(A, ctx=None, rule=None):
    """{datafit class: c} with intercept_update_step == c * intercept gradient (None if
    not a constant positive multiple)"""
    out = {}
    for cls in A.prog.datafits:
        dm = DatafitModel(A, cls)
        if not dm.has("intercept_update_step") or not dm.has("value"):
            continue
        i = dm.inp
        err = {}
        ix = ("t0",) if dm.multitask else ()
        st = _attempt(err, "istep", lambda: _scalar_at(dm.run("intercept_update_step", "dense", [i["y"], i["Xw"]]), *ix))
        val = _attempt(err, "value", lambda: as_rf(dm.run("value", "dense", [i["y"], i["w"], i["Xw"]])))
        if st is None or val is None:
            out[cls] = ("undecided", str(err))
            continue
        wrt = ("el", "Xw", ("i~s", "t0") if dm.multitask else ("i~s",))
        dv = _attempt(err, "dv", lambda: derivative(val, wrt))
        if dv is None:
            out[cls] = ("undecided", str(err))
            continue
        tot = summation("N", "i~s", dv)
        q = _const_ratio(st, tot)
        out[cls] = q
    return out


def r_cert_scale(A, ctx, scope, rule="R-CERT-SCALE"):
    """R-CERT(iii): the intercept term of a solver's stopping value is sound in scale for
    every datafit the solver accepts."""
    from .matrix import Validator, Refuse, knob_space
    from .control import _slot_call
    import itertools
    ctx.rule(rule, "scale of the intercept term in the certificate: where a solver measures "
             "intercept optimality by |datafit.intercept_update_step(y, Xw)|, for every datafit "
             "that passes that solver's validation the step is c * (intercept gradient) with a "
             "constant c >= 1 (c < 1 certifies an intercept whose gradient is tol / c); terms "
             "built from sum(raw_grad) have c = 1 by R-DERIV")
    scales = istep_scales(A)
    V = Validator(A)
    n = 0
    for sname, sf in sorted(A.facts.items()):
        if sf.loop is None or sname in scope.get("exempt", ()):
            continue
        f, cfg, flow = sf.f, sf.cfg, A.flow
        uses = False
        for test_id, brk_id, cmp in sf.tol_exits:
            stop = sf.stop_name_in(cmp)
            for d in cfg.backward_slice(test_id, [stop]):
                a = cfg.nodes[d].ast
                if a is not None and hasattr(a, "value") and a.value is not None:
                    for c in ast.walk(a.value):
                        if _slot_call(flow, f, c, "DATAFIT", {"intercept_update_step"}):
                            uses = True
        if not uses:
            continue
        for D in A.prog.datafits:
            if D not in scales:
                continue
            accepted = False
            for P in A.prog.penalties:
                cell = dict(sparse=False, knobs={k: v[0] for k, v in knob_space(sf).items()}, datafit=D, penalty=P)
                cell["knobs"]["fit_intercept"] = True
                try:
                    V.validate(sf.cls, cell)
                    accepted = True
                    break
                except Refuse:
                    continue
            if not accepted:
                continue
            n += 1
            c = scales[D]
            if isinstance(c, tuple):
                ctx.ob(rule, f"{sf.f.fq}::{D.name}", None, detail=f"intercept step of {D.name} not lifted: {c[1][:100]}")
                continue
            ok = c is not None and c >= 1
            m = D.find_method("intercept_update_step")
            ctx.ob(rule, f"{sf.f.fq}::{D.name}", ok, detail=f"c = {c}",
                   what=f"{sname} tests |{D.name}.intercept_update_step| <= tol, and that step is "
                        f"{c} x the intercept gradient: the returned intercept is certified while "
                        f"its gradient can be {('1/' + str(c)) if c else '?'} x tol",
                   loc=loc(m, m.node))
    ctx.floor(rule, n, scope.get("floor", 3))
