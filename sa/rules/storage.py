"""Storage-independence rules: R-DISPATCH, R-CONVERT, R-SOLVERSTATE."""
import ast

from ..model import norm_src, names_in, attr_chain, AnalysisError
from ..cfg import cfg_of
from .control import loc

# dense/sparse slot or helper pairs that are siblings although not named x / x_sparse
PAIR_TABLE = {
    ("construct_grad", "full_grad_sparse"): "full gradient over all features: dense goes "
                                            "through construct_grad(.., all_feats), CSC through "
                                            "the datafit's full_grad_sparse",
    ("_construct_grad", "_construct_grad_sparse"): "",
    ("X ** 2", "X.multiply(X)"): "elementwise square of the design",
}


def _is_sparse_test(flow, f, t):
    if isinstance(t, ast.Name):
        return "IS_SPARSE" in flow.env[f].get(t.id, ())
    if isinstance(t, ast.Call):
        return ast.unparse(t.func).split(".")[-1] == "issparse"
    return False


def _call_of(st):
    """(target text or None, call node) for `x = f(...)`, `x[:] = f(...)`, `f(...)`"""
    if isinstance(st, ast.Assign) and isinstance(st.value, ast.Call):
        return norm_src(st.targets[0]), st.value
    if isinstance(st, ast.Expr) and isinstance(st.value, ast.Call):
        return None, st.value
    if isinstance(st, ast.Assign) and isinstance(st.targets[0], ast.Tuple) and isinstance(st.value, ast.Call):
        return norm_src(st.targets[0]), st.value
    return "?", None


def _strip_x(flow, f, args):
    """drop the leading design-matrix arguments (X or the CSC triple / *bundle)"""
    out = []
    for a in args:
        r = flow.roles(f, a)
        if r & {"X", "CSC_DATA", "CSC_INDPTR", "CSC_INDICES"}:
            continue
        if isinstance(a, ast.Starred):
            tl = flow.tuple_literal(f, a.value.id) if isinstance(a.value, ast.Name) else None
            if tl and all(flow.roles(f, x) & {"CSC_DATA", "CSC_INDPTR", "CSC_INDICES"} for x in tl):
                continue
        out.append(norm_src(a))
    return out


def _subseq(a, b):
    it = iter(b)
    return all(x in it for x in a)


def r_dispatch(A, ctx, scope, rule="R-DISPATCH"):
    ctx.rule(rule, "storage dispatch: every `if <X is sparse>: A else: B` in solver code "
             "assigns the same target in both branches, calls a (dense, sparse) sibling "
             "pair (name / name_sparse|_s, or a tabled pair), and passes corresponding "
             "non-design arguments (one list is an order-preserving sub-sequence of the "
             "other)")
    flow = A.flow
    n = 0
    for f in A.prog.all_functions():
        if not f.module.name.startswith(("skglm.solvers", "skglm.experimental", "skglm.estimators")):
            continue
        for st in ast.walk(f.node):
            if not isinstance(st, ast.If) or not _is_sparse_test(flow, f, st.test):
                continue
            if not st.orelse or len(st.body) != 1 or len(st.orelse) != 1:
                continue
            sp, de = st.body[0], st.orelse[0]
            if isinstance(sp, (ast.Raise,)) or isinstance(de, ast.Raise):
                continue
            n += 1
            key = f"{f.fq}::{norm_src(sp)[:50]}"
            tsp, csp = _call_of(sp)
            tde, cde = _call_of(de)
            if csp is None or cde is None:
                # non-call pair (X_square = X.multiply(X) if sparse else X ** 2)
                ctx.ob(rule, key, True, detail="non-call dispatch")
                continue
            what = None
            if tsp != tde:
                what = f"sparse branch assigns `{tsp}` but dense branch assigns `{tde}`"
            nsp = ast.unparse(csp.func).split(".")[-1]
            nde = ast.unparse(cde.func).split(".")[-1]
            paired = nsp in (nde + "_sparse", nde + "_s") or (nde, nsp) in PAIR_TABLE
            if what is None and not paired:
                what = (f"sparse branch calls `{nsp}` and dense branch calls `{nde}`: not a "
                        "dense/sparse sibling pair")
            if what is None:
                rsp, rde = _strip_x(flow, f, csp.args), _strip_x(flow, f, cde.args)
                ksp = {k.arg: norm_src(k.value) for k in csp.keywords}
                kde = {k.arg: norm_src(k.value) for k in cde.keywords}
                if not (_subseq(rsp, rde) or _subseq(rde, rsp)) or ksp != kde:
                    what = (f"arguments differ between the siblings: sparse {rsp} {ksp} vs "
                            f"dense {rde} {kde}")
            ctx.ob(rule, key, what is None, what=what, loc=loc(f, st))
    ctx.floor(rule, n, scope.get("floor", 15))


def r_convert(A, ctx, scope, rule="R-CONVERT"):
    ctx.rule(rule, "input conversion: every validation of X that precedes a kernel "
             "(check_array / _validate_data parameter dicts in estimators and solver.path) "
             "accepts sparse input only as 'csc' (other formats are converted, never handed "
             "to CSC kernels), and regression entries request Fortran order")
    n = 0
    for f in A.prog.all_functions():
        if not f.module.name.startswith(("skglm.estimators", "skglm.solvers")):
            continue
        for c in ast.walk(f.node):
            if not isinstance(c, ast.Call):
                continue
            fn = ast.unparse(c.func)
            acc = None
            target = None
            if fn.endswith("check_array") and c.args:
                target = norm_src(c.args[0])
                if len(c.args) > 1:
                    acc = c.args[1]
                for k in c.keywords:
                    if k.arg == "accept_sparse":
                        acc = k.value
            elif fn == "dict" and any(k.arg == "accept_sparse" for k in c.keywords):
                target = "X(params)"
                acc = next(k.value for k in c.keywords if k.arg == "accept_sparse")
            else:
                continue
            if target not in ("X", "X(params)"):
                continue
            n += 1
            ok = acc is None or (isinstance(acc, ast.Constant) and acc.value in ("csc", False))
            if not ok and target == "X" and not _unconverted_reader(A, f, c):
                # the matrix only goes to solver.solve(), which converts (R-SOLVEFORMAT), and to slot
                # methods that ignore the CSC triple for every datafit this branch admits
                ok = True
            ctx.ob(rule, f"{f.fq}::{norm_src(c)[:70]}", ok,
                   what=f"`{norm_src(c)[:70]}` lets sparse formats other than CSC through "
                        f"(accept_sparse={norm_src(acc) if acc is not None else None}): their "
                        "data/indptr/indices are then read by CSC kernels as if they were CSC",
                   loc=loc(f, c))
    ctx.floor(rule, n, scope.get("floor", 6))


def _unconverted_reader(A, f, site):
    """is there, in `f`, a reader of the CSC triple (`.data / .indptr / .indices`) of the matrix validated at
    `site` (or of a plain alias of it) that can matter?  A slot call such as `datafit.initialize_sparse(X.data,
    ...)` does not matter when every implementation admitted by the isinstance facts that dominate the
    validation ignores those parameters (Logistic.initialize_sparse is `pass`)."""
    prog, flow = A.prog, A.flow
    cfg = cfg_of(f)
    snode = None
    for nd in cfg.stmts():
        if nd.ast is not None and nd.kind != "for" and any(x is site for x in ast.walk(nd.ast)):
            snode = nd.id
    names = {"X"}
    for st in ast.walk(f.node):
        if isinstance(st, ast.Assign) and len(st.targets) == 1 and isinstance(st.targets[0], ast.Name) \
                and isinstance(st.value, ast.Name) and st.value.id in names:
            names.add(st.targets[0].id)
    # classes admitted on the branch of the validation: isinstance facts (directly or through a flag)
    admitted = None
    if snode is not None:
        flagdefs = {st.targets[0].id: st.value for st in ast.walk(f.node) if isinstance(st, ast.Assign)
                    and len(st.targets) == 1 and isinstance(st.targets[0], ast.Name)}
        for t, lab, _ in cfg.facts_at(snode):
            if not isinstance(t, ast.expr) or lab != "true":
                continue
            for part in ([t] + (t.values if isinstance(t, ast.BoolOp) and isinstance(t.op, ast.And) else [])):
                e = flagdefs.get(part.id) if isinstance(part, ast.Name) else part
                if isinstance(e, ast.Call) and ast.unparse(e.func) == "isinstance" and len(e.args) == 2:
                    cl = e.args[1].elts if isinstance(e.args[1], ast.Tuple) else [e.args[1]]
                    got = [prog.resolve(f.module, ast.unparse(x)) for x in cl]
                    got = [g for g in got if type(g).__name__ == "ClassInfo"]
                    if got:
                        admitted = [d for d in prog.datafits if any(d is g or d.is_subclass_of(g) for g in got)]
    for nd in cfg.stmts():
        if nd.ast is None or nd.kind == "for":
            continue
        reads = [x for x in ast.walk(nd.ast) if isinstance(x, ast.Attribute) and x.attr in ("data", "indptr", "indices")
                 and isinstance(x.value, ast.Name) and x.value.id in names]
        if not reads:
            continue
        # is every read an argument of one slot call whose admitted implementations ignore it?
        harmless = False
        for c in ast.walk(nd.ast):
            if isinstance(c, ast.Call) and isinstance(c.func, ast.Attribute) and all(
                    any(r is y for a in c.args for y in ast.walk(a)) for r in reads):
                # an initialisation made in path() is redone by the solver's own _solve on the matrix that
                # solve() converted: what it computed from the unconverted triple is overwritten
                if c.func.attr.startswith("initialize") and f.cls is not None and f.cls in prog.solvers:
                    sv = f.cls.find_method("_solve")
                    if sv is not None and any(isinstance(x, ast.Call) and isinstance(x.func, ast.Attribute)
                                              and x.func.attr == c.func.attr for x in ast.walk(sv.node)):
                        harmless = True
                        continue
                kind, callees = flow.resolve_call(f, c)
                impls = None
                if kind.startswith("slot:"):
                    impls = callees
                elif admitted is not None:
                    impls = [d.find_method(c.func.attr) for d in admitted]
                if impls is None or admitted is None:
                    continue
                impls = [m for m in impls if m is not None and (m.cls in admitted)] or \
                        [d.find_method(c.func.attr) for d in admitted if d.find_method(c.func.attr) is not None]
                if impls and all(not (names_in(m.node) & set(m.call_params()[:3])) for m in impls):
                    harmless = True
        if not harmless:
            return True
    return False


def r_solverstate(A, ctx, scope, rule="R-SOLVERSTATE"):
    ctx.rule(rule, "solver objects are immutable after construction: no method of a solver "
             "other than __init__ stores to self.<attr> (no cache, no knob rewritten by a "
             "path), so a solver instance reused across problems carries no state")
    n = 0
    for cls in A.prog.solvers + [A.prog.BaseSolver]:
        for mname, m in cls.methods.items():
            if mname == "__init__":
                continue
            n += 1
            bad = None
            for st in ast.walk(m.node):
                tg = st.targets if isinstance(st, ast.Assign) else [st.target] if isinstance(st, (ast.AugAssign, ast.AnnAssign)) else []
                for t in tg:
                    for tt in (t.elts if isinstance(t, ast.Tuple) else [t]):
                        base = tt
                        while isinstance(base, ast.Subscript):
                            base = base.value
                        ch = attr_chain(base) if isinstance(base, ast.Attribute) else None
                        if ch and ch[0] == "self":
                            bad = st
                if isinstance(st, ast.Call) and ast.unparse(st.func) == "setattr" and st.args \
                        and ast.unparse(st.args[0]) == "self":
                    bad = st
            ctx.ob(rule, f"{m.fq}", bad is None,
                   what=f"{m.qualname} stores `{norm_src(bad)[:60] if bad else ''}` on the solver "
                        "object: a later solve with the same instance depends on this call",
                   loc=loc(m, bad) if bad else None)
        # ... and __init__ keeps hyper-parameters only: nothing it stores is a freshly built mutable
        # object (buffers, accelerators, lists) that the solves would then share
        init = cls.methods.get("__init__")
        if init is not None:
            n += 1
            bad = None
            for st in ast.walk(init.node):
                if isinstance(st, ast.Assign) and any(isinstance(t, ast.Attribute) and isinstance(t.value, ast.Name)
                                                      and t.value.id == "self" for t in st.targets):
                    v = st.value
                    fresh = isinstance(v, (ast.List, ast.Dict, ast.Set, ast.ListComp, ast.DictComp))
                    if isinstance(v, ast.Call):
                        fn = ast.unparse(v.func)
                        r = A.prog.resolve(init.module, fn.split(".")[0]) if "." not in fn else None
                        fresh = fresh or fn in ("list", "dict", "set") or fn.startswith(("np.zeros", "np.empty", "np.ones", "np.full")) \
                            or type(r).__name__ == "ClassInfo"
                    if fresh:
                        bad = st
            ctx.ob(rule, f"{init.fq}::hyper-parameters-only", bad is None,
                   what=(f"{init.qualname}: `{norm_src(bad)[:70]}` creates a mutable object once per solver: every "
                         "solve() on this instance shares it, so what an earlier solve left in it (Anderson "
                         "history of another problem, a cached buffer) enters the next one") if bad is not None else "",
                   loc=loc(init, bad) if bad is not None else None)
    ctx.floor(rule, n, scope.get("floor", 25))


def _establishes_csc(st, xname):
    """does statement `st` make sure that sparse `xname` is CSC from here on?  Conversions
    (`X = X.tocsc()`, `X = csc_matrix(X)`, `X = check_array(X, 'csc', ...)`) and refusals
    (`if <test on X.format / isspmatrix_csc(X)>: raise`), directly or under an `issparse` test."""
    if isinstance(st, ast.Assign) and len(st.targets) == 1 and isinstance(st.targets[0], ast.Name) \
            and st.targets[0].id == xname and isinstance(st.value, ast.Call):
        fn = ast.unparse(st.value.func)
        if fn.endswith((".tocsc", "csc_matrix", "csc_array")):
            return True
        if fn.endswith("check_array"):
            acc = st.value.args[1] if len(st.value.args) > 1 else next(
                (k.value for k in st.value.keywords if k.arg == "accept_sparse"), None)
            return isinstance(acc, ast.Constant) and acc.value in ("csc", False)
    if isinstance(st, ast.If):
        t = ast.unparse(st.test)
        if ("format" in t or "isspmatrix_csc" in t or "csc_matrix" in t or "csc_array" in t) and xname in t:
            if any(isinstance(x, ast.Raise) for b in (st.body, st.orelse) for s in b for x in ast.walk(s)):
                return True
            if any(_establishes_csc(s, xname) for s in st.body):
                return True
        if "issparse" in t and xname in t and not st.orelse:
            return any(_establishes_csc(s, xname) for s in st.body)
    return False


def _narrow_sparse_guard(st, xname):
    """an `if` around the conversion / refusal whose sparse-ness predicate is narrower than the
    `issparse` the solvers dispatch on (`isspmatrix` is False for scipy sparse *arrays*)"""
    if isinstance(st, ast.If):
        for c in ast.walk(st.test):
            if isinstance(c, ast.Call) and ast.unparse(c.func).split(".")[-1] == "isspmatrix" \
                    and c.args and ast.unparse(c.args[0]) == xname:
                return c
    return None


def r_solveformat(A, ctx, scope, rule="R-SOLVEFORMAT"):
    ctx.rule(rule, "sparse format at the solver entry: a solver whose `_solve` (or a kernel it calls) reads "
             "`X.data / X.indptr / X.indices` as a CSC triple only does so after the entry path "
             "(BaseSolver.solve, _validate, the solver's custom_checks, or the part of `_solve` before the "
             "first read) has converted sparse X to CSC or refused other formats; a CSR matrix has the same "
             "three attributes and is otherwise read as the CSC matrix of another design (a different "
             "answer, out-of-range rows when the matrix is not square) without any error")
    base = A.prog.BaseSolver
    entry = [m for m in (base.find_method("solve"), base.find_method("_validate")) if m is not None]
    if not entry:
        raise AnalysisError("BaseSolver.solve missing")
    n = 0
    for sname, sf in sorted(A.facts.items()):
        f = sf.f
        xname = f.call_params()[0] if f.call_params() else "X"
        reads = [x for x in ast.walk(f.node) if isinstance(x, ast.Attribute) and x.attr in ("indptr", "indices")
                 and isinstance(x.value, ast.Name) and x.value.id == xname]
        if not reads:
            continue
        n += 1
        first = min(r.lineno for r in reads)
        where = None
        narrow = None
        skipped = None
        for m in entry + [sf.cls.find_method("custom_checks")]:
            if m is None:
                continue
            mx = m.call_params()[0] if m.call_params() else "X"
            for st in m.node.body:
                if _establishes_csc(st, mx):
                    where = m.qualname
                    narrow = narrow or _narrow_sparse_guard(st, mx)
                # BaseSolver.solve: under `if run_checks:` a *refusal* counts (run_checks=False is the
                # caller's promise that the input is valid); a *conversion* there does not - it is not
                # a check, and solve(..., run_checks=False) would hand the unconverted matrix on
                if isinstance(st, ast.If) and "run_checks" in ast.unparse(st.test):
                    for s_ in st.body:
                        if _establishes_csc(s_, mx):
                            converts = any(isinstance(x, ast.Assign) for x in ast.walk(s_)) and not any(
                                isinstance(x, ast.Raise) for x in ast.walk(s_))
                            if converts:
                                skipped = s_
                            else:
                                where = m.qualname
        for st in f.node.body:
            if st.lineno < first and _establishes_csc(st, xname):
                where = f.qualname
        ctx.ob(rule, f"{f.fq}", where is not None,
               what=f"{sname}._solve reads `{xname}.indptr` / `{xname}.indices` as a CSC triple (first at line "
                    f"{first}) and nothing on the way from solve() converts a sparse `{xname}` to CSC or refuses "
                    "other formats"
                    + (" on every call (the conversion sits under `if run_checks:`, so solve(..., "
                       "run_checks=False) passes a CSR matrix on unconverted)" if skipped is not None else "")
                    + ": solve(X_csr, ...) silently solves another problem (the rows are read as "
                    "columns) instead of raising or converting", loc=loc(f, reads[0]))
        if where is not None:
            # the guard of the conversion must cover what the solver's own dispatch calls sparse
            uses_issparse = any(isinstance(c, ast.Call) and ast.unparse(c.func).split(".")[-1] == "issparse"
                                for c in ast.walk(f.node))
            ctx.ob(rule, f"{f.fq}::guard", not (narrow is not None and uses_issparse),
                   what=f"the conversion on the way into {sname}._solve is guarded by `{norm_src(narrow) if narrow is not None else ''}`, "
                        f"but {sname}._solve dispatches on `issparse({xname})`: scipy sparse *arrays* (csr_array, coo_array) "
                        "are sparse for the solver and not for the guard, so they are not converted and their "
                        "arrays are read as a CSC triple", loc=loc(f, reads[0]))
    ctx.floor(rule, n, scope.get("floor", 5))


def r_storage_state(A, ctx, scope, rule="R-STORAGE-STATE"):
    ctx.rule(rule, "solver state does not depend on the storage format: under a test of `issparse(X)` a solver only "
             "dispatches to sibling kernels / accessors and prepares X-derived auxiliaries; it does not define, "
             "reorder or update the working set, the iterate or the model fit in one arm only (`if is_sparse: "
             "ws.sort()`): the order in which coordinates are visited - hence the limit point for non-convex "
             "penalties and every intermediate iterate - would differ between dense and sparse input")
    flow = A.flow
    n = 0
    for name, sf in sorted(A.facts.items()):
        f = sf.f
        env = flow.env.get(f, {})
        flags = {nm for nm, r in env.items() if "SPARSE" in r}
        state = {nm for nm, r in env.items() if set(r) & {"WS", "W", "XW"}}
        for node in ast.walk(f.node):
            if not isinstance(node, ast.If):
                continue
            t = ast.unparse(node.test)
            if not ("issparse" in t or names_in(node.test) & flags or "is_sparse" in t):
                continue
            n += 1

            def touched(stmts):
                out = {}
                for s_ in stmts:
                    if isinstance(s_, (ast.If, ast.For, ast.While)):
                        continue
                    if isinstance(s_, (ast.Assign, ast.AugAssign)):
                        for t_ in (s_.targets if isinstance(s_, ast.Assign) else [s_.target]):
                            for e in (t_.elts if isinstance(t_, ast.Tuple) else [t_]):
                                b = e
                                while isinstance(b, ast.Subscript):
                                    b = b.value
                                if isinstance(b, ast.Name) and b.id in state:
                                    out[b.id] = s_
                    if isinstance(s_, ast.Expr) and isinstance(s_.value, ast.Call) and isinstance(s_.value.func, ast.Attribute) \
                            and isinstance(s_.value.func.value, ast.Name) and s_.value.func.value.id in state \
                            and s_.value.func.attr in ("sort", "reverse", "fill", "resize", "partition"):
                        out[s_.value.func.value.id] = s_
                return out
            a, b = touched(node.body), touched(node.orelse)
            bad = [(k, v) for k, v in a.items() if k not in b] + [(k, v) for k, v in b.items() if k not in a]
            ctx.ob(rule, f"{f.fq}::{norm_src(node.test)[:40]}::line-shape::{len(node.body)}/{len(node.orelse)}::{sorted(a) + sorted(b)}",
                   not bad,
                   what=(f"{f.qualname}: `{norm_src(bad[0][1])[:60]}` changes `{bad[0][0]}` under `{norm_src(node.test)[:30]}` only: "
                         "the working set / iterate then depends on how X is stored, so dense and sparse runs visit "
                         "coordinates differently and return different points") if bad else "",
                   loc=loc(f, bad[0][1]) if bad else None)
    ctx.floor(rule, n, scope.get("floor", 15))


def r_f32spec(A, ctx, scope, rule="R-F32SPEC"):
    ctx.rule(rule, "float32 specification keeps the layout of every attribute: in `spec_to_float32` the type given to an "
             "array attribute is derived from the attribute's own type (`dtype.copy(dtype=float32)` or the type itself), "
             "never a literal of fixed rank (`float32[:]`): specs contain 2-D arrays (QuadraticMultiTask.XtY), and a "
             "rank-1 literal makes the float32 clone fail inside compiled code instead of matching the float64 one")
    m = A.prog.modules.get("skglm.utils.jit_compilation")
    f = m.functions.get("spec_to_float32") if m else None
    if f is None:
        raise AnalysisError("skglm.utils.jit_compilation.spec_to_float32 missing")
    # specs with arrays of rank > 1 exist (otherwise a rank-1 literal would be harmless)
    ranks2 = [(c.name, nm) for c in A.prog.datafits + A.prog.penalties for nm, ty in (A.prog.spec_of(c) or [])
              if "[:, :" in ty.replace(" ", "") or "[:,:" in ty.replace(" ", "")]
    lits = [x for x in ast.walk(f.node) if isinstance(x, ast.Subscript) and isinstance(x.value, ast.Name)
            and x.value.id in ("float32", "float64") and isinstance(x.slice, (ast.Slice, ast.Tuple))]
    ctx.ob(rule, f"{f.fq}", not (lits and ranks2),
           what=(f"spec_to_float32 assigns the fixed-rank type `{norm_src(lits[0])}` to array attributes, but "
                 f"{ranks2[0][0]}.{ranks2[0][1]} (and {len(ranks2) - 1} more) are 2-D: the float32 clone of that class "
                 "cannot be initialised (error inside compiled code) while the float64 one works") if lits and ranks2 else "",
           loc=loc(f, lits[0]) if lits else None)
    ctx.extra["rank2_spec_attributes"] = len(ranks2)
    ctx.floor(rule + "/rank-2 attributes", len(ranks2), 1)
