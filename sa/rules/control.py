"""Solver control-flow rules: R-ZERO, R-CERT, R-FRESH, R-ANDERSON, R-LBFGS, R-RETSTOP."""
import ast

from ..model import norm_src, is_inf, names_in, attr_chain, AnalysisError
from ..cfg import cfg_of

# Solvers outside the scope of C01's statement (named exemptions, one reason each)
C01_SCOPE_EXEMPT = {
    "FISTA": "C01 names CD, BCD, prox-Newton, Gram and L-BFGS solvers; FISTA is not "
             "among them (its zero-budget defect is owned by C13/C17)",
    "PDCD_WS": "experimental primal-dual solver whose criterion is a primal-dual "
               "fixed-point residual, not a first-order certificate; not named in C01",
}


def loc(f, node):
    return f"{f.module.relpath}:{getattr(node, 'lineno', '?')}"


def _slot_call(flow, f, node, role, names):
    """Is `node` a slot call `<recv>.<name>(...)` on a receiver with `role`?"""
    if not (isinstance(node, ast.Call) and isinstance(node.func, ast.Attribute)):
        return False
    ch = attr_chain(node.func)
    if not ch or len(ch) != 2 or ch[1] not in names:
        return False
    return role in flow.env[f].get(ch[0], ())


# --------------------------------------------------------------------- R-ZERO
def r_zero(A, ctx, scope, rule="R-ZERO", want="inf"):
    """Every definition of the returned stopping value that reaches `return` along
    the zero-trip edge of the budget loop must be +inf.  (`want='bound'`: only
    require that it is bound at all - used by C13/C17.)"""
    ctx.rule(rule, "zero-budget soundness: value returned third when the budget loop "
             "runs zero times must be +inf (reaching definitions on the CFG with the "
             "loop-entry edge removed)")
    n = 0
    for name, sf in sorted(A.facts.items()):
        if name in scope.get("exempt", ()) or sf.loop is None or sf.STOP is None:
            continue
        cfg = sf.cfg
        rd = cfg.reaching_defs(blocked_edges=[(sf.loop_header, sf.loop_iter_edge)])
        defs = rd.get(sf.ret_node.id, {}).get(sf.STOP, set())
        cfg._rd = None
        if not defs:
            raise AnalysisError(f"{sf.f.fq}: no definition of {sf.STOP} reaches return")
        for d in sorted(defs):
            n += 1
            if d == -1:
                ctx.ob(rule, f"{sf.f.fq}::{sf.STOP}::unbound", False,
                       what=f"`{sf.STOP}` is unbound at `return` when "
                            f"self.{sf.budget_attr} == 0 (UnboundLocalError)",
                       loc=loc(sf.f, sf.ret_node.ast))
                continue
            a = cfg.nodes[d].ast
            val = a.value if isinstance(a, ast.Assign) else None
            if want == "bound":
                ctx.ob(rule, f"{sf.f.fq}::{norm_src(a)}", True)
                continue
            ok = val is not None and is_inf(val)
            ctx.ob(rule, f"{sf.f.fq}::{norm_src(a)}", ok,
                   what=f"with self.{sf.budget_attr} == 0 the solver returns "
                        f"stop_crit = {norm_src(val) if val is not None else '?'} "
                        f"(finite, <= any tol) for an arbitrary start point",
                   loc=loc(sf.f, a))
    ctx.floor(rule, n, scope.get("floor", 1))


# --------------------------------------------------------------------- R-CERT
_MAX_FUNCS = {"max", "np.max", "numpy.max", "np.maximum", "np.amax"}


def _is_max_reduction(e):
    """max(...) / np.max(...) / norm(x, ord=np.inf)"""
    if isinstance(e, ast.Call):
        fn = ast.unparse(e.func)
        if fn in _MAX_FUNCS:
            return True
        if fn in ("norm", "np.linalg.norm"):
            for kw in e.keywords:
                if kw.arg == "ord" and is_inf(kw.value):
                    return True
    return False


def _stop_chain(sf, test_node, stop_var):
    """Definitions of the stop variable reaching the tolerance test, followed through
    self-references (stop = max(stop, x))."""
    cfg = sf.cfg
    rd = cfg.reaching_defs()
    seen, work, out = set(), [(test_node, stop_var)], []
    while work:
        at, v = work.pop()
        for d in rd.get(at, {}).get(v, ()):
            if d in seen or d < 0:
                continue
            seen.add(d)
            out.append(d)
            if v in cfg.uses_of(d):
                work.append((d, v))
    return out


def r_cert(A, ctx, scope, rule="R-CERT", clauses=("max", "all", "intercept")):
    ctx.rule(rule, "certificate completeness: the value tested against self.tol is a "
             "max-reduction over a score computed on ALL coordinates (working-set "
             "argument = arange(n)) from a gradient built over ALL coordinates, joined "
             "(iff the solver sizes w with the intercept flag) with |intercept gradient|")
    n = 0
    for name, sf in sorted(A.facts.items()):
        if name in scope.get("exempt", ()) or sf.loop is None:
            continue
        f, cfg, flow = sf.f, sf.cfg, A.flow
        if not sf.tol_exits:
            raise AnalysisError(f"{f.fq}: budget loop has no tolerance exit")
        for test_id, brk_id, cmp in sf.tol_exits:
            stop = sf.stop_name_in(cmp)
            if stop is None:
                raise AnalysisError(f"{f.fq}: cannot read tolerance test {norm_src(cmp)}")
            # (0) tolerance unscaled and comparison direction
            n += 1
            tol_side = [c for c in [cmp.left] + cmp.comparators if sf.tol_kind(c)]
            unscaled = all(sf.tol_kind(c) == "direct" for c in tol_side)
            op_ok = isinstance(cmp.ops[0], (ast.LtE, ast.Lt)) and isinstance(cmp.left, ast.Name) \
                or isinstance(cmp.ops[0], (ast.GtE, ast.Gt)) and not isinstance(cmp.left, ast.Name)
            ctx.ob(rule, f"{f.fq}::exit::{norm_src(cmp)}", unscaled and op_ok,
                   what=f"outer tolerance exit `{norm_src(cmp)}` is not `stop <= self.tol` with the "
                        "solver's own unscaled tolerance: a tolerance rescaled by solver state (the "
                        "violation at the start point, an objective value) makes the certificate depend "
                        "on where the run started", loc=loc(f, cmp))
            chain = _stop_chain(sf, test_id, stop)
            slice_nodes = cfg.backward_slice(test_id, [stop])
            # (1) max reduction
            if "max" in clauses:
                for d in chain:
                    a = cfg.nodes[d].ast
                    if not isinstance(a, ast.Assign):
                        continue
                    if d not in [x for x in chain] or not cfg.nodes[d].loops:
                        continue   # pre-loop initialisation (R-ZERO's business)
                    n += 1
                    ctx.ob(rule, f"{f.fq}::max::{norm_src(a)}", _is_max_reduction(a.value),
                           what="stopping value is not a max-reduction of the scores "
                                "(a mean/min/sum certifies points with a large "
                                "coordinate violation)", loc=loc(f, a))
            # (2) score over ALL coordinates from a gradient over ALL coordinates
            if "all" in clauses:
                found_score = 0
                for d in sorted(slice_nodes):
                    a = cfg.nodes[d].ast
                    if not isinstance(a, ast.Assign) or not isinstance(a.value, ast.Call):
                        continue
                    call = a.value
                    cname = ast.unparse(call.func)
                    is_score = _slot_call(flow, f, call, "PENALTY", {"subdiff_distance"}) \
                        or cname.split(".")[-1].startswith("dist_fix_point")
                    is_kernel_score = False
                    if not is_score:
                        kind, callees = flow.resolve_call(f, call)
                        if callees and kind == "direct":
                            rr = flow.ret.get(callees[0]) or []
                            is_kernel_score = len(rr) == 1 and "SCORE" in rr[0]
                    if is_score:
                        found_score += 1
                        n += 1
                        ws_arg = call.args[-1] if call.args else None
                        ok = ws_arg is not None and "ALL" in flow.roles(f, ws_arg)
                        ctx.ob(rule, f"{f.fq}::score-all::{norm_src(a)}", ok,
                               what="the score that feeds the tolerance test is not "
                                    "computed over all coordinates (working-set argument "
                                    f"`{norm_src(ws_arg) if ws_arg is not None else '?'}`)",
                               loc=loc(f, a))
                        # gradient argument built over ALL
                        gargs = [x for x in call.args if isinstance(x, ast.Name)
                                 and "GRAD" in flow.env[f].get(x.id, ())
                                 or isinstance(x, ast.Name) and x.id in _grad_like(sf, flow)]
                        for g in gargs:
                            for gd in cfg.reaching_defs().get(d, {}).get(g.id, ()):
                                if gd < 0:
                                    continue
                                ga = cfg.nodes[gd].ast
                                if isinstance(ga, ast.Assign) and isinstance(ga.value, ast.Call):
                                    gc = ga.value
                                    if _slot_call(flow, f, gc, "DATAFIT",
                                                  {"full_grad_sparse", "gradient", "gradient_sparse"}):
                                        n += 1
                                        ctx.ob(rule, f"{f.fq}::grad-all::{norm_src(ga)}", True)
                                    else:
                                        kind, callees = flow.resolve_call(f, gc)
                                        if callees:
                                            n += 1
                                            okg = gc.args and "ALL" in flow.roles(f, gc.args[-1])
                                            ctx.ob(rule, f"{f.fq}::grad-all::{norm_src(ga)}", bool(okg),
                                                   what="gradient feeding the certificate is "
                                                        "built on a subset of coordinates",
                                                   loc=loc(f, ga))
                    elif is_kernel_score:
                        found_score += 1
                        n += 1
                        ctx.ob(rule, f"{f.fq}::score-all::{norm_src(a)}", True,
                               detail="score returned by epoch kernel (checked in kernel)")
                if not found_score:
                    n += 1
                    ctx.ob(rule, f"{f.fq}::score-all::<none>", False,
                           what="no penalty score (subdiff_distance / dist_fix_point) "
                                "feeds the tolerance test", loc=loc(f, cmp))
            # (3) intercept clause
            if "intercept" in clauses and sf.sizes_with_fi:
                n += 1
                ok, where = False, None
                for d in sorted(slice_nodes):
                    a = cfg.nodes[d].ast
                    if a is None or not isinstance(a, (ast.Assign, ast.AugAssign)):
                        continue
                    for c in ast.walk(a.value):
                        if isinstance(c, ast.Call) and ast.unparse(c.func) in ("np.abs", "abs", "np.absolute", "norm", "np.max"):
                            for cc in ast.walk(c):
                                if _slot_call(flow, f, cc, "DATAFIT", {"intercept_update_step"}) or \
                                   (isinstance(cc, ast.Call) and ast.unparse(cc.func) in ("np.sum", "sum")
                                        and any(_slot_call(flow, f, x, "DATAFIT", {"raw_grad"})
                                                for x in ast.walk(cc))):
                                    # must be under the FI-true branch (or unconditional)
                                    fi_false = any(sf.is_fi_test(t) and lab == "false"
                                                   for t, lab, _ in cfg.facts_at(d))
                                    if not fi_false:
                                        ok, where = True, a
                # the intercept gradient enters through its absolute value, taken entrywise
                # BEFORE any reduction over tasks: abs(max(step)) certifies steps that are all
                # non-positive with one of them ~0
                step_names = set()
                for st in ast.walk(f.node):
                    if isinstance(st, ast.Assign) and isinstance(st.targets[0], ast.Name) and any(
                            _slot_call(flow, f, cc, "DATAFIT", {"intercept_update_step", "raw_grad"})
                            for cc in ast.walk(st.value)):
                        step_names.add(st.targets[0].id)
                for d in sorted(slice_nodes):
                    a = cfg.nodes[d].ast
                    if a is None or not isinstance(a, (ast.Assign, ast.AugAssign)):
                        continue
                    for c in ast.walk(a.value):
                        if isinstance(c, ast.Call) and ast.unparse(c.func) in ("np.abs", "abs", "np.absolute") and c.args:
                            for inner in ast.walk(c.args[0]):
                                fname = ast.unparse(inner.func) if isinstance(inner, ast.Call) else ""
                                red = isinstance(inner, ast.Call) and (
                                    fname in ("np.max", "np.min", "np.amax", "np.amin")
                                    or (isinstance(inner.func, ast.Attribute) and inner.func.attr in ("max", "min")
                                        and not fname.startswith("np."))
                                    or (fname in ("max", "min") and len(inner.args) == 1))
                                # a sum / mean of per-task steps cancels opposite signs (a sum of the
                                # per-sample raw gradient IS the intercept gradient: not concerned)
                                red_sum = isinstance(inner, ast.Call) and (
                                    fname in ("np.sum", "np.mean", "sum")
                                    or (isinstance(inner.func, ast.Attribute) and inner.func.attr in ("sum", "mean")
                                        and not fname.startswith("np.")))
                                if not red and not red_sum:
                                    continue
                                slots = {"intercept_update_step"} if red_sum and not red else \
                                    {"intercept_update_step", "raw_grad"}
                                own_steps = {nm for nm in step_names if any(
                                    isinstance(st2, ast.Assign) and isinstance(st2.targets[0], ast.Name)
                                    and st2.targets[0].id == nm and any(
                                        _slot_call(flow, f, cc, "DATAFIT", slots) for cc in ast.walk(st2.value))
                                    for st2 in ast.walk(f.node))}
                                touches = (names_in(inner) & own_steps) or any(
                                    _slot_call(flow, f, cc, "DATAFIT", slots) for cc in ast.walk(inner))
                                if touches:
                                    n += 1
                                    ctx.ob(rule, f"{f.fq}::intercept-abs-order", False,
                                           what=f"`{norm_src(c)}` reduces the signed intercept steps before "
                                                "taking the absolute value: when every step is <= 0 and one is "
                                                "~0 the intercept violation is reported as ~0 and the solver "
                                                "exits with non-optimal intercepts", loc=loc(f, a))
                ctx.ob(rule, f"{f.fq}::intercept-term", ok,
                       what="solver fits an intercept (w has n_features + fit_intercept "
                            "entries) but the tolerance test does not include the "
                            "intercept gradient: it can exit with a non-optimal intercept",
                       loc=loc(f, cmp))
    ctx.floor(rule, n, scope.get("floor", 1))


def _grad_like(sf, flow):
    """names assigned from calls whose callee returns role GRAD or from matmul
    expressions of the gram form (GramCD)."""
    out = set()
    for n in ast.walk(sf.f.node):
        if isinstance(n, ast.Assign) and len(n.targets) == 1 and isinstance(n.targets[0], ast.Name):
            r = flow.roles(sf.f, n.value)
            if "GRAD" in r:
                out.add(n.targets[0].id)
    return out


# -------------------------------------------------------------------- R-FRESH
def r_fresh(A, ctx, scope, rule="R-FRESH"):
    ctx.rule(rule, "no stale certificate: between the computation of the score (and "
             "its gradient) and the tolerance exit, and between the exit and `return`, "
             "there is no in-place mutation of the iterate, the model fit or the "
             "gradient (direct stores, in-place ops, calls whose effect summary mutates "
             "the bound argument)")
    n = 0
    for name, sf in sorted(A.facts.items()):
        if name in scope.get("exempt", ()) or sf.loop is None:
            continue
        f, cfg, flow = sf.f, sf.cfg, A.flow
        state = {x for x in (sf.W, sf.XW) if x}
        grads = _grad_like(sf, flow)
        mut_nodes = {}
        for nd in cfg.stmts():
            if nd.kind == "for":
                continue
            m = flow.stmt_mutates(f, nd.ast)
            if isinstance(nd.ast, ast.Assign):
                # a plain rebinding `grad = ...` is a definition, not a mutation
                m -= {t.id for t in nd.ast.targets if isinstance(t, ast.Name)}
            if m:
                mut_nodes[nd.id] = m
        for test_id, brk_id, cmp in sf.tol_exits:
            stop = sf.stop_name_in(cmp)
            slice_nodes = cfg.backward_slice(test_id, [stop])
            rd = cfg.reaching_defs()
            # certificate inputs: defs in the slice that are score/gradient producers
            inputs = []
            for d in sorted(slice_nodes):
                a = cfg.nodes[d].ast
                if not isinstance(a, ast.Assign) or not isinstance(a.value, (ast.Call, ast.IfExp, ast.BinOp, ast.UnaryOp)):
                    continue
                tnames = [t.id for t in a.targets if isinstance(t, ast.Name)]
                r = flow.roles(f, a.value)
                if r & {"SCORE", "GRAD"} or any(t in grads for t in tnames):
                    inputs.append((d, tnames))
            for d, tnames in inputs:
                for v in tnames:
                    all_defs = {x.id for x in cfg.nodes if v in cfg.defs_of(x.id)}
                    n += 1
                    bad = None
                    for m, names in mut_nodes.items():
                        if m == d:
                            continue
                        watched = state | grads
                        if not (names & watched):
                            continue
                        # d reaches m with d still the live def, and m reaches the test
                        # without v being recomputed
                        if cfg.consistent_path(d, m, avoiding=all_defs - {d}) and \
                                (m == test_id or cfg.consistent_path(
                                    m, test_id, avoiding=all_defs, seed_from=d)):
                            bad = (m, names & watched)
                            break
                    a = cfg.nodes[d].ast
                    if bad:
                        ma = cfg.nodes[bad[0]].ast
                        ctx.ob(rule, f"{f.fq}::stale::{norm_src(a)}::{norm_src(ma)[:80]}", False,
                               what=f"`{v}` (feeds the tolerance test) is computed at "
                                    f"line {a.lineno}, then `{norm_src(ma)[:70]}` (line "
                                    f"{ma.lineno}) mutates {sorted(bad[1])} and the test is "
                                    f"reached without recomputing `{v}`: the certificate "
                                    "describes a point that is no longer the iterate",
                               loc=loc(f, ma),
                               data=dict(def_line=a.lineno, mut_line=ma.lineno))
                    else:
                        ctx.ob(rule, f"{f.fq}::fresh::{norm_src(a)}", True)
            # exit -> return: no mutation of the iterate
            n += 1
            after = cfg.reachable_from(brk_id) - {brk_id}
            inloop = {x.id for x in cfg.nodes if sf.loop_header in x.loops}
            bad = [m for m in mut_nodes if m in after and m not in inloop
                   and mut_nodes[m] & state]
            if bad:
                ma = cfg.nodes[bad[0]].ast
                ctx.ob(rule, f"{f.fq}::after-exit::{norm_src(ma)[:80]}", False,
                       what="the iterate is modified after the tolerance exit, before "
                            "return", loc=loc(f, ma))
            else:
                ctx.ob(rule, f"{f.fq}::after-exit", True)
    ctx.floor(rule, n, scope.get("floor", 1))


# ------------------------------------------------------------------ R-RETSTOP
def r_retstop(A, ctx, scope, rule="R-RETSTOP"):
    ctx.rule(rule, "the stopping value returned (third element) is the variable that "
             "was tested against the tolerance")
    n = 0
    for name, sf in sorted(A.facts.items()):
        if name in scope.get("exempt", ()) or sf.loop is None:
            continue
        for test_id, brk_id, cmp in sf.tol_exits:
            n += 1
            stop = sf.stop_name_in(cmp)
            ctx.ob(rule, f"{sf.f.fq}::{norm_src(cmp)}", stop == sf.STOP,
                   what=f"returns `{norm_src(sf.ret_stop)}` but tests `{stop}`",
                   loc=loc(sf.f, cmp))
        # every definition of the returned value inside the budget loop is one that the
        # tolerance test sees: a definition that goes straight to `return` hands back a
        # value that never went through the certificate (e.g. an inner-loop criterion)
        if sf.STOP and sf.tol_exits:
            cfg = sf.cfg
            rd = cfg.reaching_defs()
            seen_by_test = set()
            for test_id, brk_id, cmp in sf.tol_exits:
                seen_by_test |= set(rd.get(test_id, {}).get(sf.STOP, ()))
                stop_nm = sf.stop_name_in(cmp)
                if stop_nm:
                    seen_by_test |= set(_stop_chain(sf, test_id, stop_nm))
                    seen_by_test |= set(cfg.backward_slice(test_id, [stop_nm]))
            for nd in cfg.stmts():
                a = nd.ast
                if nd.kind == "stmt" and isinstance(a, ast.Assign) and any(
                        isinstance(e, ast.Name) and e.id == sf.STOP
                        for t in a.targets for e in (t.elts if isinstance(t, ast.Tuple) else [t])) and nd.loops:
                    n += 1
                    ctx.ob(rule, f"{sf.f.fq}::def::{norm_src(a)[:60]}", nd.id in seen_by_test,
                           what=f"`{norm_src(a)[:60]}` sets the returned stopping value on a path that "
                                "never reaches the outer tolerance test: the value handed back is not the "
                                "certificate (full-gradient score joined with the intercept term) of the "
                                "returned point", loc=loc(sf.f, a))
    ctx.floor(rule, n, scope.get("floor", 1))


# ----------------------------------------------------------------- R-ANDERSON
class _Subst(ast.NodeTransformer):
    def __init__(self, attr_map, name_map):
        self.am, self.nm = attr_map, name_map

    def visit_Attribute(self, node):
        self.generic_visit(node)
        if isinstance(node.value, ast.Name) and node.value.id == "self" and node.attr in self.am:
            return ast.copy_location(ast.Attribute(node.value, self.am[node.attr], node.ctx), node)
        return node

    def visit_Name(self, node):
        if node.id in self.nm:
            return ast.copy_location(ast.Name(self.nm[node.id], node.ctx), node)
        return node


def _same_after(e0, e1, am, nm):
    import copy
    t = _Subst(am, nm).visit(copy.deepcopy(e0))
    return ast.dump(t) == ast.dump(e1)


def r_anderson(A, ctx, scope, rule="R-ANDERSON"):
    ctx.rule(rule, "affine consistency of extrapolation: in AndersonAcceleration."
             "extrapolate both buffers are written at the same column in the same "
             "block and every returned pair is the same term under buffer_w<->buffer_Xw, "
             "w<->Xw")
    cls = A.prog.find_class("AndersonAcceleration")
    if cls is None or "extrapolate" not in cls.methods:
        raise AnalysisError("anchor AndersonAcceleration.extrapolate missing")
    f = cls.methods["extrapolate"]
    p1, p2 = f.call_params()[:2]
    # buffer pairing from stores `self.A[...] = p1`
    buf = {}
    stores = []
    for st in ast.walk(f.node):
        if isinstance(st, ast.Assign) and len(st.targets) == 1 and isinstance(st.targets[0], ast.Subscript):
            t = st.targets[0]
            ch = attr_chain(t.value)
            if ch and ch[0] == "self" and len(ch) == 2 and isinstance(st.value, ast.Name) \
                    and st.value.id in (p1, p2):
                buf[st.value.id] = ch[1]
                stores.append(st)
    n = 0
    if set(buf) != {p1, p2}:
        ctx.ob(rule, f"{f.fq}::buffers", False,
               what="cannot find a store of both arguments into their history buffers",
               loc=loc(f, f.node))
        ctx.floor(rule, 0, 1)
        return
    am, nm = {buf[p1]: buf[p2]}, {p1: p2}
    # stores come in sibling pairs inside the same statement list
    for blk in ast.walk(f.node):
        body = getattr(blk, "body", None)
        if not isinstance(body, list):
            continue
        for lst in (body, getattr(blk, "orelse", []) or []):
            s1 = [s for s in lst if s in stores and s.value.id == p1]
            s2 = [s for s in lst if s in stores and s.value.id == p2]
            for s in s1:
                n += 1
                ok = any(_same_after(s.targets[0], t.targets[0], am, nm) for t in s2)
                ctx.ob(rule, f"{f.fq}::store::{norm_src(s)}", ok,
                       what="iterate buffer and model-fit buffer are not written at the "
                            "same column in the same block", loc=loc(f, s))
            for s in s2:
                if not any(_same_after(t.targets[0], s.targets[0], am, nm) for t in s1):
                    n += 1
                    ctx.ob(rule, f"{f.fq}::store::{norm_src(s)}", False,
                           what="model-fit buffer written without the iterate buffer",
                           loc=loc(f, s))
    for r in ast.walk(f.node):
        if isinstance(r, ast.Return) and isinstance(r.value, ast.Tuple) and len(r.value.elts) == 3:
            n += 1
            e0, e1, _ = r.value.elts
            ctx.ob(rule, f"{f.fq}::return::{norm_src(r)}", _same_after(e0, e1, am, nm),
                   what="returned (w, Xw) pair is not the same affine combination of "
                        "the two buffers", loc=loc(f, r))
    ctx.floor(rule, n, 4)


# -------------------------------------------------------------------- R-LBFGS
def r_lbfgs(A, ctx, scope, rule="R-LBFGS"):
    ctx.rule(rule, "L-BFGS wrapper: objective and jacobian handed to scipy are "
             "value/gradient of the same two components at the same X @ w; gtol is "
             "self.tol; the returned stopping value is the inf-norm of scipy's final "
             "jacobian")
    cls = A.prog.find_class("LBFGS")
    if cls is None:
        raise AnalysisError("anchor LBFGS missing")
    f = cls.methods["_solve"]
    flow = A.flow
    nested = flow.nested[id(f.node)]
    pX, pY, pD, pP = f.call_params()[:4]
    n = 0

    def comp(fn):
        """(xw_ok, datafit slot, penalty slot) of a nested function of one arg"""
        node = fn.node
        arg = fn.params[0]
        xw = None
        for st in node.body:
            if isinstance(st, ast.Assign) and isinstance(st.value, ast.BinOp) \
                    and isinstance(st.value.op, ast.MatMult) \
                    and isinstance(st.value.left, ast.Name) and st.value.left.id == pX \
                    and isinstance(st.value.right, ast.Name) and st.value.right.id == arg:
                xw = st.targets[0].id
        d = p = None
        for c in ast.walk(node):
            if isinstance(c, ast.Call) and isinstance(c.func, ast.Attribute) \
                    and isinstance(c.func.value, ast.Name):
                argn = [a.id for a in c.args if isinstance(a, ast.Name)]
                if c.func.value.id == pD:
                    d = (c.func.attr, xw is not None and xw in argn)
                elif c.func.value.id == pP:
                    p = (c.func.attr, arg in argn)
        ret = [r for r in ast.walk(node) if isinstance(r, ast.Return)]
        ret_sum = bool(ret) and isinstance(ret[-1].value, ast.BinOp) and isinstance(ret[-1].value.op, ast.Add)
        return xw, d, p, ret_sum
    # locate scipy call
    mini = [c for c in ast.walk(f.node) if isinstance(c, ast.Call)
            and ast.unparse(c.func).endswith("optimize.minimize")]
    if not mini:
        raise AnalysisError("LBFGS: scipy.optimize.minimize call not found")
    kw = {k.arg: k.value for k in mini[0].keywords}
    fun = nested.get(ast.unparse(kw.get("fun"))) if kw.get("fun") is not None else None
    n += 1
    if fun is None:
        ctx.ob(rule, f"{f.fq}::fun", False, what="objective passed to scipy is not a local function")
    else:
        xw, d, p, rs = comp(fun)
        ctx.ob(rule, f"{f.fq}::fun", bool(d and p and d[0] == "value" and p[0] == "value"
                                          and d[1] and p[1] and rs),
               what="objective is not datafit.value(y, w, X @ w) + penalty.value(w)",
               loc=loc(f, fun.node))
    # jac candidates: names assigned to the variable given as jac
    jv = kw.get("jac")
    cands = []
    if isinstance(jv, ast.Name):
        for st in ast.walk(f.node):
            if isinstance(st, ast.Assign) and isinstance(st.targets[0], ast.Name) \
                    and st.targets[0].id == jv.id:
                for nm in names_in(st.value):
                    if nm in nested:
                        cands.append(nested[nm])
        if jv.id in nested:
            cands.append(nested[jv.id])
    if not cands:
        n += 1
        ctx.ob(rule, f"{f.fq}::jac", False, what="jacobian passed to scipy not resolved")
    for j in cands:
        n += 1
        xw, d, p, rs = comp(j)
        ok = bool(d and p and d[0] in ("gradient", "gradient_sparse") and p[0] == "gradient"
                  and d[1] and p[1] and rs)
        ctx.ob(rule, f"{f.fq}::jac::{j.name}", ok,
               what=f"`{j.name}` is not datafit.gradient*(…, X @ w) + penalty.gradient(w) "
                    "at its own argument", loc=loc(f, j.node))
    # gtol = self.tol
    n += 1
    opts = kw.get("options")
    gt = None
    if isinstance(opts, ast.Call):
        for k in opts.keywords:
            if k.arg == "gtol":
                gt = k.value
    elif isinstance(opts, ast.Dict):
        for k, v in zip(opts.keys, opts.values):
            if isinstance(k, ast.Constant) and k.value == "gtol":
                gt = v
    ctx.ob(rule, f"{f.fq}::gtol", gt is not None and "TOL" in flow.roles(f, gt)
           and isinstance(gt, ast.Attribute),
           what="scipy's gtol is not the solver's own tolerance", loc=loc(f, mini[0]))
    # returned stop value: inf-norm of result.jac
    n += 1
    rets = [r for r in f.node.body if isinstance(r, ast.Return)]
    ok = False
    if rets and isinstance(rets[-1].value, ast.Tuple) and len(rets[-1].value.elts) == 3:
        sv = rets[-1].value.elts[2]
        if isinstance(sv, ast.Name):
            for st in f.node.body:
                if isinstance(st, ast.Assign) and isinstance(st.targets[0], ast.Name) \
                        and st.targets[0].id == sv.id:
                    ok = _is_max_reduction(st.value) and ".jac" in ast.unparse(st.value)
    ctx.ob(rule, f"{f.fq}::stop", ok,
           what="returned stopping value is not the inf-norm of the final jacobian",
           loc=loc(f, rets[-1]) if rets else None)
    ctx.floor(rule, n, 5)


# ---------------------------------------------------------------- R-GRADPOINT
def r_gradpoint(A, ctx, scope, rule="R-GRADPOINT"):
    ctx.rule(rule, "the certificate is taken at the returned point: the gradient handed to the score behind the outer "
             "tolerance test (`penalty.subdiff_distance(w, grad, ...)`, or the fixed-point residual built from "
             "`w` and `grad`) was computed at that same `w` - the points its defining expression is evaluated at "
             "(`X @ v`, coefficient arguments of gradient builders) include `w`, and `w` is not rebound between "
             "the gradient and the score; a gradient taken at an auxiliary point (the extrapolated sequence of "
             "an accelerated method) certifies another point than the one returned")
    n = 0
    for name, sf in sorted(A.facts.items()):
        if name in scope.get("exempt", ()) or sf.loop is None or not sf.tol_exits:
            continue
        f, cfg, flow = sf.f, sf.cfg, A.flow
        rd = cfg.reaching_defs()
        wroles = {nm for nm, r in flow.env.get(f, {}).items() if set(r) & {"W", "W0"}}
        for test_id, brk_id, cmp in sf.tol_exits:
            stop = sf.stop_name_in(cmp)
            if stop is None:
                continue
            for d in sorted(cfg.backward_slice(test_id, [stop])):
                a = cfg.nodes[d].ast
                if not isinstance(a, ast.Assign):
                    continue
                score = None
                for c in ast.walk(a.value):
                    if isinstance(c, ast.Call) and isinstance(c.func, ast.Attribute) and c.func.attr == "subdiff_distance" \
                            and len(c.args) >= 2 and isinstance(c.args[1], ast.Name):
                        w0 = c.args[0]
                        while isinstance(w0, ast.Subscript):
                            w0 = w0.value
                        if isinstance(w0, ast.Name):
                            score = (w0.id, c.args[1].id, c)
                if score is None:
                    # fixed-point residual written inline: |w - prox(w - grad / L, ...)|
                    names = names_in(a.value)
                    ws_ = [x for x in names if x in wroles]
                    glike = set(_grad_like(sf, flow))
                    # the name handed as gradient to a sibling score of the same function is a gradient too
                    # (local gradient builders are closures the role inference does not summarise)
                    for c2 in ast.walk(f.node):
                        if isinstance(c2, ast.Call) and isinstance(c2.func, ast.Attribute) \
                                and c2.func.attr == "subdiff_distance" and len(c2.args) >= 2 \
                                and isinstance(c2.args[1], ast.Name):
                            glike.add(c2.args[1].id)
                    gs_ = [x for x in names if x in glike]
                    if ws_ and gs_ and "prox" in ast.unparse(a.value):
                        score = (ws_[0], gs_[0], a.value)
                if score is None:
                    continue
                wname, gname, site = score
                # the iterate may be the caller's start array under another name (`w = zeros if w_init is None
                # else w_init`): a gradient initialised from that name is a gradient at the iterate
                same = {wname}
                for st in ast.walk(f.node):
                    if isinstance(st, ast.Assign) and len(st.targets) == 1 and isinstance(st.targets[0], ast.Name) \
                            and st.targets[0].id == wname:
                        v = st.value
                        for br in ([v.body, v.orelse] if isinstance(v, ast.IfExp) else [v]):
                            if isinstance(br, ast.Name):
                                same.add(br.id)
                for gd in sorted(x for x in rd.get(d, {}).get(gname, ()) if x >= 0):
                    ga = cfg.nodes[gd].ast
                    if not isinstance(ga, ast.Assign):
                        continue
                    pts = set()
                    for x in ast.walk(ga.value):
                        if isinstance(x, ast.BinOp) and isinstance(x.op, ast.MatMult):
                            r_ = x.right
                            while isinstance(r_, ast.Subscript):
                                r_ = r_.value
                            if isinstance(r_, ast.Name):
                                pts.add(r_.id)
                        if isinstance(x, ast.Call):
                            for arg in x.args:
                                b = arg
                                while isinstance(b, ast.Subscript):
                                    b = b.value
                                if isinstance(b, ast.Name) and (b.id in wroles or b.id == wname):
                                    pts.add(b.id)
                    n += 1
                    bad = None
                    if pts and not (pts & same):
                        bad = (f"`{norm_src(ga)[:70]}` evaluates the gradient at `{'`, `'.join(sorted(pts))}`, the score "
                               f"`{norm_src(site)[:60]}` is taken at `{wname}`")
                    elif wname in pts and set(rd.get(gd, {}).get(wname, ())) != set(rd.get(d, {}).get(wname, ())):
                        bad = (f"`{wname}` is rebound between `{norm_src(ga)[:50]}` and the score `{norm_src(site)[:50]}`")
                    ctx.ob(rule, f"{f.fq}::{norm_src(ga)[:60]}", bad is None,
                           what=f"{sf.f.qualname}: {bad}: the stopping value returned on a tolerance exit is not the "
                                "optimality violation of the returned coefficients (it can be below the tolerance "
                                "while the true violation is not)", loc=loc(f, ga))
    ctx.floor(rule, n, scope.get("floor", 5))
