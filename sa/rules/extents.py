"""Extent / index-kind rules: R-IDX, R-SLOTEXT, R-SLICE, R-BOUNDS."""
import ast

from ..model import norm_src, names_in, attr_chain, AnalysisError
from ..cfg import cfg_of
from ..kinds import FuncKinds, method_param_seed, ROLE_DOMS
from .control import loc

IDX_SCOPE = ("skglm.solvers", "skglm.penalties", "skglm.datafits", "skglm.utils.sparse_ops",
             "skglm.utils.prox_funcs", "skglm.experimental", "skglm.utils.data")


def all_kinds(A):
    out = {}
    for f in A.prog.all_functions():
        if not f.module.name.startswith(IDX_SCOPE):
            continue
        seed = {}
        if f.cls is not None and (f.cls in A.prog.penalties or f.cls in A.prog.datafits):
            seed = method_param_seed(f.name, f.call_params())
        out[f] = FuncKinds(A.flow, f, param_seed=seed)
    return out


def r_idx(A, ctx, scope, rule="R-IDX", select=None):
    ctx.rule(rule, "index-kind agreement: every subscript uses an index whose domain "
             "(samples N, features P, groups G, tasks T, stored entries Z, working-set "
             "positions S, positions in a group SEG) is the domain of that axis; domains come "
             "from provenance roles, the attribute table, slot signatures and loops, the rest "
             "is inferred from use; two different beliefs about one variable or axis are a "
             "contradiction (Numba does no bounds checking: such reads return a neighbour's "
             "value and tests pass)")
    kinds = all_kinds(A)
    n_sub = n_typed = 0
    for f, fk in kinds.items():
        if select and not select(f):
            continue
        for st in ast.walk(f.node):
            if isinstance(st, ast.Subscript):
                n_sub += 1
                nm = fk.array_name(st.value)
                parts = st.slice.elts if isinstance(st.slice, ast.Tuple) else [st.slice]
                if nm and any(fk.dom_of_axis(nm, k) and not isinstance(p, (ast.Slice, ast.Constant)) and fk.kind_of(p)
                              for k, p in enumerate(parts)):
                    n_typed += 1
        for c in fk.conflicts:
            ctx.ob(rule, f"{f.fq}::{c['key']}", False, what=c["what"] + " - wrong element read",
                   loc=loc(f, c["node"]))
        for kind, name, bl in fk.multi_beliefs():
            doms = sorted({d for d, _, _ in bl})
            if all(d.startswith(("S:", "SEG:")) for d in doms):
                continue
            key = f"{f.fq}::belief::{kind}::{name}"
            if any(v["key"].startswith(f"{rule}|{f.fq}::idx::") and name.split("[")[0] in v["key"] for v in ctx.violations):
                continue
            ctx.ob(rule, key, False,
                   what=f"{f.qualname}: contradictory uses of {kind} `{name}`: "
                        + "; ".join(f"{d} ({why}, line {ln})" for d, why, ln in bl[:4]),
                   loc=loc(f, f.node))
        ctx.ob(rule, f"{f.fq}::analysed", True)
    ctx.extra["subscripts"] = n_sub
    ctx.extra["typed_subscripts"] = n_typed
    ctx.floor(rule + "/typed-subscripts", n_typed, scope.get("floor_typed", 150))
    ctx.floor(rule, len([f for f in kinds if not select or select(f)]), scope.get("floor", 150))


def _return_dom(A, m):
    """axis-0 domain of the array a method returns (through its local beliefs)"""
    fk = FuncKinds(A.flow, m, param_seed=method_param_seed(m.name, m.call_params()))
    doms = set()
    for r in ast.walk(m.node):
        if isinstance(r, ast.Return) and r.value is not None:
            t = fk.type_of(r.value)
            if t and t[0] and t[0][0]:
                doms.add(t[0][0])
    return doms.pop() if len(doms) == 1 else None


def r_slotext(A, ctx, scope, rule="R-SLOTEXT"):
    from .matrix import Validator, Refuse, knob_space
    ctx.rule(rule, "slot extents: the array returned by datafit.get_lipschitz(_sparse) ranges "
             "over the domain (features P / groups G) by which the solver indexes it, for "
             "every datafit that passes the solver's validation (per-group constants indexed by "
             "feature - or the converse - read a neighbour's constant: no error, wrong steps)")
    V = Validator(A)
    kinds = {}
    n = 0
    for sname, sf in sorted(A.facts.items()):
        f = sf.f
        # how does the solver (and the kernels it hands the constants to) index them?
        use = set()
        todo, seen = [(f, None)], set()
        while todo:
            fn, pname = todo.pop()
            if (fn, pname) in seen:
                continue
            seen.add((fn, pname))
            fk = kinds.get(fn) or FuncKinds(A.flow, fn)
            kinds[fn] = fk
            names = [pname] if pname else [nm for nm, r in A.flow.env[fn].items() if "LIP" in r and nm not in fn.params]
            for nm in names:
                for b in fk.axis.get((nm, 0), []):
                    if not b.dom.startswith(("S:", "SEG:")) and b.why != "role LIP":
                        use.add(b.dom)
                for call, callees, kind in A.flow.calls.get(fn, ()):
                    if kind not in ("direct",):
                        continue
                    for c in callees:
                        bnd, _ = A.flow.bind(fn, call, c)
                        for prm, a in bnd.items():
                            if isinstance(a, ast.Name) and a.id == nm:
                                todo.append((c, prm))
        use = {u for u in use if u in ("P", "G")}
        if len(use) != 1:
            continue
        want = use.pop()
        for meth in ("get_lipschitz", "get_lipschitz_sparse"):
            sparse = meth.endswith("_sparse")
            for D in A.prog.datafits:
                m = D.find_method(meth)
                if m is None:
                    continue
                ok_cell = False
                for P in A.prog.penalties:
                    cell = dict(sparse=sparse, knobs={k: v[0] for k, v in knob_space(sf).items()}, datafit=D, penalty=P)
                    try:
                        V.validate(sf.cls, cell)
                        ok_cell = True
                        break
                    except Refuse:
                        continue
                if not ok_cell:
                    continue
                got = _return_dom(A, m)
                if got is None or got not in ("P", "G"):
                    continue
                n += 1
                ctx.ob(rule, f"{sf.f.fq}::{D.name}.{meth}", got == want,
                       what=f"{sname} accepts {D.name} and indexes the result of {meth} by "
                            f"{'feature' if want == 'P' else 'group'}, but {m.cls.name}.{meth} returns one "
                            f"constant per {'feature' if got == 'P' else 'group'}: steps are taken with "
                            "another coordinate's constant (out-of-range reads when the two counts differ)",
                       loc=loc(m, m.node))
    ctx.floor(rule, n, scope.get("floor", 8))


def r_slice(A, ctx, scope, rule="R-SLICE"):
    ctx.rule(rule, "coefficient slicing: `a[:-1]` / `a[-1]` on a coefficient array (drop / read "
             "the intercept slot) only occurs where the intercept flag is known to be set "
             "(dominating `fit_intercept` branch, or a `fit_intercept * a[-1]` product); "
             "elsewhere the last *feature* is dropped or read as an intercept")
    flow = A.flow
    n = 0
    for f in A.prog.all_functions():
        if not f.module.name.startswith(("skglm.solvers", "skglm.experimental", "skglm.estimators")):
            continue
        env = flow.env.get(f, {})
        wn = {nm for nm, r in env.items() if r & {"W", "W0"}}
        if not wn:
            continue
        cfg = None
        fi_names = {nm for nm, r in env.items() if "FI" in r} | {"fit_intercept"}
        for st in ast.walk(f.node):
            if not (isinstance(st, ast.Subscript) and isinstance(st.value, ast.Name) and st.value.id in wn):
                continue
            sl = st.slice
            first = sl.elts[0] if isinstance(sl, ast.Tuple) else sl
            is_drop = isinstance(first, ast.Slice) and first.lower is None and isinstance(first.upper, ast.UnaryOp) \
                and isinstance(first.upper.op, ast.USub) and isinstance(first.upper.operand, ast.Constant)
            is_last = isinstance(first, ast.UnaryOp) and isinstance(first.op, ast.USub) \
                and isinstance(first.operand, ast.Constant) and first.operand.value == 1
            if not (is_drop or is_last):
                continue
            cfg = cfg or cfg_of(f)
            nid = None
            for nd in cfg.stmts():
                root = nd.ast.iter if nd.kind == "for" else nd.ast
                if any(x is st for x in ast.walk(root)):
                    nid = nd.id
                    stmt_root = root
                    break
            guarded = False
            if nid is not None:
                for t, lab, _ in cfg.facts_at(nid):
                    if isinstance(t, ast.expr) and lab == "true" and (
                            names_in(t) & fi_names or "fit_intercept" in ast.unparse(t)):
                        guarded = True
                # multiplicative guard: fit_intercept * w[-1]
                for x in ast.walk(stmt_root):
                    if isinstance(x, ast.BinOp) and isinstance(x.op, ast.Mult) and any(y is st for y in ast.walk(x)) \
                            and ("fit_intercept" in ast.unparse(x.left) or "fit_intercept" in ast.unparse(x.right)):
                        guarded = True
                    if isinstance(x, ast.IfExp) and "fit_intercept" in ast.unparse(x.test) \
                            and any(y is st for y in ast.walk(x.body)):
                        guarded = True
            n += 1
            ctx.ob(rule, f"{f.fq}::{norm_src(st)}::{norm_src(stmt_root)[:50] if nid is not None else ''}", guarded,
                   what=f"`{norm_src(st)}` in {f.qualname} {'drops the last entry of' if is_drop else 'reads the last entry of'} "
                        "the coefficient array without the intercept flag being known: with "
                        "fit_intercept=False that entry is the last feature (out-of-range view / wrong "
                        "coefficient)", loc=loc(f, st))
    ctx.floor(rule, n, scope.get("floor", 8))


def r_bounds(A, ctx, scope, rule="R-BOUNDS"):
    ctx.rule(rule, "offset subscripts stay inside pointer arrays: in `for v in range(B)` every "
             "`A[v + c]` needs |A| >= B + c; B and |A| are compared as (domain, offset) pairs "
             "(n_features, len(A), len(A) - 1, A.shape[0] - 1; pointer arrays indptr / grp_ptr "
             "have one more entry than their domain)")
    n = 0
    flow = A.flow
    for f in A.prog.all_functions():
        if not f.module.name.startswith(IDX_SCOPE):
            continue
        env = flow.env.get(f, {})
        ptr_arrays = {nm for nm, r in env.items() if r & {"CSC_INDPTR", "GRP_PTR"}}
        fk = None

        def size_pair(e, depth=0):
            """(base, offset): size expression = |base array| + offset, or (domain symbol, off)"""
            if isinstance(e, ast.Call) and ast.unparse(e.func) == "len" and e.args and isinstance(e.args[0], ast.Name):
                return ("len:" + e.args[0].id, 0)
            if isinstance(e, ast.Subscript) and isinstance(e.value, ast.Attribute) and e.value.attr == "shape" \
                    and isinstance(e.value.value, ast.Name) and isinstance(e.slice, ast.Constant) and e.slice.value == 0:
                return ("len:" + e.value.value.id, 0)
            if isinstance(e, ast.BinOp) and isinstance(e.op, (ast.Add, ast.Sub)) and isinstance(e.right, ast.Constant) \
                    and isinstance(e.right.value, int):
                b = size_pair(e.left, depth)
                if b:
                    return (b[0], b[1] + (e.right.value if isinstance(e.op, ast.Add) else -e.right.value))
            if isinstance(e, ast.Name) and depth < 3:
                defs = [st.value for st in ast.walk(f.node) if isinstance(st, ast.Assign)
                        and len(st.targets) == 1 and isinstance(st.targets[0], ast.Name) and st.targets[0].id == e.id]
                if len(defs) == 1:
                    return size_pair(defs[0], depth + 1)
                r = env.get(e.id, set())
                if "NF" in r:
                    return ("dom:P", 0)
                if "NG" in r:
                    return ("dom:G", 0)
            return None
        for lp in ast.walk(f.node):
            if not (isinstance(lp, ast.For) and isinstance(lp.iter, ast.Call) and ast.unparse(lp.iter.func) == "range"
                    and len(lp.iter.args) == 1 and isinstance(lp.target, ast.Name)):
                continue
            B = size_pair(lp.iter.args[0])
            if B is None:
                continue
            v = lp.target.id
            for sub in ast.walk(lp):
                if not (isinstance(sub, ast.Subscript) and isinstance(sub.value, ast.Name) and sub.value.id in ptr_arrays):
                    continue
                idx = sub.slice
                c = None
                if isinstance(idx, ast.Name) and idx.id == v:
                    c = 0
                elif isinstance(idx, ast.BinOp) and isinstance(idx.op, ast.Add) and isinstance(idx.left, ast.Name) \
                        and idx.left.id == v and isinstance(idx.right, ast.Constant):
                    c = idx.right.value
                if c is None:
                    continue
                arr = sub.value.id
                # |arr| as a pair
                roles = env.get(arr, set())
                dom = "P" if "CSC_INDPTR" in roles else "G"
                # max index = B - 1 + c must be <= |arr| - 1
                ok = None
                if B[0] == "len:" + arr:
                    ok = B[1] + c <= 0
                elif B[0] == "dom:" + dom:
                    ok = B[1] + c <= 1          # |ptr| = dom + 1
                if ok is None:
                    continue
                n += 1
                ctx.ob(rule, f"{f.fq}::{norm_src(sub)}::range({norm_src(lp.iter.args[0])[:30]})", ok,
                       what=f"`{norm_src(sub)}` inside `for {v} in range({norm_src(lp.iter.args[0])})` runs past "
                            f"the end of `{arr}` (the loop bound is {B[1]:+d} relative to "
                            f"{B[0].split(':')[1]} and the subscript adds {c}): Numba reads memory "
                            "outside the array", loc=loc(f, sub))
    ctx.floor(rule, n, scope.get("floor", 20))


def _dom_class(d):
    if d is None:
        return None
    if d.startswith(("S:", "SEG:")):
        return "position"
    return d


def r_argkind(A, ctx, scope, rule="R-ARGKIND"):
    ctx.rule(rule, "argument extents across calls: when a kernel indexes one of its array parameters "
             "by coordinates (features / groups / samples / tasks) no call site hands over an array "
             "restricted to the working set - beliefs of the callee about its parameter against "
             "the type of the argument expression in the caller")
    kinds = all_kinds(A)
    flow = A.flow
    n = 0
    for f, fk in kinds.items():
        for call, callees, kind in flow.calls.get(f, ()):
            if kind != "direct":
                continue
            for callee in callees:
                gk = kinds.get(callee)
                if gk is None:
                    continue
                bnd, _ = flow.bind(f, call, callee)
                for prm, a in bnd.items():
                    pd = _dom_class(gk.dom_of_axis(prm, 0))
                    if pd is None:
                        continue
                    t = fk.type_of(a)
                    if not t or not t[0] or t[0][0] is None:
                        continue
                    ad = _dom_class(t[0][0])
                    if pd == "position" or gk.elem.get(prm):
                        # a kernel that walks positions may be handed a full array together
                        # with the full working set (position == coordinate); index arrays have
                        # their own position space
                        continue
                    n += 1
                    ctx.ob(rule, f"{f.fq}::{callee.name}({prm}={norm_src(a)[:40]})", ad != "position",
                           what=f"{f.qualname} passes `{norm_src(a)[:50]}` (axis 0 ranges over "
                                f"{'working-set positions' if ad == 'position' else ad}) as `{prm}` of "
                                f"{callee.name}, which indexes it by "
                                f"{'working-set positions' if pd == 'position' else pd}: out-of-range / "
                                "neighbouring entries are read without any error (no bounds checking in "
                                "compiled code)", loc=loc(f, call))
    ctx.floor(rule, n, scope.get("floor", 20))


ELEMENTWISE = {"abs", "sign", "sqrt", "maximum", "minimum", "where", "log", "exp", "square", "power",
               "log1p", "expm1", "clip", "fabs", "multiply", "add", "subtract", "divide", "logical_and",
               "logical_or", "isfinite", "isnan", "dot"}


def _shape_leaves(e):
    """whole arrays an expression combines elementwise: names and `self.attr` reached through
    arithmetic, comparisons and elementwise numpy calls only (a reduction or a subscript ends
    the walk: what it yields no longer has the extent of its operand)"""
    if isinstance(e, ast.Name):
        return {e.id}
    if isinstance(e, ast.Attribute) and isinstance(e.value, ast.Name) and e.value.id == "self":
        return {"self." + e.attr}
    if isinstance(e, ast.BinOp):
        return _shape_leaves(e.left) | _shape_leaves(e.right)
    if isinstance(e, ast.UnaryOp):
        return _shape_leaves(e.operand)
    if isinstance(e, ast.Compare):
        out = _shape_leaves(e.left)
        for c in e.comparators:
            out |= _shape_leaves(c)
        return out
    if isinstance(e, ast.IfExp):
        return _shape_leaves(e.body) | _shape_leaves(e.orelse)
    if isinstance(e, ast.Call) and isinstance(e.func, ast.Attribute) and e.func.attr in ELEMENTWISE \
            and isinstance(e.func.value, ast.Name) and e.func.value.id in ("np", "numpy"):
        out = set()
        for a in e.args:
            out |= _shape_leaves(a)
        return out
    return set()


def demands_attr_extent(A, m, prm):
    """does method `m` need its array parameter `prm` to have exactly the extent of one of its own
    array attributes?  -> (attr, expression text) or None.  Two shapes: the parameter and the
    attribute are combined elementwise as whole arrays, or a loop bounded by the length of the
    parameter subscripts the attribute with the loop variable."""
    if m.cls is None:
        return None
    spec = A.prog.spec_of(m.cls) or []
    arrs = {"self." + nm for nm, ty in spec if "[" in ty}
    if not arrs:
        return None
    # locals that have the extent of an array attribute: `v = self.weights != 0`, or the result of an own
    # method whose returned expression has it (`self.is_penalized(n)` returns `self.weights != 0`)
    def own_method_extent(call):
        if isinstance(call, ast.Call) and isinstance(call.func, ast.Attribute) and isinstance(call.func.value, ast.Name) \
                and call.func.value.id == "self":
            mm = m.cls.find_method(call.func.attr)
            if mm is not None:
                for r in ast.walk(mm.node):
                    if isinstance(r, ast.Return) and r.value is not None and _shape_leaves(r.value) & arrs:
                        return sorted(_shape_leaves(r.value) & arrs)[0]
        return None
    local_ext = {}
    for st in ast.walk(m.node):
        if isinstance(st, ast.Assign) and len(st.targets) == 1 and isinstance(st.targets[0], ast.Name):
            hit = _shape_leaves(st.value) & arrs
            src = sorted(hit)[0] if hit else own_method_extent(st.value)
            if src:
                local_ext[st.targets[0].id] = src
    for node in ast.walk(m.node):
        if isinstance(node, ast.For) and isinstance(node.target, ast.Name) and isinstance(node.iter, ast.Call) \
                and ast.unparse(node.iter.func) == "range" and len(node.iter.args) == 1 \
                and ast.unparse(node.iter.args[0]) in (f"len({prm})", f"{prm}.shape[0]"):
            v = node.target.id
            for sub in ast.walk(node):
                if isinstance(sub, ast.Subscript) and isinstance(sub.value, ast.Name) and sub.value.id in local_ext \
                        and isinstance(sub.slice, ast.Name) and sub.slice.id == v:
                    return local_ext[sub.value.id], f"for {v} in range({ast.unparse(node.iter.args[0])}): {norm_src(sub)}"
    for node in ast.walk(m.node):
        if isinstance(node, (ast.BinOp, ast.Compare)) or (isinstance(node, ast.Call) and _shape_leaves(node)):
            lv = _shape_leaves(node)
            hit = lv & arrs
            if prm in lv and hit:
                return sorted(hit)[0], norm_src(node)[:60]
        if isinstance(node, ast.For) and isinstance(node.target, ast.Name) and isinstance(node.iter, ast.Call) \
                and ast.unparse(node.iter.func) == "range" and len(node.iter.args) == 1:
            b = ast.unparse(node.iter.args[0])
            if b in (f"len({prm})", f"{prm}.shape[0]"):
                v = node.target.id
                for sub in ast.walk(node):
                    if isinstance(sub, ast.Subscript) and ast.unparse(sub.value) in arrs \
                            and isinstance(sub.slice, ast.Name) and sub.slice.id == v:
                        return ast.unparse(sub.value), f"for {v} in range({b}): {norm_src(sub)}"
    return None


def solver_reach(A, sf):
    """functions a solver class can execute: its methods and what they call directly"""
    flow = A.flow
    todo = list(sf.cls.methods.values())
    seen = []
    while todo:
        f = todo.pop()
        if f in seen:
            continue
        seen.append(f)
        for call, callees, kind in flow.calls.get(f, ()):
            if kind in ("direct", "self", "nested"):
                todo += [c for c in callees if c not in seen]
    return seen


def accepted_components(A, V, sf):
    """penalty / datafit classes some cell of the solver's validation lets through"""
    import itertools
    from .matrix import Refuse, knob_space
    ks = knob_space(sf)
    combos = [dict(zip(ks, vals)) for vals in itertools.product(*ks.values())] or [{}]
    okP, okD = [], []
    for P in A.prog.penalties:
        for D in A.prog.datafits:
            done = False
            for kn in combos:
                for sparse in (False, True):
                    try:
                        V.validate(sf.cls, dict(sparse=sparse, knobs=kn, datafit=D, penalty=P))
                    except Refuse:
                        continue
                    if P not in okP:
                        okP.append(P)
                    if D not in okD:
                        okD.append(D)
                    done = True
                    break
                if done:
                    break
    return okP, okD


def r_fullarg(A, ctx, scope, rule="R-FULLARG"):
    from .matrix import Validator, knob_space
    ctx.rule(rule, "whole-array arguments of penalty / datafit methods: when an implementation the solver "
             "accepts combines an array parameter elementwise with one of its own array attributes "
             "(per-feature weights), or loops over the parameter's length while subscripting the attribute, "
             "every call site of that slot in the solver hands over an array of exactly the attribute's "
             "extent - `a[:n_features]`, or the coefficient array of a solver without an intercept slot; "
             "an array restricted to the working set (`w[ws]`) or the coefficient array with its intercept "
             "slot broadcasts against / runs past the attribute")
    V = Validator(A)
    flow = A.flow
    kinds = {}
    n = n_dem = 0
    for sname, sf in sorted(A.facts.items()):
        okP, okD = accepted_components(A, V, sf)
        # does this solver allocate an intercept slot behind the coefficients?
        has_icpt = any(isinstance(c, ast.Call) and ast.unparse(c.func) in ("np.zeros", "np.empty")
                       and c.args and "fit_intercept" in ast.unparse(c.args[0])
                       for m in sf.cls.methods.values() for c in ast.walk(m.node))
        for f in solver_reach(A, sf):
            env = flow.env.get(f, {})
            for call, callees, kind in flow.calls.get(f, ()):
                if not kind.startswith("slot:"):
                    continue
                ok_cls = okP if kind.endswith("PENALTY") else okD
                for callee in callees:
                    if callee.cls not in ok_cls:
                        continue
                    bnd, _ = flow.bind(f, call, callee)
                    for prm, a in bnd.items():
                        n += 1
                        dem = demands_attr_extent(A, callee, prm)
                        if dem is None:
                            continue
                        n_dem += 1
                        fk = kinds.get(f)
                        if fk is None:
                            fk = kinds[f] = FuncKinds(flow, f)
                        verdict = None
                        if isinstance(a, ast.Subscript):
                            first = a.slice.elts[0] if isinstance(a.slice, ast.Tuple) else a.slice
                            if isinstance(first, ast.Slice):
                                verdict = None
                            else:
                                t = fk.type_of(a)
                                if t and t[0] and _dom_class(t[0][0]) == "position":
                                    verdict = "is restricted to the working set"
                        elif isinstance(a, ast.Name) and has_icpt and set(env.get(a.id, ())) & {"W", "W0"} \
                                and dem[0] != "self." + a.id:
                            verdict = ("is the coefficient array with its intercept slot "
                                       "(n_features + fit_intercept entries)")
                        ctx.ob(rule, f"{f.fq}::{callee.cls.name}.{callee.name}({prm}={norm_src(a)[:40]})", verdict is None,
                               what=f"{f.qualname} calls {callee.name}({norm_src(a)[:40]}) and {sname} accepts "
                                    f"{callee.cls.name}, whose {callee.name} needs `{prm}` to have the extent of "
                                    f"`{dem[0]}` (`{dem[1]}`), but the argument {verdict}: the product broadcasts "
                                    "against / the loop runs past the per-feature array (error inside compiled "
                                    "code, or a neighbour's weight without one)", loc=loc(f, call))
    ctx.extra["slot_arguments"] = n
    ctx.floor(rule + "/slot-arguments", n, scope.get("floor_args", 200))
    ctx.floor(rule, n_dem, scope.get("floor", 10))


INDEX_ROLES = {"WS", "CSC_INDPTR", "CSC_INDICES", "GRP_PTR", "GRP_INDICES"}


def r_likedtype(A, ctx, scope, rule="R-LIKEDTYPE"):
    ctx.rule(rule, "element type of `*_like` allocations: `np.zeros_like(a)` (empty_like, ones_like, full_like) "
             "without a dtype takes the element type of `a`; when `a` is an integer index array (working set, "
             "CSC indices / pointers, group indices / pointers) the result only ever receives indices or "
             "integer constants - a score or coefficient stored there is truncated to an integer (and "
             "`np.inf` overflows)")
    flow = A.flow
    n = n_idx = 0
    for f, fk in all_kinds(A).items():
        env = flow.env.get(f, {})
        for st in ast.walk(f.node):
            if not (isinstance(st, ast.Assign) and len(st.targets) == 1 and isinstance(st.targets[0], ast.Name)
                    and isinstance(st.value, ast.Call) and ast.unparse(st.value.func) in
                    ("np.zeros_like", "np.empty_like", "np.ones_like", "np.full_like") and st.value.args):
                continue
            n += 1
            src = st.value.args[0]
            if any(k.arg == "dtype" for k in st.value.keywords) or not isinstance(src, ast.Name):
                continue
            if not (set(env.get(src.id, ())) & INDEX_ROLES or fk.elem.get(src.id)):
                continue
            n_idx += 1
            tgt = st.targets[0].id
            bad = None
            for x in ast.walk(f.node):
                if isinstance(x, (ast.Assign, ast.AugAssign)):
                    t = x.targets[0] if isinstance(x, ast.Assign) else x.target
                    if isinstance(t, ast.Subscript) and isinstance(t.value, ast.Name) and t.value.id == tgt:
                        v = x.value
                        is_int = (isinstance(v, ast.Constant) and isinstance(v.value, int)
                                  and not isinstance(v.value, bool)) or fk.kind_of(v) is not None
                        if not is_int:
                            bad = x
            ctx.ob(rule, f"{f.fq}::{norm_src(st)[:60]}", bad is None,
                   what=(f"{f.qualname}: `{norm_src(st)}` has the integer element type of the index array "
                         f"`{src.id}`, and `{norm_src(bad)[:60]}` stores a real number in it: the value is "
                         "truncated (scores below 1 read as 0: the point is declared optimal) and "
                         "`np.inf` cannot be stored") if bad is not None else "", loc=loc(f, st))
    ctx.extra["like_allocations"] = n
    ctx.floor(rule, n, scope.get("floor", 15))


def r_uninit(A, ctx, scope, rule="R-UNINIT"):
    ctx.rule(rule, "uninitialised allocations are written before they are read: an array created by `np.empty` "
             "(empty_like) that is filled element by element inside a `for` loop over its own positions receives "
             "a store on every path through an iteration - no `continue` or untaken branch reaches the next "
             "iteration without one; otherwise the skipped entries are whatever the allocator left there "
             "(a result that depends on memory outside the arrays passed in)")
    n = n_alloc = 0
    for f in A.prog.all_functions():
        if not f.module.name.startswith(IDX_SCOPE + ("skglm.estimators",)):
            continue
        allocs = [st for st in ast.walk(f.node) if isinstance(st, ast.Assign) and len(st.targets) == 1
                  and isinstance(st.targets[0], ast.Name) and isinstance(st.value, ast.Call)
                  and ast.unparse(st.value.func) in ("np.empty", "np.empty_like")]
        if not allocs:
            continue
        cfg = cfg_of(f)
        for a in allocs:
            n_alloc += 1
            v = a.targets[0].id
            for lp in ast.walk(f.node):
                if not isinstance(lp, ast.For) or lp.lineno < a.lineno:
                    continue
                # loop variables (enumerate / range / zip unpacking)
                lvars = {x.id for x in ast.walk(lp.target) if isinstance(x, ast.Name)}
                stores = []
                for nd in cfg.stmts():
                    st = nd.ast
                    if nd.kind != "stmt" or not isinstance(st, (ast.Assign, ast.AugAssign)):
                        continue
                    if not (lp.lineno <= getattr(st, "lineno", 0) <= lp.end_lineno):
                        continue
                    for t in (st.targets if isinstance(st, ast.Assign) else [st.target]):
                        if isinstance(t, ast.Subscript) and isinstance(t.value, ast.Name) and t.value.id == v:
                            first = t.slice.elts[0] if isinstance(t.slice, ast.Tuple) else t.slice
                            if isinstance(first, ast.Name) and first.id in lvars:
                                stores.append(nd.id)
                if not stores:
                    continue
                header = cfg.node_of(lp)
                if header is None:
                    continue
                n += 1
                # from the iteration edge back to the header without passing a store?
                starts = [x for x in cfg.succ[header] if cfg.nodes[x].kind == "edge" and cfg.nodes[x].label == "iter"]
                seen, todo, leak = set(), list(starts), False
                while todo:
                    x = todo.pop()
                    if x in seen or x in stores:
                        continue
                    seen.add(x)
                    for y in cfg.succ[x]:
                        if y == header:
                            leak = True
                        else:
                            todo.append(y)
                skip = [cfg.nodes[x].ast for x in seen if isinstance(cfg.nodes[x].ast, ast.Continue)]
                ctx.ob(rule, f"{f.fq}::{v}::for {norm_src(lp.target)}", not leak,
                       what=f"{f.qualname}: `{norm_src(a)}` is not initialised, and an iteration of `for {norm_src(lp.target)} "
                            f"in {norm_src(lp.iter)[:30]}` can end without storing `{v}[{'/'.join(sorted(lvars))}]`"
                            + (f" (`continue` at line {skip[0].lineno})" if skip else "")
                            + ": that entry is read later with whatever the allocator left in it",
                       loc=loc(f, a))
    ctx.extra["empty_allocations"] = n_alloc
    ctx.floor(rule, n_alloc, scope.get("floor", 6))
