"""R-HIST (objective history discipline), R-NITER, R-UNBOUND."""
import ast

from ..model import norm_src, names_in, attr_chain, AnalysisError
from ..cfg import cfg_of
from .. import knobs
from .control import loc, _slot_call


def _mutation_nodes(sf, flow):
    cfg, f = sf.cfg, sf.f
    out = {}
    for nd in cfg.stmts():
        if nd.kind == "for":
            continue
        m = flow.stmt_mutates(f, nd.ast)
        if isinstance(nd.ast, ast.Assign):
            m -= {t.id for t in nd.ast.targets if isinstance(t, ast.Name)}
        if m:
            out[nd.id] = m
    return out


def r_hist(A, ctx, scope, rule="R-HIST"):
    ctx.rule(rule, "history discipline: (a) the second returned value gets exactly one "
             "entry per completed budget-loop iteration (list append on every path to "
             "the latch, or a slice of a preallocated array); (b) the entry is the "
             "objective of the current (w, Xw): bound on every path and computed after "
             "the last mutation of the iteration; (c) inside it penalty.value receives "
             "the coefficients without the intercept whenever an intercept may be fitted")
    n = 0
    flow = A.flow
    for name, sf in sorted(A.facts.items()):
        if name in scope.get("exempt", ()) or sf.loop is None:
            continue
        f, cfg = sf.f, sf.cfg
        H = sf.HIST
        if H is None:
            raise AnalysisError(f"{f.fq}: cannot identify the history variable")
        # definitions of H outside the loop
        hdefs = [nd for nd in cfg.stmts() if nd.kind == "stmt" and isinstance(nd.ast, ast.Assign)
                 and any(isinstance(t, ast.Name) and t.id == H for t in nd.ast.targets)]
        if not hdefs:
            raise AnalysisError(f"{f.fq}: history variable `{H}` never defined")
        init = hdefs[0].ast.value
        entries = []   # (node id, value expr) where one entry is recorded
        is_list = isinstance(init, ast.List) and not init.elts
        # (a)
        n += 1
        if is_list:
            for nd in cfg.stmts():
                a = nd.ast
                if nd.kind == "stmt" and isinstance(a, ast.Expr) and isinstance(a.value, ast.Call) \
                        and isinstance(a.value.func, ast.Attribute) and a.value.func.attr == "append" \
                        and isinstance(a.value.func.value, ast.Name) and a.value.func.value.id == H:
                    entries.append((nd.id, a.value.args[0]))
            hdr = sf.loop_header
            app = [e for e, _ in entries]
            inner = [e for e in app if not sf.in_budget_loop_directly(e)]
            # at least once on every completed iteration: no path iter-edge -> header avoiding appends
            skip = cfg.paths_exist(sf.loop_iter_edge, hdr, avoiding=app) if app else True
            # at most once: no append reaches an append again without passing the header
            twice = any(cfg.paths_exist(e, e2, avoiding=[hdr]) for e in app for e2 in app)
            # an iteration that changed the iterate and then leaves the loop (tolerance
            # exit) must have recorded its objective before leaving
            worked = False
            mutw = set(_mutation_nodes(sf, flow))
            state_ = {x for x in (sf.W, sf.XW) if x}
            mutw = {m for m in mutw if _mutation_nodes(sf, flow)[m] & state_}
            for nd in cfg.stmts():
                if nd.kind == "stmt" and isinstance(nd.ast, ast.Assign) and sf.loop_header in nd.loops \
                        and any(isinstance(t, ast.Name) and t.id == sf.W for t in nd.ast.targets):
                    mutw.add(nd.id)
            mutw = {m for m in mutw if sf.loop_header in cfg.nodes[m].loops}
            exits = [nd.id for nd in cfg.stmts() if isinstance(nd.ast, (ast.Break, ast.Return))
                     and sf.in_budget_loop_directly(nd.id)]
            for m in mutw:
                for ex in exits:
                    if cfg.paths_exist(sf.loop_iter_edge, m, avoiding=app + [hdr]) and \
                            cfg.paths_exist(m, ex, avoiding=app + [hdr]):
                        worked = True
            ok = bool(app) and not inner and not skip and not twice and not worked
            why = ("no append" if not app else "append inside an inner loop" if inner else
                   "an iteration can complete without recording its objective" if skip else
                   "an iteration can record two entries" if twice else
                   "an iteration that updated the iterate can leave the loop (tolerance exit) "
                   "before its objective is recorded: the history is one entry short and its "
                   "last entry is not the objective of the returned point")
            ctx.ob(rule, f"{f.fq}::count::{H}", ok,
                   what=f"objective history `{H}`: {why}", loc=loc(f, hdefs[0].ast))
        else:
            # preallocated array
            stores = []
            for nd in cfg.stmts():
                a = nd.ast
                if nd.kind == "stmt" and isinstance(a, ast.Assign) and isinstance(a.targets[0], ast.Subscript) \
                        and isinstance(a.targets[0].value, ast.Name) and a.targets[0].value.id == H:
                    stores.append(nd)
                    entries.append((nd.id, a.value))
            sliced = isinstance(sf.ret_hist, ast.Subscript) or (
                isinstance(sf.ret_hist, ast.Call) and any(isinstance(x, ast.Subscript) for x in sf.ret_hist.args))
            ctx.ob(rule, f"{f.fq}::count::{H}", bool(stores) and sliced,
                   what=f"objective history `{H}` is preallocated as `{norm_src(init)}` and "
                        "returned unsliced: its length is the budget, not the number of "
                        "iterations performed (n_iter_ = max_iter, trailing zeros)",
                   loc=loc(f, hdefs[0].ast))
            # a slice bounded by the loop variable itself is one short when the budget is
            # exhausted (the variable stops at the last index) - or one long when the loop is left
            # before the store; the bound has to be a count of the stores
            if stores and sliced and sf.loop is not None and isinstance(sf.loop.target, ast.Name):
                sl = sf.ret_hist if isinstance(sf.ret_hist, ast.Subscript) else next(
                    x for x in sf.ret_hist.args if isinstance(x, ast.Subscript))
                up = sl.slice.upper if isinstance(sl.slice, ast.Slice) else None
                n += 1
                ctx.ob(rule, f"{f.fq}::slice-bound::{H}", not (isinstance(up, ast.Name) and up.id == sf.loop.target.id),
                       what=f"history `{norm_src(sl)}` is cut at the loop variable `{sf.loop.target.id}`: after a "
                            "run that uses its whole budget the variable is the last index, the entry of the last "
                            "iteration is dropped (max_iter=1 returns an empty history)", loc=loc(f, sl))
        # (b') after an entry is recorded the iterate is not replaced in the same iteration
        # (a rejected / restarted candidate whose objective stays in the history)
        if sf.loop is not None and sf.W:
            for eid, val in entries:
                for nd in cfg.stmts():
                    a = nd.ast
                    if nd.kind != "stmt" or not isinstance(a, ast.Assign) or not nd.loops:
                        continue
                    tg = a.targets[0]
                    names = [x.id for x in (tg.elts if isinstance(tg, ast.Tuple) else [tg]) if isinstance(x, ast.Name)]
                    if sf.W in names and cfg.dominated_by(nd.id, eid) and nd.id != eid \
                            and cfg.nodes[eid].loops and nd.loops[-1] == cfg.nodes[eid].loops[-1]:
                        n += 1
                        ctx.ob(rule, f"{f.fq}::replaced-after-entry::{norm_src(a)[:60]}", False,
                               what=f"`{norm_src(a)[:70]}` replaces the iterate after its objective was recorded in "
                                    "the same iteration: the history keeps the objective of a point that is "
                                    "discarded (last entry != objective of the returned point when the budget "
                                    "ends there)", loc=loc(f, a))
        # (b) + (c)
        mut = _mutation_nodes(sf, flow)
        state = {x for x in (sf.W, sf.XW) if x}
        rd = cfg.reaching_defs()
        for eid, val in entries:
            if isinstance(val, ast.Name):
                defs = rd.get(eid, {}).get(val.id, set())
                n += 1
                if -1 in defs:
                    ctx.ob(rule, f"{f.fq}::bound::{val.id}", False,
                           what=f"`{val.id}` recorded in the history may be unbound "
                                "(UnboundLocalError) or stale: it is only assigned on "
                                "some paths of the iteration",
                           loc=loc(f, cfg.nodes[eid].ast))
                else:
                    ctx.ob(rule, f"{f.fq}::bound::{val.id}", True)
                exprs = []
                for d in sorted(x for x in defs if x >= 0):
                    a = cfg.nodes[d].ast
                    if isinstance(a, ast.Assign):
                        exprs.append((d, a.value, a))
                        # freshness
                        n += 1
                        alld = {x.id for x in cfg.nodes if val.id in cfg.defs_of(x.id)}
                        bad = None
                        for m, names in mut.items():
                            if m == d or not (names & state):
                                continue
                            if cfg.consistent_path(d, m, avoiding=alld - {d}) and \
                                    cfg.consistent_path(m, eid, avoiding=alld, seed_from=d):
                                bad = m
                                break
                        if bad is not None:
                            ma = cfg.nodes[bad].ast
                            ctx.ob(rule, f"{f.fq}::stale::{norm_src(a)[:70]}::{norm_src(ma)[:60]}", False,
                                   what=f"history entry `{val.id}` computed at line {a.lineno} "
                                        f"is recorded after `{norm_src(ma)[:60]}` (line "
                                        f"{ma.lineno}) changed the iterate",
                                   loc=loc(f, ma))
                        else:
                            ctx.ob(rule, f"{f.fq}::fresh::{norm_src(a)[:90]}", True)
            else:
                exprs = [(eid, val, cfg.nodes[eid].ast)]
            for d, e, a in exprs:
                # objective shape: datafit value + penalty value
                calls = [c for c in ast.walk(e) if isinstance(c, ast.Call)]
                pv = [c for c in calls if _slot_call(flow, f, c, "PENALTY", {"value"})]
                dv = [c for c in calls if _slot_call(flow, f, c, "DATAFIT", {"value"})]
                gram = not dv and any(isinstance(x, ast.BinOp) and isinstance(x.op, ast.MatMult)
                                      for x in ast.walk(e))
                n += 1
                ctx.ob(rule, f"{f.fq}::objective::{norm_src(a)[:90]}", bool(pv) and (bool(dv) or gram),
                       what="history entry is not datafit value + penalty value",
                       loc=loc(f, a))
                if sf.sizes_with_fi:
                    for c in pv:
                        n += 1
                        arg = c.args[0] if c.args else None
                        ok = False
                        if isinstance(arg, ast.Subscript) and isinstance(arg.slice, ast.Slice) \
                                and arg.slice.upper is not None and arg.slice.lower is None:
                            ok = "NF" in flow.roles(f, arg.slice.upper) and \
                                "PLUS_FI" not in flow.roles(f, arg.slice.upper)
                        ctx.ob(rule, f"{f.fq}::pen-arg::{norm_src(a)[:90]}", ok,
                               what=f"history objective evaluates `{norm_src(c)}` on the "
                                    "whole coefficient array: with fit_intercept=True the "
                                    "last entry is the intercept, which is then penalised "
                                    "(or indexes per-feature weights out of range)",
                               loc=loc(f, a))
    ctx.floor(rule, n, scope.get("floor", 1))


def r_niter(A, ctx, scope, rule="R-NITER"):
    ctx.rule(rule, "n_iter_ is the length of the history returned by the solver (or the "
             "max over one-vs-rest sub-estimators)")
    n = 0
    m = A.prog.modules.get("skglm.estimators")
    if m is None:
        raise AnalysisError("skglm.estimators missing")
    targets = []
    if "_glm_fit" in m.functions:
        targets.append(m.functions["_glm_fit"])
    for c in m.classes.values():
        if "fit" in c.methods:
            targets.append(c.methods["fit"])
    for f in targets:
        # solver.solve(...) unpacked
        hist = None
        for st in ast.walk(f.node):
            if isinstance(st, ast.Assign) and isinstance(st.value, ast.Call) \
                    and isinstance(st.value.func, ast.Attribute) and st.value.func.attr == "solve" \
                    and isinstance(st.targets[0], ast.Tuple) and len(st.targets[0].elts) == 3:
                h = st.targets[0].elts[1]
                hist = h.id if isinstance(h, ast.Name) else None
        for st in ast.walk(f.node):
            if isinstance(st, ast.Assign) and isinstance(st.targets[0], ast.Attribute) \
                    and st.targets[0].attr == "n_iter_":
                n += 1
                v = st.value
                ok = False
                if isinstance(v, ast.Call) and ast.unparse(v.func) == "len" and v.args \
                        and isinstance(v.args[0], ast.Name) and v.args[0].id == hist and hist != "_":
                    ok = True
                if isinstance(v, ast.Call) and ast.unparse(v.func) == "max" and "n_iter_" in ast.unparse(v):
                    ok = True
                ctx.ob(rule, f"{f.fq}::{norm_src(st)[:80]}", ok,
                       what="n_iter_ is not len(<history returned by solver.solve>)",
                       loc=loc(f, st))
    ctx.floor(rule, n, scope.get("floor", 3))


def r_unbound(A, ctx, scope, rule="R-UNBOUND", funcs=None):
    """Possibly-unbound locals reaching a use, in solver `_solve` bodies (and kernels).
    Knob-consistent: a variable assigned under `if K:` and used under `if K:` is bound."""
    ctx.rule(rule, "no local variable can be unbound at a use on a knob-consistent path "
             "(reaching definitions with the 'unbound' pseudo-definition; paths on which "
             "a stable test changes outcome are discarded)")
    n = 0
    flow = A.flow
    todo = funcs
    if todo is None:
        todo = []
        for name, sf in sorted(A.facts.items()):
            if name in scope.get("exempt", ()):
                continue
            todo.append(sf.f)
            for call, callees, kind in flow.calls.get(sf.f, ()):
                for c in callees:
                    if kind == "direct" and c.njit and c not in todo:
                        todo.append(c)
    for f in todo:
        cfg = cfg_of(f)
        rd = cfg.reaching_defs()
        import builtins
        glob = set(f.module.functions) | set(f.module.classes) | set(f.module.imports) \
            | set(f.module.consts) | set(dir(builtins))
        nested_params = set()
        for st in ast.walk(f.node):
            if isinstance(st, (ast.FunctionDef, ast.Lambda)) and st is not f.node:
                a = st.args
                nested_params |= {x.arg for x in a.args + a.kwonlyargs}
            if isinstance(st, (ast.ListComp, ast.GeneratorExp, ast.SetComp, ast.DictComp)):
                for g in st.generators:
                    nested_params |= names_in(g.target)
        alldefs = {}
        for nd in cfg.nodes:
            for v in cfg.defs_of(nd.id):
                alldefs.setdefault(v, set()).add(nd.id)
        init = knobs.param_constraints(A, f)
        consts = knobs.module_int_consts(f)
        done = {}
        for nd in cfg.stmts():
            if isinstance(nd.ast, (ast.FunctionDef, ast.ClassDef)):
                continue
            for v in sorted(cfg.uses_of(nd.id)):
                if v in glob and v not in alldefs or v in nested_params and v not in alldefs:
                    continue
                if v not in alldefs:
                    continue
                ds = rd.get(nd.id, {}).get(v, set())
                if -1 not in ds:
                    continue
                n += 1
                # is the unbound path knob-consistent?  search entry -> use avoiding all defs
                feasible = cfg.consistent_path(cfg.entry, nd.id, avoiding=alldefs[v],
                                               seed_from=nd.id, init=init, consts=consts)
                key = f"{f.fq}::{v}"
                if (key, feasible) in done:
                    continue
                done[(key, feasible)] = True
                if feasible:
                    ctx.ob(rule, key, False,
                           what=f"`{v}` may be unbound here (no assignment on some path "
                                "from function entry): UnboundLocalError / Numba typing "
                                "error at run time", loc=loc(f, nd.ast))
                else:
                    ctx.ob(rule, key, True, detail="unbound only on knob-inconsistent paths")
        n += 1
        ctx.ob(rule, f"{f.fq}::analysed", True)
    ctx.floor(rule, n, scope.get("floor", 1))
