"""Obligation bookkeeping, known-findings matching, evidence and exit codes."""
import hashlib
import json
import os
import time

from .model import AnalysisError

VERIF = os.path.dirname(os.path.dirname(os.path.abspath(__file__)))
EVID = os.environ.get("SKGLM_SA_EVID") or os.path.join(VERIF, "evidence")
REPLAY = os.path.join(EVID, "replay")
KNOWN = os.path.join(VERIF, "known_findings.json")


def load_known():
    if not os.path.exists(KNOWN):
        return []
    with open(KNOWN) as f:
        return json.load(f).get("findings", [])


class Ctx:
    def __init__(self, pid, tier, seed=0):
        self.pid = pid
        self.tier = tier
        self.seed = seed
        self.t0 = time.time()
        self.obligations = []     # dict(rule, construct, verdict, detail)
        self.violations = []      # dict(rule, construct, key, what, replay)
        self.notes = []
        self.floors = []          # (rule, count, minimum)
        self.rules = {}           # rule -> description
        self.assumptions = []
        self.undecided = []
        self.extra = {}

    # ------------------------------------------------------------------ API
    def rule(self, name, desc):
        self.rules[name] = desc

    def assume(self, text):
        if text not in self.assumptions:
            self.assumptions.append(text)

    def ob(self, rule, construct, ok, detail="", what=None, loc=None, data=None):
        """Record one obligation. ok: True (discharged), False (violated),
        None (undecided -> analysis regression)."""
        if ok is None and "identically zero on this region" in (detail or ""):
            # the lifter met `x / 0` with a divisor that is zero for every input of the region the
            # rule evaluates (legitimate inputs by construction): compiled code raises
            # ZeroDivisionError there, array code yields inf / NaN - a verdict, not a gap
            ok = False
            what = (f"{detail}: on this legitimate input the code divides by a quantity that is exactly "
                    "zero (ZeroDivisionError in compiled code, inf / NaN in array code)")
        verdict = "ok" if ok is True else ("VIOLATED" if ok is False else "UNDECIDED")
        rec = dict(rule=rule, construct=construct, verdict=verdict)
        if detail:
            rec["detail"] = detail
        if loc:
            rec["loc"] = loc
        self.obligations.append(rec)
        if ok is False:
            self.violations.append(dict(
                rule=rule, construct=construct, key=f"{rule}|{construct}",
                what=what or detail or "violated", loc=loc, data=data))
        elif ok is None:
            self.undecided.append(rec)
        return ok

    def note(self, text):
        self.notes.append(text)

    def floor(self, rule, count, minimum):
        self.floors.append((rule, count, minimum))

    # ------------------------------------------------------------- finishing
    def finish(self, prog=None, explanation="", trusted_base=(), exhaustive=True,
               checker_cmd=None, sample_n=12):
        known = [k for k in load_known() if k.get("property") == self.pid]
        known_keys = {k["key"]: k for k in known if k.get("status") == "known"}
        lines = []
        new = []
        seen_known = set()
        seen = set()
        for v in self.violations:
            if v["key"] in seen:
                continue
            seen.add(v["key"])
            if v["key"] in known_keys:
                seen_known.add(v["key"])
                lines.append(f"KNOWN-FINDING: property={self.pid} {v['key']} :: "
                             f"{known_keys[v['key']].get('what', v['what'])}")
            else:
                new.append(v)
        stale = [k for k in known_keys if k not in seen_known]
        floor_fail = [(r, c, m) for r, c, m in self.floors if c < m]
        # evidence
        n_ob = len(self.obligations)
        n_ok = sum(1 for o in self.obligations if o["verdict"] == "ok")
        distinct = len({(o["rule"], o["construct"]) for o in self.obligations})
        samples = []
        per_rule = {}
        for o in self.obligations:
            per_rule.setdefault(o["rule"], []).append(o)
        for r, obs in sorted(per_rule.items()):
            k = max(1, sample_n // max(1, len(per_rule)))
            bad = [o for o in obs if o["verdict"] != "ok"]
            samples.extend(bad[:k])
            samples.extend([o for o in obs if o["verdict"] == "ok"][:k])
        os.makedirs(REPLAY, exist_ok=True)
        for v in new:
            h = hashlib.sha1(v["key"].encode()).hexdigest()[:10]
            path = os.path.join(REPLAY, f"{self.pid}-{h}.json")
            with open(path, "w") as f:
                json.dump(dict(property=self.pid, **{k: v[k] for k in
                                                     ("rule", "construct", "key", "what", "loc", "data")}),
                          f, indent=1, default=str)
            v["replay"] = path
        cov = dict(
            explanation=explanation or "static rules over the source of /repo/skglm",
            obligations=n_ob, discharged=n_ok,
            evaluations=max(n_ob, 1), distinct_nontrivial=distinct,
            rule="one obligation per (rule, construct) instance enumerated from the "
                 "working tree; non-trivial = the rule's pattern matched a construct "
                 "(vacuous matches are not counted)",
            samples=samples[:40] or [dict(note="no obligations")],
            per_rule={r: dict(instances=len(obs),
                              ok=sum(1 for o in obs if o["verdict"] == "ok"),
                              violated=sum(1 for o in obs if o["verdict"] == "VIOLATED"),
                              undecided=sum(1 for o in obs if o["verdict"] == "UNDECIDED"))
                      for r, obs in sorted(per_rule.items())},
            rules=self.rules,
            floors=[dict(rule=r, count=c, minimum=m) for r, c, m in self.floors],
            checker_cmd=checker_cmd or f"/venv/bin/python sa/cli.py check {self.pid} --tier {self.tier}",
            trusted_base=list(trusted_base) or ["CPython ast module", "rule tables in /verif/sa/rules"],
            exhaustive=bool(exhaustive),
            known_findings=sorted(seen_known),
            new_violations=[v["key"] for v in new],
            notes=self.notes,
        )
        cov.update(self.extra)
        if prog is not None:
            cov["units"] = len(prog.modules)
            cov["tree_digest"] = prog.digest()
            cov["registry"] = prog.counts
        ev = dict(property_id=self.pid, tier=self.tier, seed=int(self.seed),
                  level="other", coverage=cov, assumptions=self.assumptions,
                  wall_s=round(time.time() - self.t0, 3),
                  violations=len(new))
        os.makedirs(EVID, exist_ok=True)
        with open(os.path.join(EVID, f"{self.pid}.json"), "w") as f:
            json.dump(ev, f, indent=1, default=str)
        # output
        print(f"[{self.pid}] tier={self.tier} obligations={n_ob} discharged={n_ok} "
              f"distinct={distinct} rules={len(per_rule)}")
        for r, obs in sorted(per_rule.items()):
            print(f"  rule {r}: {len(obs)} instances, "
                  f"{sum(1 for o in obs if o['verdict'] == 'ok')} ok")
        for n in self.notes:
            print(f"  note: {n}")
        for ln in lines:
            print(ln)
        for k in stale:
            print(f"  note: known finding not reproduced on this tree (repaired or "
                  f"moved): {k}")
        if floor_fail or self.undecided:
            for r, c, m in floor_fail:
                print(f"ANALYSIS-ERROR property={self.pid} rule {r} matched {c} "
                      f"instances, below the confirmed floor {m}")
            for u in self.undecided:
                print(f"ANALYSIS-ERROR property={self.pid} undecided obligation "
                      f"{u['rule']}|{u['construct']}: {u.get('detail', '')}")
        for v in new:
            loc = f" at {v['loc']}" if v.get("loc") else ""
            print(f"  violation {v['key']}{loc}: {v['what']}")
            print(f"VIOLATION property={self.pid} replay={v['replay']}")
        if new:
            return 1
        if floor_fail or self.undecided:
            return 2
        print(f"[{self.pid}] OK")
        return 0
