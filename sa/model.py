"""L0 - program model of /repo/skglm, built from source text only (ast).

Nothing here imports or executes skglm.  Registries (datafits, penalties, solvers,
estimators) are derived on every run from the class hierarchy found in the working
tree; floors (minimum sizes confirmed by hand on the reference tree) make a vanished
anchor an ANALYSIS-ERROR instead of a silent pass.
"""
import ast
import hashlib
import os

REPO = os.environ.get("SKGLM_SA_REPO", "/repo")
PKG = "skglm"


class AnalysisError(Exception):
    """Internal/anchor problem: exit 2, never a VIOLATION."""


def norm_src(node):
    """Normalised statement text (key for findings: no line numbers)."""
    try:
        s = ast.unparse(node)
    except Exception:  # pragma: no cover
        s = ast.dump(node)
    return " ".join(s.split())


class FuncInfo:
    def __init__(self, module, node, cls=None, outer=None):
        self.module = module
        self.node = node
        self.cls = cls
        self.outer = outer
        self.name = node.name
        a = node.args
        self.params = [x.arg for x in a.posonlyargs + a.args]
        self.kwonly = [x.arg for x in a.kwonlyargs]
        nd = len(a.defaults)
        self.defaults = {}
        for p, d in zip(self.params[len(self.params) - nd:], a.defaults):
            self.defaults[p] = d
        for p, d in zip(self.kwonly, a.kw_defaults):
            if d is not None:
                self.defaults[p] = d
        self.njit = False
        self.njit_opts = {}
        self.staticmethod = False
        for dec in node.decorator_list:
            d = dec.func if isinstance(dec, ast.Call) else dec
            dn = ast.unparse(d)
            if dn in ("njit", "numba.njit", "jit", "numba.jit"):
                self.njit = True
                if isinstance(dec, ast.Call):
                    for kw in dec.keywords:
                        self.njit_opts[kw.arg] = ast.unparse(kw.value)
            if dn == "staticmethod":
                self.staticmethod = True

    @property
    def qualname(self):
        if self.cls is not None:
            return f"{self.cls.name}.{self.name}"
        if self.outer is not None:
            return f"{self.outer.qualname}.<locals>.{self.name}"
        return self.name

    @property
    def fq(self):
        return f"{self.module.relpath}::{self.qualname}"

    @property
    def is_method(self):
        return self.cls is not None and not self.staticmethod

    def call_params(self):
        """Parameters as seen by a caller (self dropped for methods)."""
        return self.params[1:] if self.is_method else list(self.params)

    def __repr__(self):
        return f"<Func {self.fq}>"


class ClassInfo:
    def __init__(self, module, node):
        self.module = module
        self.node = node
        self.name = node.name
        self.base_exprs = [ast.unparse(b) for b in node.bases]
        self.bases = []          # resolved ClassInfo (repo classes only)
        self.ext_bases = []      # names of external bases
        self.methods = {}
        self.class_attrs = {}
        for st in node.body:
            if isinstance(st, ast.FunctionDef):
                self.methods[st.name] = FuncInfo(module, st, cls=self)
            elif isinstance(st, ast.Assign):
                for t in st.targets:
                    if isinstance(t, ast.Name):
                        self.class_attrs[t.id] = st.value
            elif isinstance(st, ast.AnnAssign) and isinstance(st.target, ast.Name):
                if st.value is not None:
                    self.class_attrs[st.target.id] = st.value

    @property
    def fq(self):
        return f"{self.module.relpath}::{self.name}"

    def mro(self):
        out, seen = [], set()

        def rec(c):
            if c.fq in seen:
                return
            seen.add(c.fq)
            out.append(c)
            for b in c.bases:
                rec(b)
        rec(self)
        return out

    def find_method(self, name):
        for c in self.mro():
            if name in c.methods:
                return c.methods[name]
        return None

    def all_methods(self):
        out = {}
        for c in reversed(self.mro()):
            out.update(c.methods)
        return out

    def find_class_attr(self, name):
        for c in self.mro():
            if name in c.class_attrs:
                return c.class_attrs[name]
        return None

    def is_subclass_of(self, other):
        return any(c is other for c in self.mro())

    def __repr__(self):
        return f"<Class {self.fq}>"


class _CanonCompare(ast.NodeTransformer):
    """orientation of comparisons with a literal: the literal goes to the right
    (`0 > crit` is analysed as `crit < 0`, `'subdiff' == self.ws_strategy` as
    `self.ws_strategy == 'subdiff'`), so that no rule depends on how a test is spelled"""
    FLIP = {ast.Lt: ast.Gt, ast.Gt: ast.Lt, ast.LtE: ast.GtE, ast.GtE: ast.LtE, ast.Eq: ast.Eq,
            ast.NotEq: ast.NotEq}

    @staticmethod
    def _lit(n):
        if isinstance(n, ast.UnaryOp) and isinstance(n.op, (ast.USub, ast.UAdd)):
            n = n.operand
        return isinstance(n, ast.Constant)

    def visit_Compare(self, node):
        self.generic_visit(node)
        if len(node.ops) == 1 and type(node.ops[0]) in self.FLIP and self._lit(node.left) \
                and not self._lit(node.comparators[0]):
            new = ast.Compare(node.comparators[0], [self.FLIP[type(node.ops[0])]()], [node.left])
            return ast.copy_location(new, node)
        return node


class _CanonAdd(ast.NodeTransformer):
    """numeric literal of a sum to the right: `1 + j` is analysed as `j + 1` (index arithmetic
    is recognised in one spelling only)"""

    def visit_BinOp(self, node):
        self.generic_visit(node)
        if isinstance(node.op, ast.Add) and isinstance(node.left, ast.Constant) \
                and isinstance(node.left.value, (int, float)) and not isinstance(node.left.value, bool) \
                and not isinstance(node.right, ast.Constant):
            return ast.copy_location(ast.BinOp(node.right, ast.Add(), node.left), node)
        return node


class _CanonIfAssign(ast.NodeTransformer):
    """`if <comparison>: x = a` / `else: x = b` (one plain-name assignment per arm, same name) is
    analysed as `x = a if <comparison> else b`: the optional-argument (`p is None`) and
    fallback-step (`lc[j] != 0`) idioms are recognised in one spelling only.  Tests that are calls
    (`issparse(X)`, `hasattr(...)`) or flags keep their statement form: the dispatch and
    guard-context rules work on statements."""

    def _fold(self, body):
        out = []
        for st in body:
            if isinstance(st, ast.If) and isinstance(st.test, ast.Compare) \
                    and len(st.body) == 1 and len(st.orelse) == 1 \
                    and all(isinstance(x, ast.Assign) and len(x.targets) == 1 and isinstance(x.targets[0], ast.Name)
                            for x in (st.body[0], st.orelse[0])) \
                    and st.body[0].targets[0].id == st.orelse[0].targets[0].id:
                new = ast.Assign([ast.Name(st.body[0].targets[0].id, ast.Store())],
                                 ast.IfExp(st.test, st.body[0].value, st.orelse[0].value))
                ast.copy_location(new, st)
                ast.copy_location(new.value, st)
                ast.fix_missing_locations(new)
                out.append(new)
            else:
                out.append(st)
        return out

    def generic_visit(self, node):
        super().generic_visit(node)
        for fld in ("body", "orelse"):
            lst = getattr(node, fld, None)
            if isinstance(lst, list) and lst and isinstance(lst[0], ast.stmt):
                setattr(node, fld, self._fold(lst))
        return node


class _CanonEnumerate(ast.NodeTransformer):
    """`for i in range(len(seq)): x = seq[i]; ...` is analysed as `for i, x in enumerate(seq): ...`
    (position / element pairing is recognised in one spelling only)"""

    def visit_For(self, node):
        self.generic_visit(node)
        it = node.iter
        if isinstance(node.target, ast.Name) and isinstance(it, ast.Call) and isinstance(it.func, ast.Name) \
                and it.func.id == "range" and len(it.args) == 1 and isinstance(it.args[0], ast.Call) \
                and isinstance(it.args[0].func, ast.Name) and it.args[0].func.id == "len" \
                and len(it.args[0].args) == 1 and isinstance(it.args[0].args[0], ast.Name) and node.body:
            seq, i = it.args[0].args[0].id, node.target.id
            st = node.body[0]
            if isinstance(st, ast.Assign) and len(st.targets) == 1 and isinstance(st.targets[0], ast.Name) \
                    and isinstance(st.value, ast.Subscript) and isinstance(st.value.value, ast.Name) \
                    and st.value.value.id == seq and isinstance(st.value.slice, ast.Name) \
                    and st.value.slice.id == i and len(node.body) > 1:
                new = ast.For(ast.Tuple([ast.Name(i, ast.Store()), ast.Name(st.targets[0].id, ast.Store())], ast.Store()),
                              ast.Call(ast.Name("enumerate", ast.Load()), [ast.Name(seq, ast.Load())], []),
                              node.body[1:], node.orelse)
                ast.copy_location(new, node)
                ast.fix_missing_locations(new)
                return new
        return node


class Module:
    def __init__(self, name, path, relpath):
        self.name = name
        self.path = path
        self.relpath = relpath
        with open(path, "rb") as f:
            raw = f.read()
        self.sha256 = hashlib.sha256(raw).hexdigest()
        self.src = raw.decode("utf-8")
        try:
            self.tree = ast.parse(self.src, filename=path)
        except SyntaxError as e:
            raise AnalysisError(f"cannot parse {relpath}: {e}")
        _CanonCompare().visit(self.tree)
        _CanonAdd().visit(self.tree)
        _CanonIfAssign().visit(self.tree)
        _CanonEnumerate().visit(self.tree)
        self.imports = {}     # local name -> (module name, attr or None)
        self.functions = {}
        self.classes = {}
        self.consts = {}
        self.is_pkg = os.path.basename(path) == "__init__.py"
        self._collect()

    def _abs(self, level, mod):
        if level == 0:
            return mod
        parts = self.name.split(".")
        if not self.is_pkg:
            parts = parts[:-1]
        parts = parts[:len(parts) - (level - 1)]
        return ".".join(parts + ([mod] if mod else []))

    def _collect(self):
        for st in self.tree.body:
            if isinstance(st, ast.Import):
                for a in st.names:
                    self.imports[a.asname or a.name.split(".")[0]] = (a.name, None)
            elif isinstance(st, ast.ImportFrom):
                m = self._abs(st.level, st.module)
                for a in st.names:
                    self.imports[a.asname or a.name] = (m, a.name)
            elif isinstance(st, ast.FunctionDef):
                self.functions[st.name] = FuncInfo(self, st)
            elif isinstance(st, ast.ClassDef):
                self.classes[st.name] = ClassInfo(self, st)
            elif isinstance(st, ast.Assign):
                for t in st.targets:
                    if isinstance(t, ast.Name):
                        self.consts[t.id] = st.value


class Program:
    FLOORS = dict(datafits=13, penalties=19, solvers=9, estimators=12, modules=30)

    def __init__(self, repo=REPO):
        self.repo = repo
        self.modules = {}
        root = os.path.join(repo, PKG)
        if not os.path.isdir(root):
            raise AnalysisError(f"package directory {root} missing")
        for dp, dn, fn in os.walk(root):
            dn[:] = sorted(d for d in dn if d not in ("tests", "__pycache__"))
            for f in sorted(fn):
                if not f.endswith(".py") or f.startswith("_plot_"):
                    continue
                path = os.path.join(dp, f)
                rel = os.path.relpath(path, repo)
                modname = rel[:-3].replace(os.sep, ".")
                if modname.endswith(".__init__"):
                    modname = modname[:-9]
                self.modules[modname] = Module(modname, path, rel)
        self._resolve_bases()
        self._registries()

    # ---------------------------------------------------------------- names
    def resolve(self, module, name, _depth=0):
        """Resolve a (possibly dotted) name used in `module` to FuncInfo/ClassInfo/
        ('const', node) / ('ext', dotted) / None."""
        if _depth > 8:
            return None
        head, _, rest = name.partition(".")
        if head in module.functions and not rest:
            return module.functions[head]
        if head in module.classes:
            c = module.classes[head]
            if not rest:
                return c
            m = c.find_method(rest)
            return m
        if head in module.consts and not rest:
            return ("const", module.consts[head])
        if head in module.imports:
            mod, attr = module.imports[head]
            if attr is None:
                # import x.y as z
                if mod in self.modules and rest:
                    return self.resolve(self.modules[mod], rest, _depth + 1)
                return ("ext", mod + ("." + rest if rest else ""))
            full = f"{mod}.{attr}"
            if full in self.modules:       # from pkg import submodule
                if rest:
                    return self.resolve(self.modules[full], rest, _depth + 1)
                return ("module", full)
            if mod in self.modules:
                tgt = attr + ("." + rest if rest else "")
                return self.resolve(self.modules[mod], tgt, _depth + 1)
            return ("ext", full + ("." + rest if rest else ""))
        return None

    def _resolve_bases(self):
        for m in self.modules.values():
            for c in m.classes.values():
                for b in c.base_exprs:
                    r = self.resolve(m, b)
                    if isinstance(r, ClassInfo):
                        c.bases.append(r)
                    else:
                        c.ext_bases.append(b)

    def all_classes(self):
        for m in self.modules.values():
            yield from m.classes.values()

    def all_functions(self, nested=False):
        for m in self.modules.values():
            yield from m.functions.values()
            for c in m.classes.values():
                yield from c.methods.values()

    def find_class(self, name):
        hits = [c for c in self.all_classes() if c.name == name]
        if len(hits) == 1:
            return hits[0]
        if not hits:
            return None
        raise AnalysisError(f"ambiguous class name {name}")

    def subclasses(self, base):
        return [c for c in self.all_classes() if c is not base and c.is_subclass_of(base)]

    def func(self, relmod, qualname):
        m = self.modules.get(relmod)
        if m is None:
            raise AnalysisError(f"anchor module {relmod} missing")
        if "." in qualname:
            cn, mn = qualname.split(".", 1)
            c = m.classes.get(cn)
            f = c.find_method(mn) if c else None
        else:
            f = m.functions.get(qualname)
        if f is None:
            raise AnalysisError(f"anchor {relmod}::{qualname} missing")
        return f

    # ------------------------------------------------------------ registries
    def _registries(self):
        def need(name):
            c = self.find_class(name)
            if c is None:
                raise AnalysisError(f"anchor class {name} missing")
            return c
        self.BaseDatafit = need("BaseDatafit")
        self.BaseMultitaskDatafit = need("BaseMultitaskDatafit")
        self.BasePenalty = need("BasePenalty")
        self.BaseSolver = need("BaseSolver")
        self.datafits = sorted(set(self.subclasses(self.BaseDatafit)
                                   + self.subclasses(self.BaseMultitaskDatafit)),
                               key=lambda c: c.fq)
        self.penalties = sorted(self.subclasses(self.BasePenalty), key=lambda c: c.fq)
        self.solvers = sorted(self.subclasses(self.BaseSolver), key=lambda c: c.fq)
        self.estimators = sorted(
            [c for c in self.all_classes()
             if "fit" in c.all_methods() and c not in self.solvers
             and (c.module.name == "skglm.estimators"
                  or c.module.name.startswith("skglm.experimental"))
             and any("LinearModel" in b or "BaseEstimator" in b or "Mixin" in b
                     for k in c.mro() for b in k.ext_bases)],
            key=lambda c: c.fq)
        counts = dict(datafits=len(self.datafits), penalties=len(self.penalties),
                      solvers=len(self.solvers), estimators=len(self.estimators),
                      modules=len(self.modules))
        for k, v in self.FLOORS.items():
            if counts[k] < v:
                raise AnalysisError(
                    f"registry floor breached: {k}={counts[k]} < {v}")
        self.counts = counts

    # ------------------------------------------------------- jitclass facts
    def spec_of(self, cls):
        """[(name, type_text)] from get_spec (own or inherited) or None if it
        returns nothing (``pass``)."""
        f = cls.find_method("get_spec")
        if f is None:
            return None
        out = None
        for n in ast.walk(f.node):
            if isinstance(n, (ast.Tuple, ast.List)):
                items = []
                ok = True
                for e in n.elts:
                    if (isinstance(e, ast.Tuple) and len(e.elts) == 2
                            and isinstance(e.elts[0], ast.Constant)
                            and isinstance(e.elts[0].value, str)):
                        items.append((e.elts[0].value, ast.unparse(e.elts[1])))
                    else:
                        ok = False
                if ok and (items or not n.elts):
                    if out is None or len(items) > len(out):
                        out = items
        return out

    def params_to_dict_keys(self, cls):
        f = cls.find_method("params_to_dict")
        if f is None:
            return None
        keys = None
        for n in ast.walk(f.node):
            if isinstance(n, ast.Call) and ast.unparse(n.func) == "dict":
                keys = [kw.arg for kw in n.keywords]
            elif isinstance(n, ast.Dict):
                keys = [k.value for k in n.keys if isinstance(k, ast.Constant)]
        return keys

    def init_params(self, cls):
        f = cls.find_method("__init__")
        if f is None:
            return []
        return f.params[1:]

    def digest(self):
        h = hashlib.sha256()
        for k in sorted(self.modules):
            h.update(k.encode())
            h.update(self.modules[k].sha256.encode())
        return h.hexdigest()


# ----------------------------------------------------------------- ast helpers
def names_in(node):
    """Free names of an expression/statement: names bound by comprehensions and
    lambdas inside it are excluded."""
    if node is None:
        return set()
    out = set()

    def rec(n, bound):
        if isinstance(n, ast.Name):
            if n.id not in bound:
                out.add(n.id)
            return
        if isinstance(n, (ast.ListComp, ast.SetComp, ast.GeneratorExp, ast.DictComp)):
            b = set(bound)
            for g in n.generators:
                rec(g.iter, b)
                for t in ast.walk(g.target):
                    if isinstance(t, ast.Name):
                        b.add(t.id)
                for c in g.ifs:
                    rec(c, b)
            if isinstance(n, ast.DictComp):
                rec(n.key, b)
                rec(n.value, b)
            else:
                rec(n.elt, b)
            return
        if isinstance(n, ast.Lambda):
            b = set(bound) | {a.arg for a in n.args.args + n.args.kwonlyargs}
            rec(n.body, b)
            return
        for c in ast.iter_child_nodes(n):
            rec(c, bound)
    rec(node, frozenset())
    return out


def calls_in(node):
    return [n for n in ast.walk(node) if isinstance(n, ast.Call)]


def attr_chain(node):
    """`a.b.c` -> ['a','b','c']; None if not a pure chain."""
    parts = []
    while isinstance(node, ast.Attribute):
        parts.append(node.attr)
        node = node.value
    if isinstance(node, ast.Name):
        parts.append(node.id)
        return parts[::-1]
    return None


def call_name(call):
    return ast.unparse(call.func)


def is_inf(node):
    s = ast.unparse(node).replace(" ", "")
    return s in ("np.inf", "numpy.inf", "math.inf", "float('inf')", 'float("inf")',
                 "inf", "np.Inf", "np.infty")


def base_name(node):
    """Name at the root of a subscript/attribute chain, or None."""
    while isinstance(node, (ast.Subscript, ast.Attribute, ast.Starred)):
        node = node.value
    return node.id if isinstance(node, ast.Name) else None


def const_value(node):
    try:
        return ast.literal_eval(node)
    except Exception:
        return None
