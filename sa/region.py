"""L5b - region lifter: symbolic evaluation of penalty / prox code on ONE order region.

Arrays have concrete small shapes (a block of two coefficients), scalars are algebraic
terms (sa.algebra.RF) over named symbols.  Every data-dependent decision (comparison, abs,
max, sign, argmin, boolean mask) is resolved with a *witness*: a rational point that names
the region.  The witness only selects the branch; each decision is recorded as a sign
condition of the region, and what the rules compare afterwards are the symbolic terms, so a
verdict holds on the whole region the witness lies in.  A witness that falls on a region
boundary (tie) is refused (Unsupported), never decided by rounding noise.

Nothing of skglm is imported or executed: the input is the syntax tree of the functions.
"""
import ast
import math
from fractions import Fraction

from .algebra import RF, Unsupported, const, sym, fn, KEY2RF, lift as tolift

TIE = 1e-9


class Vec(list):
    """concrete-length 1-D array (elements: RF / bool / int)"""


class Mat(list):
    """concrete 2-D array: list of Vec rows"""


class Obj:
    def __init__(self, cls, attrs):
        self.cls, self.attrs = cls, attrs


class _Ret(Exception):
    def __init__(self, v):
        self.v = v


class _Break(Exception):
    pass


class _Continue(Exception):
    pass


class DivByZero(Unsupported):
    """x / 0 with an identically zero divisor (inf, NaN or ZeroDivisionError when compiled);
    callers that do not single it out treat it as any construct outside the lifted subset"""


class Raised(Exception):
    """the analysed code raises on this region"""


INF = sym("INF")


def is_real(v):
    return isinstance(v, (RF, int, float, Fraction)) and not isinstance(v, bool)


def R(v):
    if isinstance(v, RF):
        return v
    if isinstance(v, bool):
        return const(int(v))
    if isinstance(v, (int, Fraction)):
        return const(Fraction(v))
    if isinstance(v, float):
        if v == float("inf"):
            return INF
        if v == float("-inf"):
            return -INF
        return const(Fraction(str(v)))
    raise Unsupported(f"not a scalar: {type(v).__name__}")


def _monomial_root(x):
    """r with r^2 == x when numerator and denominator of x are single monomials with
    even exponents and rational-square coefficients, else None"""
    from .algebra import _rational_sqrt, atom_rf
    out = const(1)
    for poly, inv in ((x.num, False), (x.den, True)):
        if len(poly) != 1:
            return None
        (m, c), = poly.items()
        if c < 0:
            return None
        rc = _rational_sqrt(c)
        if rc is None:
            return None
        t = const(rc)
        for a, e in m:
            if e % 2:
                return None
            t = t * atom_rf(a).powi(e // 2)
        out = out / t if inv else out * t
    return out


def _poly_root(x):
    """q with q^2 == x when x is (a rational-square multiple of) the square of a polynomial in its
    atoms, divided by a perfect-square monomial: the pure-square terms c_i m_i^2 of the numerator give
    the candidate terms sqrt(c_i) m_i of q, the signs are fixed greedily from the cross terms and the
    result is verified by squaring.  None when no such q is found (the radical then stays an atom)."""
    from .algebra import _rational_sqrt, atom_rf
    if len(x.den) != 1 or len(x.num) < 3 or len(x.num) > 60:
        return None
    den = RF(dict(x.den))
    droot = _monomial_root(den)
    if droot is None:
        return None
    terms = []
    for m, c in x.num.items():
        if c > 0 and all(e % 2 == 0 for _, e in m):
            rc = _rational_sqrt(c)
            if rc is None:
                continue
            t = const(rc)
            for a, e in m:
                t = t * atom_rf(a).powi(e // 2)
            terms.append(t)
    k = len(terms)
    if k < 2 or k * (k + 1) // 2 < len(x.num):
        return None
    num = RF(dict(x.num))
    q = terms[0]
    for t in terms[1:]:
        plus, minus = q + t, q - t
        # keep the sign whose square explains more of the numerator
        dp = len((num - plus * plus).num)
        dm = len((num - minus * minus).num)
        q = plus if dp <= dm else minus
    if not (q * q - num).is_zero():
        return None
    return q / droot


class Region:
    """witness + recorded decisions"""

    def __init__(self, values):
        self.values = dict(values)          # symbol name -> float
        self.trace = []                     # (rf, relation) with relation in '<0', '>0', '==0'

    # numeric shadow ------------------------------------------------------------
    def num(self, rf):
        rf = tolift(R(rf))
        n, d = self._poly(rf.num), self._poly(rf.den)
        if d == 0:
            return float("inf") if n > 0 else float("-inf") if n < 0 else float("nan")
        return n / d

    def _atom(self, a):
        if a[0] == "sym":
            if a[1] == "INF":
                return 1e30
            if a[1] in self.values:
                return self.values[a[1]]
            raise Unsupported(f"no witness value for {a[1]}")
        if a[0] == "fn":
            x = self.num(KEY2RF[a[2]])
            f = a[1]
            if f == "sqrt":
                if x < -TIE:
                    raise Unsupported("sqrt of a negative term on this region")
                return math.sqrt(max(x, 0.0))
            if f == "abs":
                return abs(x)
            if f == "exp":
                return math.exp(x)
            if f == "log":
                if x <= 0:
                    raise Unsupported("log of a non-positive term on this region")
                return math.log(x)
            if f.startswith("pow"):
                p, q = f[3:].split("/")
                if x < 0:
                    raise Unsupported("fractional power of a negative term")
                return x ** (int(p) / int(q))
            raise Unsupported(f"no numeric semantics for {f}")
        raise Unsupported(f"atom {a[0]} in a region term")

    def _poly(self, p):
        tot = 0.0
        for m, c in p.items():
            t = float(c)
            for a, e in m:
                t *= self._atom(a) ** e
            tot += t
        return tot

    # decisions ------------------------------------------------------------------
    def sign(self, rf):
        rf = R(rf)
        if rf.is_zero():
            return 0
        if rf.is_const():
            c = rf.const_value()
            return (c > 0) - (c < 0)
        x = self.num(rf)
        if x != x:
            raise Unsupported("undefined term (nan) on this region")
        scale = max(1.0, abs(x))
        if abs(x) < TIE * scale:
            from .algebra import show_rf
            raise Unsupported("witness lies on a region boundary of " + show_rf(rf)[:120])
        s = 1 if x > 0 else -1
        self.trace.append((rf, ">0" if s > 0 else "<0"))
        return s

    def compare(self, a, op, b):
        if isinstance(a, (bool, str)) or isinstance(b, (bool, str)) or a is None or b is None:
            return {"==": a == b, "!=": a != b}[op]
        if isinstance(a, int) and isinstance(b, int):
            return {"<": a < b, "<=": a <= b, ">": a > b, ">=": a >= b, "==": a == b, "!=": a != b}[op]
        s = self.sign(R(a) - R(b))
        return {"<": s < 0, "<=": s <= 0, ">": s > 0, ">=": s >= 0, "==": s == 0, "!=": s != 0}[op]


class RegionLifter:
    def __init__(self, prog, region, max_steps=4000, max_product=400000):
        self.prog, self.rg = prog, region
        self.max_product = max_product
        self.decisions = []              # (id of the ast.If, branch taken) in execution order
        self.hazards = []                # (function, node, why): numerically fragile constructs met
        self.steps, self.max_steps = 0, max_steps
        self.depth = 0

    # ------------------------------------------------------------ functions
    def call_function(self, finfo, args, kwargs=None, self_obj=None):
        self.depth += 1
        if self.depth > 12:
            raise Unsupported("call depth")
        try:
            node = finfo.node
            params = [a.arg for a in node.args.args]
            env = {}
            if self_obj is not None:
                env[params[0]] = self_obj
                params = params[1:]
            defaults = node.args.defaults
            dmap = dict(zip(params[len(params) - len(defaults):], defaults))
            kwargs = kwargs or {}
            for i, p in enumerate(params):
                if i < len(args):
                    env[p] = args[i]
                elif p in kwargs:
                    env[p] = kwargs[p]
                elif p in dmap:
                    env[p] = self.ev(dmap[p], {}, finfo)
                else:
                    raise Unsupported(f"missing argument {p} of {finfo.name}")
            try:
                self.block(node.body, env, finfo)
            except _Ret as r:
                return r.v
            return None
        finally:
            self.depth -= 1

    # ------------------------------------------------------------ statements
    def block(self, stmts, env, F):
        for st in stmts:
            self.steps += 1
            if self.steps > self.max_steps:
                raise Unsupported("step budget exceeded")
            if isinstance(st, ast.Expr):
                if not isinstance(st.value, ast.Constant):
                    self.ev(st.value, env, F)
            elif isinstance(st, ast.Pass):
                pass
            elif isinstance(st, ast.Return):
                raise _Ret(self.ev(st.value, env, F) if st.value is not None else None)
            elif isinstance(st, ast.Raise):
                raise Raised(ast.unparse(st)[:80])
            elif isinstance(st, ast.If):
                taken = self.truth(self.ev(st.test, env, F))
                self.decisions.append((id(st), taken))
                self.block(st.body if taken else st.orelse, env, F)
            elif isinstance(st, ast.Assign):
                v = self.ev(st.value, env, F)
                for t in st.targets:
                    self.assign(t, v, env, F)
            elif isinstance(st, ast.AugAssign):
                cur = self.ev(st.target, env, F)
                v = self.binop(type(st.op), cur, self.ev(st.value, env, F))
                self.assign(st.target, v, env, F, inplace=True)
            elif isinstance(st, ast.For):
                it = self.iterate(self.ev(st.iter, env, F))
                for x in it:
                    self.assign(st.target, x, env, F)
                    try:
                        self.block(st.body, env, F)
                    except _Break:
                        break
                    except _Continue:
                        continue
            elif isinstance(st, ast.While):
                n = 0
                while self.truth(self.ev(st.test, env, F)):
                    n += 1
                    if n > 64:
                        raise Unsupported("while loop bound")
                    try:
                        self.block(st.body, env, F)
                    except _Break:
                        break
                    except _Continue:
                        continue
            elif isinstance(st, ast.Break):
                raise _Break()
            elif isinstance(st, ast.Continue):
                raise _Continue()
            else:
                raise Unsupported(f"statement {type(st).__name__}")

    def iterate(self, it):
        if isinstance(it, (range, list, tuple)):
            return list(it)
        raise Unsupported(f"loop over {type(it).__name__}")

    def truth(self, v):
        if isinstance(v, bool):
            return v
        if isinstance(v, int):
            return v != 0
        if isinstance(v, RF):
            return self.rg.sign(v) != 0
        if v is None:
            return False
        raise Unsupported(f"truth value of {type(v).__name__}")

    def assign(self, t, v, env, F, inplace=False):
        if isinstance(t, ast.Name):
            if inplace and isinstance(env.get(t.id), Vec) and isinstance(v, Vec):
                env[t.id][:] = v
            else:
                env[t.id] = v
            return
        if isinstance(t, (ast.Tuple, ast.List)):
            vs = list(v) if isinstance(v, (list, tuple)) else None
            if vs is None or len(vs) != len(t.elts):
                raise Unsupported("tuple unpacking")
            for tt, vv in zip(t.elts, vs):
                self.assign(tt, vv, env, F)
            return
        if isinstance(t, ast.Attribute):
            o = self.ev(t.value, env, F)
            if isinstance(o, Obj):
                o.attrs[t.attr] = v
                return
        if isinstance(t, ast.Subscript):
            base = self.ev(t.value, env, F)
            ix = self.index(t.slice, env, F)
            self.setitem(base, ix, v)
            return
        raise Unsupported("assignment target")

    # ------------------------------------------------------------ indexing
    def index(self, sl, env, F):
        if isinstance(sl, ast.Tuple):
            return tuple(self.index(e, env, F) for e in sl.elts)
        if isinstance(sl, ast.Slice):
            lo = self.ev(sl.lower, env, F) if sl.lower is not None else None
            hi = self.ev(sl.upper, env, F) if sl.upper is not None else None
            st = self.as_int(self.ev(sl.step, env, F)) if sl.step is not None else None
            return slice(self.as_int(lo), self.as_int(hi), st)
        return self.ev(sl, env, F)

    def as_int(self, v):
        if v is None or isinstance(v, int):
            return v
        if isinstance(v, RF) and v.is_const() and v.const_value().denominator == 1:
            return int(v.const_value())
        raise Unsupported("symbolic integer")

    def getitem(self, base, ix):
        try:
            return self._getitem(base, ix)
        except IndexError:
            raise Raised("index out of bounds (no bounds checking in compiled code: a neighbouring value is read)")

    def _getitem(self, base, ix):
        if isinstance(base, Mat):
            if isinstance(ix, tuple):
                if len(ix) != 2:
                    raise Unsupported("matrix index arity")
                r, c = ix
                if isinstance(r, slice):
                    rows = base[r]
                    if isinstance(c, slice):
                        return Mat(Vec(row[c]) for row in rows)
                    if isinstance(c, (Vec, list)):
                        return Mat(Vec(row[self.as_int(k)] for k in c) for row in rows)
                    return Vec(row[self.as_int(c)] for row in rows)
                if r is None:
                    raise Unsupported("newaxis")
                row = base[self.as_int(r)]
                return self.getitem(row, c)
            if isinstance(ix, slice):
                return Mat(base[ix])
            return base[self.as_int(ix)]
        if isinstance(base, (Vec, list, tuple)):
            if isinstance(ix, tuple):
                if len(ix) == 2 and ix[1] is None and isinstance(ix[0], slice):
                    return Mat(Vec([x]) for x in base[ix[0]])
                raise Unsupported("vector index arity")
            if isinstance(ix, slice):
                return Vec(base[ix])
            if isinstance(ix, (Vec, list)):
                if ix and all(isinstance(b, bool) for b in ix):
                    if len(ix) != len(base):
                        raise Unsupported("mask length")
                    return Vec(x for x, b in zip(base, ix) if b)
                return Vec(base[self.as_int(i)] for i in ix)
            i = self.as_int(ix)
            if not -len(base) <= i < len(base):
                raise Raised(f"index {i} out of bounds for an array of length {len(base)} "
                             "(no bounds checking in compiled code: a neighbouring value is read)")
            return base[i]
        raise Unsupported(f"subscript of {type(base).__name__}")

    def setitem(self, base, ix, v):
        try:
            return self._setitem(base, ix, v)
        except IndexError:
            raise Raised("store index out of bounds")

    def _setitem(self, base, ix, v):
        if isinstance(base, Mat):
            if isinstance(ix, tuple) and len(ix) == 2:
                r, c = ix
                if isinstance(r, slice):
                    rows = list(range(len(base)))[r]
                    if isinstance(c, slice):
                        raise Unsupported("matrix block store")
                    cc = self.as_int(c)
                    for k, i in enumerate(rows):
                        base[i][cc] = v[k] if isinstance(v, (Vec, list)) else v
                    return
                self.setitem(base[self.as_int(r)], c, v)
                return
            row = base[self.as_int(ix)]
            self.setitem(row, slice(None, None), v)
            return
        if isinstance(base, Vec):
            if isinstance(ix, slice):
                idx = list(range(len(base)))[ix]
            elif isinstance(ix, (Vec, list)):
                if ix and all(isinstance(b, bool) for b in ix):
                    idx = [k for k, b in enumerate(ix) if b]
                else:
                    idx = [self.as_int(i) for i in ix]
            else:
                i = self.as_int(ix)
                if not -len(base) <= i < len(base):
                    raise Raised(f"store index {i} out of bounds for an array of length {len(base)}")
                base[i] = v
                return
            if isinstance(v, (Vec, list)):
                if len(v) != len(idx):
                    raise Unsupported("store length mismatch")
                for k, x in zip(idx, v):
                    base[k] = x
            else:
                for k in idx:
                    base[k] = v
            return
        raise Unsupported("store into a non-array")

    # ------------------------------------------------------------ arithmetic
    def ew(self, f, *vals):
        n = None
        for v in vals:
            if isinstance(v, Mat):
                return Mat(self.ew(f, *[(x[i] if isinstance(x, Mat) else x) for x in vals])
                           for i in range(len(v)))
        for v in vals:
            if isinstance(v, (Vec, list, tuple)):
                if n is not None and len(v) != n:
                    if len(v) == 1 or n == 1:
                        n = max(n, len(v))
                        continue
                    raise Unsupported("shape mismatch")
                n = len(v) if n is None else n
        if n is None:
            return f(*vals)
        out = Vec()
        for i in range(n):
            out.append(f(*[(v[i if len(v) > 1 else 0] if isinstance(v, (Vec, list, tuple)) else v)
                           for v in vals]))
        return out

    def binop(self, op, a, b):
        if op is ast.MatMult:
            return self.dot(a, b)

        def f(x, y):
            if isinstance(x, bool) and isinstance(y, bool):
                if op is ast.BitAnd:
                    return x and y
                if op is ast.BitOr:
                    return x or y
            if isinstance(x, int) and isinstance(y, int) and not isinstance(x, bool) \
                    and not isinstance(y, bool):
                if op is ast.Add:
                    return x + y
                if op is ast.Sub:
                    return x - y
                if op is ast.Mult:
                    return x * y
                if op is ast.FloorDiv:
                    return x // y
                if op is ast.Mod:
                    return x % y
            x, y = R(x), R(y)
            if op in (ast.Mult, ast.Div, ast.Add, ast.Sub):
                # deterministic guard against term growth (independent of machine load)
                sx, sy = max(len(x.num), len(x.den)), max(len(y.num), len(y.den))
                if sx * sy > self.max_product:
                    raise Unsupported("term growth beyond the size budget")
            if op is ast.Add:
                return x + y
            if op is ast.Sub:
                return x - y
            if op is ast.Mult:
                return x * y
            if op is ast.Div:
                if y.is_zero():
                    raise DivByZero("division by a term that is identically zero on this region")
                return x / y
            if op is ast.Pow:
                return self.power(x, y)
            raise Unsupported(f"operator {op.__name__}")
        return self.ew(f, a, b)

    def power(self, x, y):
        if not y.is_const():
            raise Unsupported("symbolic exponent")
        e = y.const_value()
        if e.denominator == 1:
            return x.powi(int(e))
        if x.is_zero():
            if e > 0:
                return const(0)
            raise Unsupported("zero to a negative power")
        if self.rg.sign(x) < 0:
            raise Unsupported("fractional power of a negative term")
        if e.denominator == 2:
            r = fn("sqrt", x)
            return r.powi(e.numerator) if e.numerator > 0 else const(1) / r.powi(-e.numerator)
        from .algebra import power as apower
        return apower(x, const(e))

    def dot(self, a, b):
        if isinstance(a, Mat) and isinstance(b, Vec):
            return Vec(self.dot(Vec(r), b) for r in a)
        if isinstance(a, Vec) and isinstance(b, Mat):
            return Vec(self.dot(a, Vec(c)) for c in zip(*b))
        if isinstance(a, Mat) and isinstance(b, Mat):
            return Mat(Vec(self.dot(Vec(r), Vec(c)) for c in zip(*b)) for r in a)
        if isinstance(a, Vec) and isinstance(b, Vec):
            if len(a) != len(b):
                raise Unsupported("dot length mismatch")
            t = const(0)
            for x, y in zip(a, b):
                t = t + R(x) * R(y)
            return t
        raise Unsupported("matrix product")

    def absval(self, x):
        x = R(x)
        s = self.rg.sign(x)
        return x if s > 0 else -x if s < 0 else const(0)

    def sqrt(self, x):
        x = R(x)
        if x.is_zero():
            return const(0)
        root = _monomial_root(x)
        if root is None:
            root = _poly_root(x)
        if root is not None:
            return self.absval(root)
        # a denominator that is a perfect-square monomial leaves the radical:
        # sqrt(P / s^2) = sqrt(P) / |s|, so that |y - z / s| and |s y - z| / s share one atom
        if len(x.den) == 1 and len(x.num) > 1:
            den = RF(dict(x.den))
            droot = _monomial_root(den)
            if droot is not None and not den.is_const():
                return fn("sqrt", RF(dict(x.num))) / self.absval(droot)
        return fn("sqrt", x)

    def norm2(self, v):
        if isinstance(v, Mat):
            raise Unsupported("matrix norm")
        if is_real(v):
            return self.absval(v)
        t = const(0)
        for x in v:
            t = t + R(x).powi(2)
        if len(v) == 1:
            return self.absval(v[0])
        nz = [x for x in v if not R(x).is_zero()]
        if len(nz) == 1:
            return self.absval(nz[0])
        return self.sqrt(t)

    def spectral(self, M):
        """spectral norm of a concrete-shape matrix: an opaque positive symbol named after the
        canonical form of the entries (equal matrices share it); its witness value is computed
        by a power iteration on the numeric shadow"""
        import hashlib
        rows = [[R(x) for x in r] for r in M]
        if all(x.is_zero() for r in rows for x in r):
            return const(0)
        name = "SPEC_" + hashlib.sha1(repr([[x.key() for x in r] for r in rows]).encode()).hexdigest()[:10]
        if name not in self.rg.values:
            Mn = [[self.rg.num(x) for x in r] for r in rows]
            ncol = len(Mn[0])
            v = [1.0 / (k + 1.3) for k in range(ncol)]
            lam = 0.0
            for _ in range(500):
                Mv = [sum(r[k] * v[k] for k in range(ncol)) for r in Mn]
                u = [sum(Mn[i][k] * Mv[i] for i in range(len(Mn))) for k in range(ncol)]
                nu = math.sqrt(sum(x * x for x in u))
                if nu == 0:
                    break
                v = [x / nu for x in u]
                lam = nu
            self.rg.values[name] = math.sqrt(lam)
        return sym(name)

    def maxmin(self, is_max, a, b):
        def f(x, y):
            if isinstance(x, int) and isinstance(y, int):
                return max(x, y) if is_max else min(x, y)
            s = self.rg.sign(R(x) - R(y))
            if s == 0:
                return R(x)
            return R(x) if (s > 0) == is_max else R(y)
        return self.ew(f, a, b)

    # ------------------------------------------------------------ expressions
    def ev(self, node, env, F):
        if isinstance(node, ast.Constant):
            v = node.value
            if isinstance(v, (bool, str)) or v is None or isinstance(v, int):
                return v
            if isinstance(v, float):
                if 0 < abs(v) < 1e-9:
                    # numerical regulariser (1e-12, ...): a named infinitesimal, so that rules
                    # can compare terms up to it
                    self.rg.values["TINY"] = abs(v)
                    return sym("TINY") if v > 0 else -sym("TINY")
                return const(Fraction(str(v)))
            raise Unsupported("constant")
        if isinstance(node, ast.Name):
            if node.id in env:
                return env[node.id]
            r = self.prog.resolve(F.module, node.id)
            if isinstance(r, tuple) and r[0] == "const":
                return self.ev(r[1], {}, F)
            if isinstance(r, tuple) and r[0] == "ext":
                return r[1]                  # external name (a dtype, ...): opaque
            if node.id in ("float", "int", "bool", "complex"):
                return node.id               # a builtin type used as a dtype
            if node.id in self._locals_of(F):
                raise Raised(f"local `{node.id}` is read before any assignment on this path (a loop that was "
                             "expected to define it did not run): UnboundLocalError in Python, an "
                             "arbitrary value (0.0) in compiled code")
            raise Unsupported(f"name {node.id}")
        if isinstance(node, ast.UnaryOp):
            v = self.ev(node.operand, env, F)
            if isinstance(node.op, ast.USub):
                return self.ew(lambda x: -x if isinstance(x, int) and not isinstance(x, bool) else -R(x), v)
            if isinstance(node.op, ast.UAdd):
                return v
            if isinstance(node.op, ast.Not):
                return not self.truth(v)
            if isinstance(node.op, ast.Invert):
                return self.ew(lambda x: not x, v)
            raise Unsupported("unary operator")
        if isinstance(node, ast.BinOp):
            return self.binop(type(node.op), self.ev(node.left, env, F), self.ev(node.right, env, F))
        if isinstance(node, ast.BoolOp):
            if isinstance(node.op, ast.And):
                for v in node.values:
                    if not self.truth(self.ev(v, env, F)):
                        return False
                return True
            for v in node.values:
                if self.truth(self.ev(v, env, F)):
                    return True
            return False
        if isinstance(node, ast.Compare):
            left = self.ev(node.left, env, F)
            res = True
            for op, right in zip(node.ops, node.comparators):
                rv = self.ev(right, env, F)
                o = {ast.Lt: "<", ast.LtE: "<=", ast.Gt: ">", ast.GtE: ">=", ast.Eq: "==",
                     ast.NotEq: "!="}.get(type(op))
                if o is None:
                    if isinstance(op, (ast.Is, ast.IsNot)):
                        r = (left is rv) if isinstance(op, ast.Is) else (left is not rv)
                        res = res and r
                        left = rv
                        continue
                    raise Unsupported("comparison operator")
                r = self.ew(lambda x, y: self.rg.compare(x, o, y), left, rv)
                if isinstance(r, (Vec, Mat)):
                    if len(node.ops) > 1:
                        raise Unsupported("chained array comparison")
                    return r
                res = res and r
                if not res:
                    return False
                left = rv
            return res
        if isinstance(node, ast.IfExp):
            return self.ev(node.body if self.truth(self.ev(node.test, env, F)) else node.orelse, env, F)
        if isinstance(node, ast.Tuple):
            return tuple(self.ev(e, env, F) for e in node.elts)
        if isinstance(node, ast.List):
            return [self.ev(e, env, F) for e in node.elts]
        if isinstance(node, ast.ListComp):
            if len(node.generators) != 1 or node.generators[0].ifs:
                raise Unsupported("comprehension form")
            g = node.generators[0]
            out = []
            e2 = dict(env)
            for x in self.iterate(self.ev(g.iter, env, F)):
                self.assign(g.target, x, e2, F)
                out.append(self.ev(node.elt, e2, F))
            return out
        if isinstance(node, ast.Attribute):
            return self.attribute(node, env, F)
        if isinstance(node, ast.Subscript):
            return self.getitem(self.ev(node.value, env, F), self.index(node.slice, env, F))
        if isinstance(node, ast.Call):
            return self.call(node, env, F)
        raise Unsupported(f"expression {type(node).__name__}")

    def _locals_of(self, F):
        cache = self.__dict__.setdefault("_locals_cache", {})
        if id(F) not in cache:
            names = set()
            for st in ast.walk(F.node):
                tg = st.targets if isinstance(st, ast.Assign) else [st.target] if isinstance(st, (ast.AugAssign, ast.AnnAssign, ast.For)) else []
                for t in tg:
                    names |= {x.id for x in ast.walk(t) if isinstance(x, ast.Name)}
            cache[id(F)] = names
        return cache[id(F)]

    def attribute(self, node, env, F):
        txt = ast.unparse(node)
        if txt in ("np.inf", "numpy.inf", "math.inf"):
            return INF
        if txt == "np.pi":
            raise Unsupported("pi")
        if txt in ("np.float64", "np.float32", "np.int32", "np.int64", "np.bool_"):
            return txt
        base = self.ev(node.value, env, F)
        if isinstance(base, Obj):
            if node.attr in base.attrs:
                return base.attrs[node.attr]
            raise Unsupported(f"attribute {node.attr} not modelled")
        if node.attr == "shape":
            if isinstance(base, Mat):
                return (len(base), len(base[0]) if base else 0)
            if isinstance(base, Vec):
                return (len(base),)
        if node.attr == "T" and isinstance(base, Mat):
            return Mat(Vec(col) for col in zip(*base))
        if node.attr == "T" and isinstance(base, Vec):
            return base
        if node.attr == "dtype":
            return "np.float64"
        if node.attr == "size" and isinstance(base, Vec):
            return len(base)
        raise Unsupported(f"attribute {node.attr}")

    # ------------------------------------------------------------ calls
    def call(self, node, env, F):
        f = node.func
        name = ast.unparse(f)
        kw = {k.arg: self.ev(k.value, env, F) for k in node.keywords if k.arg}
        if isinstance(f, ast.Attribute) and not (isinstance(f.value, ast.Name)
                                                 and f.value.id in ("np", "numpy", "math", "linalg")) \
                and not name.startswith(("np.linalg.", "np.random.", "np.add.", "np.maximum.", "np.minimum.")):
            recv = self.ev(f.value, env, F)
            args = [self.ev(a, env, F) for a in node.args]
            if isinstance(recv, Obj):
                m = recv.cls.find_method(f.attr)
                if m is None:
                    raise Unsupported(f"method {f.attr} not found")
                return self.call_function(m, args, kw, self_obj=recv)
            if f.attr == "sum":
                return self.total(recv, kw.get("axis", args[0] if args else None))
            if f.attr == "mean" and isinstance(recv, Vec) and len(recv):
                return self.total(recv) / const(len(recv))
            if f.attr == "copy":
                return self.copy(recv)
            if f.attr == "astype":
                return recv
            if f.attr == "any":
                return self.any(recv)
            if f.attr == "all":
                return not self.any(self.ew(lambda x: not self.truth(x), recv))
            if f.attr == "append" and isinstance(recv, list):
                recv.append(args[0])
                return None
            if f.attr == "reshape":
                raise Unsupported("reshape")
            raise Unsupported(f"method .{f.attr}")
        args = [self.ev(a, env, F) for a in node.args]
        short = name.split(".")[-1]
        if name in ("np.random.randn", "np.random.standard_normal", "np.random.rand", "np.random.normal") \
                and len(args) == 1:
            # a draw from a continuous distribution: fresh symbols, generic witness values
            k = self.as_int(args[0])
            out = Vec()
            for i in range(k):
                nm = f"rnd{len([v for v in self.rg.values if v.startswith('rnd')])}"
                self.rg.values[nm] = 0.37 + 0.29 * i * (-1) ** i
                out.append(sym(nm))
            return out
        if name in ("np.abs", "abs", "np.absolute", "np.fabs"):
            return self.ew(self.absval, args[0])
        if name == "np.sign":
            return self.ew(lambda x: const(self.rg.sign(R(x))), args[0])
        if name in ("np.sqrt", "math.sqrt"):
            argn = node.args[0] if node.args else None
            clipped = isinstance(argn, ast.Call) and ast.unparse(argn.func) in ("max", "np.maximum", "abs", "np.abs")

            def sq(x):
                x0 = x
                x = R(x)
                if x.is_zero() and not clipped and isinstance(x0, RF) and not isinstance(argn, ast.Constant) \
                        and any(isinstance(k, ast.BinOp) and isinstance(k.op, ast.Sub) for k in ast.walk(argn)):
                    # a radicand that cancels identically: in floating point its sign is a
                    # rounding error, the square root is NaN one time out of two
                    self.hazards.append((F, node, "radicand cancels to exactly 0 on this region: the "
                                         "floating-point value can be slightly negative and the root NaN"))
                if not x.is_zero() and self.rg.sign(x) < 0:
                    raise Unsupported("sqrt of a negative term on this region")
                return self.sqrt(x)
            return self.ew(sq, args[0])
        if name in ("np.exp", "np.log", "math.exp", "math.log"):
            def fl(x, short=short):
                x = R(x)
                if short == "log" and self.rg.sign(x) <= 0:
                    raise Unsupported("log of a non-positive term")
                return fn(short, x)
            return self.ew(fl, args[0])
        if name == "np.log1p":
            return self.ew(lambda x: fn("log", const(1) + R(x)), args[0])
        if name == "np.mean":
            a = args[0]
            ax = kw.get("axis", args[1] if len(args) > 1 else None)
            if isinstance(a, Mat) and len(a) and len(a[0]):
                if ax is None:
                    return self.total(a) / const(len(a) * len(a[0]))
                k = self.as_int(ax)
                tot = self.total(a, k)
                return Vec(R(x) / const(len(a) if k == 0 else len(a[0])) for x in tot)
            if isinstance(a, (Vec, list, tuple)) and len(a):
                return self.total(a) / const(len(a))
            raise Unsupported("mean of a scalar / empty array")
        if name in ("np.sum", "sum"):
            return self.total(args[0], kw.get("axis", args[1] if len(args) > 1 else None))
        if name == "len":
            if isinstance(args[0], (list, tuple)):
                return len(args[0])
            raise Unsupported("len of a scalar")
        if name == "range":
            return range(*[self.as_int(a) for a in args])
        if name == "enumerate":
            return [(i, x) for i, x in enumerate(self.iterate(args[0]))]
        if name == "zip":
            return list(zip(*[self.iterate(a) for a in args]))
        if name in ("np.zeros", "np.empty", "np.ones"):
            return self.filled(args[0], const(1) if name == "np.ones" else const(0), kw)
        if name in ("np.zeros_like", "np.empty_like", "np.ones_like"):
            return self.like(args[0], const(1) if name == "np.ones_like" else const(0), kw)
        if name == "np.full_like":
            return self.like(args[0], R(args[1]), kw)
        if name == "np.full":
            return self.filled(args[0], R(args[1]), kw)
        if name in ("np.maximum", "np.minimum", "max", "min") and len(args) == 2:
            return self.maxmin(short.startswith("max"), args[0], args[1])
        if name in ("np.max", "np.min", "max", "min", "np.amax", "np.amin") and len(args) == 1:
            xs = list(args[0])
            if not xs:
                raise Unsupported("max of an empty array")
            cur = xs[0]
            for x in xs[1:]:
                cur = self.maxmin("max" in short, cur, x)
            return cur
        if name in ("np.argmin", "np.argmax"):
            xs = list(args[0])
            best = 0
            for k in range(1, len(xs)):
                s = self.rg.sign(R(xs[k]) - R(xs[best]))
                if (s < 0 and short == "argmin") or (s > 0 and short == "argmax"):
                    best = k
            return best
        if name in ("norm", "np.linalg.norm", "linalg.norm"):
            o = kw.get("ord", args[1] if len(args) > 1 else None)
            if isinstance(o, RF) and o.equals(INF):
                xs = [self.absval(x) for x in args[0]]
                cur = xs[0]
                for x in xs[1:]:
                    cur = self.maxmin(True, cur, x)
                return cur
            if o is not None and self.as_int(o) != 2:
                raise Unsupported("norm order")
            if "axis" in kw:
                a = args[0]
                if isinstance(a, Mat) and self.as_int(kw["axis"]) == 1:
                    return Vec(self.norm2(r) for r in a)
                if isinstance(a, Mat) and self.as_int(kw["axis"]) == 0:
                    return Vec(self.norm2(Vec(c)) for c in zip(*a))
                raise Unsupported("norm axis")
            if isinstance(args[0], Mat):
                if o is None:
                    return self.norm2(Vec(x for r in args[0] for x in r))      # Frobenius
                return self.spectral(args[0])
            return self.norm2(args[0])
        if name == "np.any":
            return self.any(args[0])
        if name == "np.all":
            return not self.any(self.ew(lambda x: not self.truth(x), args[0]))
        if name == "np.array":
            a = args[0]
            if isinstance(a, (list, tuple)):
                if a and isinstance(a[0], (list, tuple)):
                    return Mat(Vec(r) for r in a)
                return Vec(a)
            raise Unsupported("np.array argument")
        if name in ("np.asarray", "np.ascontiguousarray", "np.asfortranarray"):
            if isinstance(args[0], (Vec, Mat)):
                return args[0]               # same array (no copy): aliasing is kept
            if isinstance(args[0], (list, tuple)):
                return Vec(args[0])
        if name == "np.add.reduceat" and len(args) == 2 and isinstance(args[0], (Vec, list)):
            idx = [self.as_int(k) for k in args[1]]
            out = Vec()
            for k, lo in enumerate(idx):
                hi = idx[k + 1] if k + 1 < len(idx) else len(args[0])
                if not 0 <= lo < len(args[0]):
                    raise Raised(f"reduceat index {lo} out of bounds for an array of length {len(args[0])}")
                out.append(self.total(Vec(args[0][lo:hi])) if hi > lo else R(args[0][lo]))
            return out
        if name == "np.arange":
            return Vec(range(*[self.as_int(a) for a in args]))
        if name == "np.argsort":
            xs = list(args[0])
            order = []
            for k in range(len(xs)):          # stable insertion sort on decided comparisons
                pos = len(order)
                while pos > 0 and self.rg.compare(xs[k], "<", xs[order[pos - 1]]):
                    pos -= 1
                order.insert(pos, k)
            return Vec(order)
        if name == "np.sort":
            xs = list(args[0])
            order = []
            for k in range(len(xs)):
                pos = len(order)
                while pos > 0 and self.rg.compare(xs[k], "<", xs[order[pos - 1]]):
                    pos -= 1
                order.insert(pos, k)
            return Vec(xs[k] for k in order)
        if name == "np.cumsum":
            out, t = Vec(), const(0)
            for x in args[0]:
                t = t + R(x)
                out.append(t)
            return out
        if name in ("np.logical_and", "np.logical_or"):
            f2 = (lambda x, y: self.truth(x) and self.truth(y)) if name.endswith("and") \
                else (lambda x, y: self.truth(x) or self.truth(y))
            return self.ew(f2, args[0], args[1])
        if name == "np.logical_not":
            return self.ew(lambda x: not self.truth(x), args[0])
        if name == "slice":
            a = [self.as_int(x) for x in args]
            return slice(*a)
        if name == "np.diag" and isinstance(args[0], Mat):
            return Vec(args[0][i][i] for i in range(min(len(args[0]), len(args[0][0]))))
        if name == "np.append":
            a, b = args
            return Vec(list(a) + (list(b) if isinstance(b, (list, tuple)) else [b]))
        if name in ("np.dot",):
            return self.dot(args[0], args[1])
        if name == "np.where" and len(args) == 3:
            return self.ew(lambda c, x, y: R(x) if self.truth(c) else R(y), *args)
        if name in ("float", "np.float64", "int"):
            a = args[0]
            if isinstance(a, str) and a.lower().lstrip("+") in ("inf", "infinity"):
                return INF
            return a
        if name == "np.isinf":
            raise Unsupported("isinf")
        if name in ("np.cos", "np.arccos", "np.sin", "np.cbrt", "np.arctan"):
            raise Unsupported(f"transcendental {name}")
        if name in ("np.flip", "np.unique"):
            raise Unsupported(name)
        if name in ("np.finfo", "np.iinfo"):
            self.rg.values.setdefault("TINY", 2.220446049250313e-16)
            return Obj(None, {"eps": sym("TINY"), "tiny": sym("TINY"), "max": INF, "min": -INF})
        if name == "compiled_clone":
            return args[0]
        if name == "spectral_norm" and len(args) >= 4:
            # CSC power iteration: compared through the matrix it is taken of
            data, indptr, indices, nrows = args[:4]
            nr = self.as_int(nrows)
            ncol = len(indptr) - 1
            M = Mat(Vec(const(0) for _ in range(ncol)) for _ in range(nr))
            for j in range(ncol):
                for k in range(self.as_int(indptr[j]), self.as_int(indptr[j + 1])):
                    r = self.as_int(indices[k])
                    if not 0 <= r < nr:
                        raise Raised(f"row index {r} outside the {nr} rows")
                    M[r][j] = R(M[r][j]) + R(data[k])
            return self.spectral(M)
        r = self.prog.resolve(F.module, name)
        from .model import FuncInfo, ClassInfo
        if isinstance(r, FuncInfo):
            return self.call_function(r, args, kw)
        if isinstance(r, ClassInfo):
            o = Obj(r, {})
            init = r.find_method("__init__")
            if init is not None:
                self.call_function(init, args, kw, self_obj=o)
            return o
        raise Unsupported(f"call {name}")

    def any(self, v):
        if isinstance(v, Mat):
            return any(self.any(r) for r in v)
        if isinstance(v, (Vec, list, tuple)):
            return any(self.truth(x) for x in v)
        return self.truth(v)

    def total(self, v, axis=None):
        if isinstance(v, Mat):
            if axis is None:
                t = const(0)
                for r in v:
                    t = t + self.total(r)
                return t
            ax = self.as_int(axis)
            if ax == 1:
                return Vec(self.total(r) for r in v)
            if ax == 0:
                return Vec(self.total(Vec(c)) for c in zip(*v))
            raise Unsupported("sum axis")
        if isinstance(v, (Vec, list, tuple)):
            t = const(0)
            for x in v:
                t = t + R(x)
            return t
        return R(v)

    def copy(self, v):
        if isinstance(v, Mat):
            return Mat(Vec(r) for r in v)
        if isinstance(v, Vec):
            return Vec(v)
        return v

    def shape_of(self, a):
        if isinstance(a, tuple):
            return tuple(self.as_int(x) for x in a)
        return (self.as_int(a),)

    def filled(self, shape, val, kw):
        sh = self.shape_of(shape)
        if len(sh) == 1:
            return Vec(val for _ in range(sh[0]))
        if len(sh) == 2:
            return Mat(Vec(val for _ in range(sh[1])) for _ in range(sh[0]))
        raise Unsupported("array rank")

    def like(self, a, val, kw):
        if isinstance(a, Mat):
            return Mat(Vec(val for _ in r) for r in a)
        if isinstance(a, (Vec, list, tuple)):
            return Vec(val for _ in a)
        return val
