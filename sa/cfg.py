"""L1 - statement-level control-flow graph, dominators, reaching definitions.

Covers the statement kinds the repository uses: If, For/While (+else), Break,
Continue, Return, Raise, Try/except/finally, With, assignments, expression
statements, nested defs (opaque statement; analysed separately).

Branch edges of tests and the two out-edges of a loop header are materialised as
*edge nodes* so that "dominated by the true branch of T" is an ordinary dominator
query.
"""
import ast
from collections import defaultdict

from .model import AnalysisError, names_in


class Node:
    __slots__ = ("id", "kind", "ast", "label", "loops", "of")

    def __init__(self, id, kind, astnode=None, label=None, loops=(), of=None):
        self.id = id
        self.kind = kind      # entry exit stmt test for edge except join
        self.ast = astnode
        self.label = label    # for edge nodes: 'true'/'false'/'iter'/'exhaust'
        self.loops = tuple(loops)   # ids of enclosing loop headers (outermost first)
        self.of = of          # for edge nodes: id of the test/for node

    def __repr__(self):
        s = ""
        if self.ast is not None:
            try:
                s = " ".join(ast.unparse(self.ast).split())[:60]
            except Exception:
                s = type(self.ast).__name__
        return f"<{self.id}:{self.kind}{':' + self.label if self.label else ''} {s}>"


class CFG:
    def __init__(self, fdef):
        self.fdef = fdef
        self.nodes = []
        self.succ = defaultdict(list)
        self.pred = defaultdict(list)
        self.entry = self._new("entry")
        self.exit = self._new("exit")
        self.returns = []     # node ids of Return statements
        self.raises = []
        self._loop_stack = []   # (header id, break targets list, continue target)
        self.stmt_node = {}   # id(ast stmt) -> node id
        ends = self._block(fdef.body, [self.entry])
        for e in ends:
            self._edge(e, self.exit)
        self._dom = None
        self._rd = None

    # ----------------------------------------------------------- construction
    def _new(self, kind, astnode=None, label=None, of=None):
        n = Node(len(self.nodes), kind, astnode, label,
                 [h for h, _, _ in getattr(self, "_loop_stack", [])], of)
        self.nodes.append(n)
        if astnode is not None and kind in ("stmt", "test", "for"):
            self.stmt_node[id(astnode)] = n.id
        return n.id

    def _edge(self, a, b):
        if b not in self.succ[a]:
            self.succ[a].append(b)
            self.pred[b].append(a)

    def _block(self, stmts, preds):
        cur = list(preds)
        for st in stmts:
            if not cur:
                break   # unreachable code
            cur = self._stmt(st, cur)
        return cur

    def _stmt(self, st, preds):
        if isinstance(st, ast.If):
            t = self._new("test", st.test)
            self.stmt_node[id(st)] = t
            for p in preds:
                self._edge(p, t)
            et = self._new("edge", st.test, "true", of=t)
            ef = self._new("edge", st.test, "false", of=t)
            self._edge(t, et)
            self._edge(t, ef)
            a = self._block(st.body, [et])
            b = self._block(st.orelse, [ef]) if st.orelse else [ef]
            return a + b
        if isinstance(st, (ast.For, ast.While)):
            kind = "for" if isinstance(st, ast.For) else "test"
            h = self._new(kind, st if kind == "for" else st.test)
            self.stmt_node[id(st)] = h
            for p in preds:
                self._edge(p, h)
            breaks = []
            self._loop_stack.append((h, breaks, h))
            eb = self._new("edge", st if kind == "for" else st.test,
                           "iter" if kind == "for" else "true", of=h)
            self._edge(h, eb)
            body_end = self._block(st.body, [eb])
            for e in body_end:
                self._edge(e, h)
            self._loop_stack.pop()
            ex = self._new("edge", st if kind == "for" else st.test,
                           "exhaust" if kind == "for" else "false", of=h)
            self._edge(h, ex)
            out = self._block(st.orelse, [ex]) if st.orelse else [ex]
            return out + breaks
        if isinstance(st, ast.Break):
            n = self._new("stmt", st)
            for p in preds:
                self._edge(p, n)
            if not self._loop_stack:
                raise AnalysisError("break outside loop")
            self._loop_stack[-1][1].append(n)
            return []
        if isinstance(st, ast.Continue):
            n = self._new("stmt", st)
            for p in preds:
                self._edge(p, n)
            self._edge(n, self._loop_stack[-1][2])
            return []
        if isinstance(st, ast.Return):
            n = self._new("stmt", st)
            for p in preds:
                self._edge(p, n)
            self._edge(n, self.exit)
            self.returns.append(n)
            return []
        if isinstance(st, ast.Raise):
            n = self._new("stmt", st)
            for p in preds:
                self._edge(p, n)
            self.raises.append(n)
            return []
        if isinstance(st, ast.Try):
            start = self._new("join", None)
            for p in preds:
                self._edge(p, start)
            first = len(self.nodes)
            body_end = self._block(st.body, [start])
            body_nodes = [start] + list(range(first, len(self.nodes)))
            if st.orelse:
                body_end = self._block(st.orelse, body_end)
            outs = list(body_end)
            for h in st.handlers:
                hn = self._new("except", h)
                for b in body_nodes:
                    if self.nodes[b].kind in ("stmt", "join", "test", "for"):
                        self._edge(b, hn)
                outs += self._block(h.body, [hn])
            if st.finalbody:
                fj = self._new("join", None)
                for o in outs:
                    self._edge(o, fj)
                # returns inside try also run finally; approximated by the edge above
                outs = self._block(st.finalbody, [fj])
            return outs
        if isinstance(st, ast.With):
            n = self._new("stmt", st)
            for p in preds:
                self._edge(p, n)
            return self._block(st.body, [n])
        # simple statement (Assign, AugAssign, AnnAssign, Expr, Pass, FunctionDef,
        # Import, Assert, Delete, Global, Nonlocal, ClassDef)
        n = self._new("stmt", st)
        for p in preds:
            self._edge(p, n)
        return [n]

    # ------------------------------------------------------------- dominators
    def dominators(self):
        if self._dom is not None:
            return self._dom
        n = len(self.nodes)
        reach = self.reachable_from(self.entry)
        allset = set(reach)
        dom = {i: set(allset) for i in reach}
        dom[self.entry] = {self.entry}
        changed = True
        order = sorted(reach)
        while changed:
            changed = False
            for i in order:
                if i == self.entry:
                    continue
                ps = [p for p in self.pred[i] if p in dom]
                if not ps:
                    new = {i}
                else:
                    new = set.intersection(*[dom[p] for p in ps]) | {i}
                if new != dom[i]:
                    dom[i] = new
                    changed = True
        self._dom = dom
        return dom

    def dominated_by(self, node, dominator):
        d = self.dominators()
        return node in d and dominator in d[node]

    def facts_at(self, node):
        """[(test_ast, label)] for the branch edges that dominate `node`."""
        d = self.dominators().get(node, set())
        out = []
        for i in sorted(d):
            nd = self.nodes[i]
            if nd.kind == "edge":
                out.append((nd.ast, nd.label, nd.of))
        return out

    def reachable_from(self, start, blocked=(), blocked_edges=()):
        seen, stack = set(), [start]
        blocked = set(blocked)
        be = set(blocked_edges)
        while stack:
            x = stack.pop()
            if x in seen or x in blocked:
                continue
            seen.add(x)
            for s in self.succ[x]:
                if (x, s) not in be:
                    stack.append(s)
        return seen

    def paths_exist(self, a, b, avoiding=()):
        """Is there a path a ->+ b that avoids the nodes in `avoiding`?"""
        seen, stack = set(), list(self.succ[a])
        av = set(avoiding)
        while stack:
            x = stack.pop()
            if x in seen or x in av:
                continue
            if x == b:
                return True
            seen.add(x)
            stack.extend(self.succ[x])
        return False

    # --------------------------------------------------------- defs and uses
    @staticmethod
    def _target_names(t, out):
        if isinstance(t, ast.Name):
            out.append(t.id)
        elif isinstance(t, (ast.Tuple, ast.List)):
            for e in t.elts:
                CFG._target_names(e, out)
        elif isinstance(t, ast.Starred):
            CFG._target_names(t.value, out)

    def defs_of(self, nid):
        nd = self.nodes[nid]
        a = nd.ast
        out = []
        if nd.kind == "entry":
            args = self.fdef.args
            for x in args.posonlyargs + args.args + args.kwonlyargs:
                out.append(x.arg)
            if args.vararg:
                out.append(args.vararg.arg)
            if args.kwarg:
                out.append(args.kwarg.arg)
            return out
        if nd.kind == "for":
            self._target_names(a.target, out)
            return out
        if nd.kind == "except":
            if a.name:
                out.append(a.name)
            return out
        if nd.kind != "stmt" or a is None:
            return out
        if isinstance(a, ast.Assign):
            for t in a.targets:
                self._target_names(t, out)
        elif isinstance(a, ast.AugAssign):
            self._target_names(a.target, out)
        elif isinstance(a, ast.AnnAssign):
            if a.value is not None:
                self._target_names(a.target, out)
        elif isinstance(a, (ast.FunctionDef, ast.ClassDef)):
            out.append(a.name)
        elif isinstance(a, (ast.Import, ast.ImportFrom)):
            for al in a.names:
                out.append((al.asname or al.name).split(".")[0])
        elif isinstance(a, ast.With):
            for it in a.items:
                if it.optional_vars is not None:
                    self._target_names(it.optional_vars, out)
        for w in ast.walk(a) if not isinstance(a, (ast.FunctionDef, ast.ClassDef)) else ():
            if isinstance(w, ast.NamedExpr):
                self._target_names(w.target, out)
        return out

    def uses_of(self, nid):
        nd = self.nodes[nid]
        a = nd.ast
        if a is None or nd.kind in ("edge", "entry", "exit", "join"):
            return set()
        if nd.kind == "for":
            return names_in(a.iter)
        if nd.kind == "except":
            return names_in(a.type) if a.type is not None else set()
        if isinstance(a, ast.Assign):
            u = names_in(a.value)
            for t in a.targets:
                for w in ast.walk(t):
                    if isinstance(w, (ast.Subscript, ast.Attribute)):
                        u |= names_in(w)
            return u
        if isinstance(a, ast.AugAssign):
            return names_in(a.value) | names_in(a.target)
        if isinstance(a, ast.With):
            u = set()
            for it in a.items:
                u |= names_in(it.context_expr)
            return u
        return names_in(a)

    # ---------------------------------------------------- reaching definitions
    def reaching_defs(self, blocked_edges=()):
        """IN sets: node id -> {var: set(def node ids)}.  A def node id of -1
        stands for 'unbound' (no definition on some path from entry)."""
        key = tuple(sorted(blocked_edges))
        if self._rd is not None and self._rd[0] == key:
            return self._rd[1]
        be = set(blocked_edges)
        allvars = set()
        for n in self.nodes:
            allvars.update(self.defs_of(n.id))
        IN = {n.id: {} for n in self.nodes}
        OUT = {n.id: None for n in self.nodes}

        def transfer(nid, inn):
            out = {k: set(v) for k, v in inn.items()}
            for v in self.defs_of(nid):
                a = self.nodes[nid].ast
                if isinstance(a, ast.AugAssign) and False:
                    out.setdefault(v, set()).add(nid)
                else:
                    out[v] = {nid}
            return out
        # entry: every non-parameter variable is unbound (-1)
        start = {v: {-1} for v in allvars}
        OUT[self.entry] = transfer(self.entry, start)
        work = list(self.succ[self.entry])
        while work:
            nid = work.pop()
            ps = [p for p in self.pred[nid] if OUT[p] is not None and (p, nid) not in be]
            if not ps:
                continue
            inn = {}
            for p in ps:
                for v, ds in OUT[p].items():
                    inn.setdefault(v, set()).update(ds)
            out = transfer(nid, inn)
            IN[nid] = inn
            if out != OUT[nid]:
                OUT[nid] = out
                for s in self.succ[nid]:
                    if (nid, s) not in be:
                        work.append(s)
        self._rd = (key, IN)
        return IN

    def backward_slice(self, nid, names, rd=None, max_nodes=2000):
        """Def nodes (ids) the values of `names` at `nid` may depend on (data
        dependences only, through reaching definitions)."""
        rd = rd or self.reaching_defs()
        seen = set()
        work = [(nid, v) for v in names]
        done = set()
        while work:
            at, v = work.pop()
            if (at, v) in done:
                continue
            done.add((at, v))
            for d in rd.get(at, {}).get(v, ()):
                if d < 0 or d in seen and False:
                    continue
                if d not in seen:
                    seen.add(d)
                    if len(seen) > max_nodes:
                        return seen
                for u in self.uses_of(d):
                    work.append((d, u))
        return seen

    # ------------------------------------------------ knob-consistent paths
    def _stable_names(self):
        """Names whose value cannot change during one activation: parameters never
        rebound, and locals all of whose definitions are the same stable expression."""
        if getattr(self, "_stable", None) is not None:
            return self._stable
        defs = defaultdict(list)
        for n in self.nodes:
            for v in self.defs_of(n.id):
                defs[v].append(n)
        # attributes of self stored in this function are not stable
        self_stored = set()
        for n in ast.walk(self.fdef):
            if isinstance(n, (ast.Assign, ast.AugAssign)):
                ts = n.targets if isinstance(n, ast.Assign) else [n.target]
                for t in ts:
                    for w in ast.walk(t):
                        if isinstance(w, ast.Attribute) and isinstance(w.value, ast.Name) \
                                and w.value.id == "self":
                            self_stored.add(w.attr)
        stable = set()
        for v, ds in defs.items():
            if len(ds) == 1 and ds[0].kind == "entry":
                stable.add(v)
        changed = True
        while changed:
            changed = False
            for v, ds in defs.items():
                if v in stable or any(d.kind != "stmt" or not isinstance(d.ast, ast.Assign)
                                      or len(d.ast.targets) != 1
                                      or not isinstance(d.ast.targets[0], ast.Name) for d in ds):
                    continue
                texts = {ast.dump(d.ast.value) for d in ds}
                if len(texts) == 1 and self._stable_expr(ds[0].ast.value, stable, self_stored):
                    stable.add(v)
                    changed = True
        self._stable = (stable, self_stored)
        return self._stable

    def _stable_expr(self, e, stable, self_stored):
        if isinstance(e, ast.Constant):
            return True
        if isinstance(e, ast.Name):
            return e.id in stable or e.id in ("np", "sparse", "None", "True", "False")
        if isinstance(e, ast.Attribute):
            if isinstance(e.value, ast.Name) and e.value.id == "self":
                return e.attr not in self_stored
            return self._stable_expr(e.value, stable, self_stored) and e.attr in ("shape", "ndim", "dtype")
        if isinstance(e, (ast.Compare,)):
            return self._stable_expr(e.left, stable, self_stored) and \
                all(self._stable_expr(c, stable, self_stored) for c in e.comparators)
        if isinstance(e, ast.BoolOp):
            return all(self._stable_expr(v, stable, self_stored) for v in e.values)
        if isinstance(e, ast.UnaryOp):
            return self._stable_expr(e.operand, stable, self_stored)
        if isinstance(e, (ast.Tuple, ast.List)):
            return all(self._stable_expr(v, stable, self_stored) for v in e.elts)
        if isinstance(e, ast.Subscript):
            return self._stable_expr(e.value, stable, self_stored) and \
                self._stable_expr(e.slice, stable, self_stored)
        if isinstance(e, ast.Call):
            fn = ast.unparse(e.func)
            if fn.split(".")[-1] in ("issparse", "hasattr", "isinstance", "len"):
                return all(self._stable_expr(a, stable, self_stored) for a in e.args)
            return False
        return False

    def stable_edges(self):
        """edge node id -> constraint for tests over stable values.
        constraint = ('bool', key, outcome) | ('set', knob key, member: bool, values)"""
        if getattr(self, "_sedges", None) is not None:
            return self._sedges
        stable, stored = self._stable_names()
        out = {}
        for n in self.nodes:
            if n.kind == "edge" and n.label in ("true", "false") and isinstance(n.ast, ast.expr):
                t = n.ast
                neg = False
                while isinstance(t, ast.UnaryOp) and isinstance(t.op, ast.Not):
                    t, neg = t.operand, not neg
                if not self._stable_expr(t, stable, stored):
                    continue
                outcome = (n.label == "true") != neg
                c = None
                if isinstance(t, ast.Compare) and len(t.ops) == 1:
                    op, rhs = t.ops[0], t.comparators[0]
                    vals = None
                    if isinstance(op, (ast.Eq, ast.NotEq)) and isinstance(rhs, ast.Constant):
                        vals = frozenset([repr(rhs.value)])
                    elif isinstance(op, (ast.In, ast.NotIn)) and isinstance(rhs, (ast.Tuple, ast.List, ast.Set)) \
                            and all(isinstance(e, ast.Constant) for e in rhs.elts):
                        vals = frozenset(repr(e.value) for e in rhs.elts)
                    if vals is not None and not isinstance(t.left, ast.Constant):
                        member = outcome if isinstance(op, (ast.Eq, ast.In)) else not outcome
                        c = ("set", ast.dump(t.left), member, vals)
                if c is None:
                    c = ("bool", ast.dump(t), outcome)
                out[n.id] = c
        self._sedges = out
        return out

    @staticmethod
    def _apply(st, c):
        """state dict -> new dict or None if contradictory"""
        d = dict(st)
        if c[0] == "bool":
            _, k, o = c
            if k in d and d[k] != o:
                return None
            d[k] = o
            return d
        _, k, member, vals = c
        cur = d.get(k)          # ('in', S) or ('notin', S)
        if member:
            if cur is None:
                new = ("in", vals)
            elif cur[0] == "in":
                new = ("in", cur[1] & vals)
            else:
                new = ("in", vals - cur[1])
            if not new[1]:
                return None
        else:
            if cur is None:
                new = ("notin", vals)
            elif cur[0] == "in":
                new = ("in", cur[1] - vals)
                if not new[1]:
                    return None
            else:
                new = ("notin", cur[1] | vals)
        d[k] = new
        return d

    def nonzero_trip_headers(self, consts=None):
        """for-loops over range(K) with K a positive literal or module constant"""
        out = {}
        consts = consts or {}
        for n in self.nodes:
            if n.kind == "for" and isinstance(n.ast.iter, ast.Call) \
                    and ast.unparse(n.ast.iter.func) == "range" and len(n.ast.iter.args) == 1:
                a = n.ast.iter.args[0]
                v = None
                if isinstance(a, ast.Constant):
                    v = a.value
                elif isinstance(a, ast.Name) and a.id in consts:
                    v = consts[a.id]
                if isinstance(v, int) and v > 0:
                    it, ex = self.loop_edges(n.id)
                    out[n.id] = (it, ex)
        return out

    def consistent_path(self, a, b, avoiding=(), seed_from=None, init=None, consts=None):
        """Path a ->+ b avoiding nodes, on which every stable test keeps one outcome
        (value-set reasoning for `K == c`, `K in (..)` tests on one stable K).
        The facts dominating `seed_from` (default a) are assumed at the start."""
        se = self.stable_edges()
        st0 = {}
        for i in sorted(self.dominators().get(a if seed_from is None else seed_from, ())):
            if i in se:
                nxt = self._apply(st0, se[i])
                if nxt is not None:
                    st0 = nxt
        for c in (init or ()):
            nxt = self._apply(st0, c)
            if nxt is not None:
                st0 = nxt
        nz = self.nonzero_trip_headers(consts)
        iter_edges = {it: h for h, (it, ex) in nz.items()}
        ex_edges = {ex: h for h, (it, ex) in nz.items()}
        # loops already entered at the start node count as entered
        for h in nz:
            if h in self.nodes[a].loops:
                st0[("loop", h)] = True
        av = set(avoiding)
        start = frozenset(st0.items())
        seen = set()
        stack = [(s, start) for s in self.succ[a]]
        while stack:
            x, st = stack.pop()
            if x in av:
                continue
            if x in iter_edges:
                d = dict(st)
                d[("loop", iter_edges[x])] = True
                st = frozenset(d.items())
            elif x in ex_edges:
                if not dict(st).get(("loop", ex_edges[x])):
                    continue      # zero-trip exit of a loop that runs at least once
                d = dict(st)
                d.pop(("loop", ex_edges[x]), None)
                st = frozenset(d.items())
            if x in se:
                d = self._apply(dict(st), se[x])
                if d is None:
                    continue
                st = frozenset(d.items())
            if (x, st) in seen:
                continue
            seen.add((x, st))
            if x == b:
                return True
            for s in self.succ[x]:
                stack.append((s, st))
        return False

    # ------------------------------------------------------------- utilities
    def node_of(self, stmt):
        return self.stmt_node.get(id(stmt))

    def loop_header_of(self, stmt):
        return self.stmt_node.get(id(stmt))

    def loop_edges(self, header):
        it = ex = None
        for s in self.succ[header]:
            nd = self.nodes[s]
            if nd.kind == "edge" and nd.of == header:
                if nd.label in ("iter", "true"):
                    it = s
                else:
                    ex = s
        return it, ex

    def stmts(self):
        for n in self.nodes:
            if n.kind in ("stmt", "test", "for"):
                yield n


_cache = {}


def cfg_of(func):
    k = id(func.node)
    if k not in _cache:
        _cache[k] = CFG(func.node)
    return _cache[k]
