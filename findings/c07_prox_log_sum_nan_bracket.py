import numpy as np
from skglm.utils.prox_funcs import prox_log_sum, _log_sum_prox_val
bad = []
for alpha in (6.0, 3.0, 2.0, 1.7, 0.9, 0.3):
    for eps in (0.05, 0.1, 0.3, 0.5):
        if np.sqrt(alpha) <= eps:
            continue
        for x in np.linspace(0.1, 150, 400):
            u = prox_log_sum(x, alpha, eps)
            f_u = _log_sum_prox_val(u, x, alpha, eps)
            grid = np.linspace(0, x, 4001)
            f_best = np.min((grid - x) ** 2 / (2 * alpha) + np.log1p(grid / eps))
            if f_u > f_best + 1e-6:
                bad.append((alpha, eps, x, u, f_u, f_best))
print(len(bad), "inputs where prox_log_sum is not a minimiser", bad[:3])
assert not bad
