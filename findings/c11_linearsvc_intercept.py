"""Triage repro: LinearSVC ignores fit_intercept."""
import numpy as np
from skglm import LinearSVC
rng = np.random.RandomState(0)
X = rng.randn(60, 5); y = np.sign(X[:, 0] + 2.0)
a = LinearSVC(C=1., fit_intercept=True).fit(X, y)
b = LinearSVC(C=1., fit_intercept=False).fit(X, y)
print("intercept_ with fit_intercept=True:", a.intercept_, " identical coef:", np.allclose(a.coef_, b.coef_))
