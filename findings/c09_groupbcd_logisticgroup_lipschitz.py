"""Triage repro: GroupBCD x LogisticGroup uses Logistic.get_lipschitz (one constant per
*feature*) indexed by *group*."""
import warnings
import numpy as np
from skglm.solvers import GroupBCD, GroupProxNewton
from skglm.datafits import LogisticGroup
from skglm.penalties import WeightedGroupL2
from skglm.utils.jit_compilation import compiled_clone
from skglm.utils.data import grp_converter, make_correlated_data
warnings.simplefilter("ignore")
n, p, gs = 100, 40, 8
X, y, _ = make_correlated_data(n, p, rho=0.99, random_state=0)
# heterogeneous scales: the first n_groups features (whose constants are used) are tiny
X[:, :p // gs] *= 1e-2
y = np.sign(y)
gi, gp = grp_converter(gs, p)
alpha = 1e-3
df = compiled_clone(LogisticGroup(gp, gi)); pen = compiled_clone(WeightedGroupL2(alpha, np.ones(p // gs), gp, gi))
L_used = df.get_lipschitz(X, y)[:p // gs]
df.initialize(X, y)
print("constants used by GroupBCD (feature 0..4):", L_used)
print("group Lipschitz constants               :", df.lipschitz)
w, obj, crit = GroupBCD(fit_intercept=False, max_iter=50, tol=1e-8).solve(X, y, df, pen)
w2, obj2, crit2 = GroupProxNewton(fit_intercept=False, tol=1e-8).solve(X, y, compiled_clone(LogisticGroup(gp, gi)), pen)
print("GroupBCD        objective history (first 8):", np.round(obj[:8], 4), " final", obj[-1], "stop_crit", crit)
print("GroupProxNewton final objective            :", obj2[-1], "stop_crit", crit2)
print("non-monotone GroupBCD history:", bool(np.any(np.diff(obj) > 1e-10)), " finite:", np.isfinite(obj[-1]))
