"""Triage repro: MultiTaskBCD.path with W_init and fit_intercept=True."""
import numpy as np
from skglm.solvers import MultiTaskBCD
from skglm.datafits import QuadraticMultiTask
from skglm.penalties import L2_1
from skglm.utils.jit_compilation import compiled_clone
rng = np.random.RandomState(0)
X = np.asfortranarray(rng.randn(30, 6)); Y = np.asfortranarray(rng.randn(30, 3))
W_init = rng.randn(3, 7)            # (n_tasks, n_features + 1): intercept in the last column
try:
    MultiTaskBCD(fit_intercept=True).path(X, Y, compiled_clone(QuadraticMultiTask()),
                                          compiled_clone(L2_1(0.1)), alphas=[0.1], W_init=W_init)
    print("ok")
except Exception as e:
    print("raised", type(e).__name__, str(e)[:100])
