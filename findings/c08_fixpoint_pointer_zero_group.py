import numpy as np
from skglm.solvers.common import dist_fix_point_bcd
from skglm.penalties import WeightedGroupL2
from skglm.utils.jit_compilation import compiled_clone
grp_ptr=np.array([0,2,4,6],dtype=np.int32); grp_indices=np.arange(6,dtype=np.int32)
pen=compiled_clone(WeightedGroupL2(0.1, np.ones(3), grp_ptr, grp_indices))
w=np.array([0.5,-0.2, 0.3,0.1, -0.4,0.2])
grad=np.array([9.,9., 0.3,-0.1, 0.2,0.4])     # stacked by ws = [0,1,2]
ws=np.array([0,1,2],dtype=np.int32)
lip_full=np.array([1.0,2.0,1.5]); lip_zero=np.array([0.0,2.0,1.5])
d_full=dist_fix_point_bcd(w,grad,lip_full,None,pen,ws)
d_zero=dist_fix_point_bcd(w,grad,lip_zero,None,pen,ws)
print("scores with L=(1,2,1.5):", d_full)
print("scores with L=(0,2,1.5):", d_zero)
# groups 1 and 2 do not depend on the constant of group 0
assert np.allclose(d_full[1:], d_zero[1:]), "a zero-curvature group shifts the gradient slices of the later groups"
