import numpy as np, warnings
warnings.simplefilter("ignore")
from skglm.solvers import FISTA
from skglm.datafits import Quadratic
from skglm.penalties import L1
from skglm.utils.jit_compilation import compiled_clone
rng=np.random.default_rng(0)
worst=0
for seed in range(10):
    rng=np.random.default_rng(seed)
    n,p=60,30
    X=rng.standard_normal((n,p)); X[:,1]=X[:,0]+0.1*rng.standard_normal(n)
    y=X[:,:3]@np.array([1.,-2.,1.5])+0.5*rng.standard_normal(n)
    for tol in (1e-2,1e-3,1e-4):
        df=compiled_clone(Quadratic()); pen=compiled_clone(L1(0.05))
        df.initialize(X,y)
        w,obj,crit=FISTA(max_iter=5000,tol=tol).solve(X,y,df,pen)
        grad=X.T@(X@w-y)/n
        true=np.max(pen.subdiff_distance(w,grad,np.arange(p)))
        ratio=true/max(crit,1e-300)
        worst=max(worst,ratio)
        if true>tol: print("seed",seed,"tol",tol,"returned %.3e"%crit,"true %.3e"%true, "n_iter",len(obj))
print("worst ratio",worst)
